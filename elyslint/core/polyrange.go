package core

import (
	"math/big"
	"sort"

	"golang.org/x/tools/go/ssa"
)

// Outer strips one rounding conversion from a normal form that is exactly Trunc(x),
// Round(x) or Ceil(x): it returns x and the operator ("" when p is not of that shape).
func (p *Poly) Outer() (*Poly, string) {
	if len(p.T) != 1 {
		return p, ""
	}
	for m, c := range p.T {
		if c.Cmp(big.NewRat(1, 1)) != 0 {
			return p, ""
		}
		if oq, ok := p.Opq[m]; ok && len(oq.Args) == 1 && (oq.Op == "Trunc" || oq.Op == "Round" || oq.Op == "Ceil") {
			return oq.Args[0], oq.Op
		}
	}
	return p, ""
}

// Mentions reports whether some monomial of p has the leaf key as a factor (numerator or
// denominator), also inside opaque operands.
func (p *Poly) Mentions(key string) bool {
	for m := range p.T {
		n, d := splitMono(m)
		for _, x := range append(append([]string{}, n...), d...) {
			if x == key {
				return true
			}
			if oq, ok := p.Opq[x]; ok {
				for _, a := range oq.Args {
					if a.Mentions(key) {
						return true
					}
				}
			}
		}
	}
	return false
}

// LeafKeys lists the top-level factor keys of p (sorted).
func (p *Poly) LeafKeys() []string {
	seen := map[string]bool{}
	for m := range p.T {
		n, d := splitMono(m)
		for _, x := range append(append([]string{}, n...), d...) {
			seen[x] = true
		}
	}
	var ks []string
	for k := range seen {
		ks = append(ks, k)
	}
	sort.Strings(ks)
	return ks
}

// PolyRange bounds the value of the normal form p at instruction `at` from the ranges of
// its leaves (each leaf is an SSA value the Ranger can evaluate).  When p is multilinear in
// leaves with bounded ranges the bounds are exact (a multilinear function on a box attains
// its extrema at the vertices); otherwise plain interval arithmetic per monomial is used.
// ok is false when a leaf has no SSA value.
func (E *Ranger) PolyRange(ctx *callCtx, p *Poly, at ssa.Instruction) (Itv, bool) {
	keys := p.LeafKeys()
	rng := map[string]Itv{}
	for _, k := range keys {
		v := p.Leaf[k]
		if v == nil {
			return Top(), false
		}
		rng[k] = E.ValAt(ctx, v, at).R
	}
	multilinear := len(keys) <= 10
	for m := range p.T {
		n, d := splitMono(m)
		if len(d) > 0 {
			multilinear = false
		}
		for i := 1; i < len(n); i++ {
			if n[i] == n[i-1] {
				multilinear = false
			}
		}
	}
	for _, k := range keys {
		it := rng[k]
		if it.Bot || it.lo.inf != 0 || it.hi.inf != 0 {
			multilinear = false
		}
	}
	if multilinear {
		var lo, hi *big.Rat
		for mask := 0; mask < 1<<len(keys); mask++ {
			val := map[string]*big.Rat{}
			for i, k := range keys {
				if mask&(1<<i) != 0 {
					val[k] = rng[k].hi.v
				} else {
					val[k] = rng[k].lo.v
				}
			}
			sum := new(big.Rat)
			for m, c := range p.T {
				t := new(big.Rat).Set(c)
				n, _ := splitMono(m)
				for _, x := range n {
					t.Mul(t, val[x])
				}
				sum.Add(sum, t)
			}
			if lo == nil || sum.Cmp(lo) < 0 {
				lo = sum
			}
			if hi == nil || sum.Cmp(hi) > 0 {
				hi = new(big.Rat).Set(sum)
			}
		}
		if lo == nil {
			return ConstItv(new(big.Rat)), true
		}
		return Range(new(big.Rat).Set(lo), hi, false, false), true
	}
	total := ConstItv(new(big.Rat))
	for m, c := range p.T {
		t := ConstItv(new(big.Rat).Set(c))
		n, d := splitMono(m)
		for _, x := range n {
			t = t.Mul(rng[x])
		}
		for _, x := range d {
			q, ok := t.Quo(rng[x])
			if !ok {
				return Top(), true
			}
			t = q
		}
		total = total.Add(t)
	}
	return total, true
}
