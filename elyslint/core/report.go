package core

import (
	"encoding/json"
	"fmt"
	"os"
	"path/filepath"
	"sort"
	"strconv"
	"strings"
	"time"
)

// VerifDir is where tables, evidence and known findings live.
func VerifDir() string {
	if d := os.Getenv("VERIF_DIR"); d != "" {
		return d
	}
	if exe, err := os.Executable(); err == nil {
		d := filepath.Dir(filepath.Dir(exe))
		if _, err := os.Stat(filepath.Join(d, "properties.jsonl")); err == nil {
			return d
		}
	}
	return "/verif"
}

// Obligation is one decided instance of a rule (DESIGN §1.7): keyed by
// rule : function : construct, never by line.
type Obligation struct {
	Rule      string `json:"rule"`
	Func      string `json:"func"`
	Construct string `json:"construct"`
	Pos       string `json:"pos"`
	Status    string `json:"status"` // discharged | violated | undecided | known-finding
	Detail    string `json:"detail,omitempty"`
}

func (o *Obligation) Key() string { return o.Rule + " : " + o.Func + " : " + o.Construct }

type KnownFinding struct {
	Property  string `json:"property"`
	Rule      string `json:"rule"`
	Func      string `json:"func"`
	Construct string `json:"construct"`
	WhatFails string `json:"what_fails"`
	Status    string `json:"status"` // known | fixed
	Commit    string `json:"commit,omitempty"`
	ID        string `json:"id,omitempty"`
}

type Report struct {
	Property    string
	Tier        string
	Obls        []*Obligation
	Assumptions []string
	Explanation string
	Extra       map[string]any
	Analysed    map[string]int
	Witnesses   []map[string]any
	t0          time.Time
	seen        map[string]bool
	sealed      bool
	View        string // "as written" or "inlined normal form"
}

func NewReport(property, tier string) *Report {
	return &Report{Property: property, Tier: tier, Extra: map[string]any{}, Analysed: map[string]int{}, t0: time.Now(), seen: map[string]bool{}}
}

// Add records an obligation. ok=true → discharged, false → violated.
func (r *Report) Add(rule, fn, construct, pos string, ok bool, detail string) *Obligation {
	st := "discharged"
	if !ok {
		st = "violated"
	}
	return r.add(rule, fn, construct, pos, st, detail)
}

// Undecided records an obligation the analysis could not decide (fails the check).
func (r *Report) Undecided(rule, fn, construct, pos, detail string) *Obligation {
	return r.add(rule, fn, construct, pos, "undecided", detail)
}

func (r *Report) add(rule, fn, construct, pos, st, detail string) *Obligation {
	o := &Obligation{Rule: rule, Func: fn, Construct: construct, Pos: pos, Status: st, Detail: detail}
	k := o.Key()
	if r.seen[k] {
		// same construct twice in one function: disambiguate by ordinal, keep line-free
		for i := 2; ; i++ {
			k2 := k + " #" + strconv.Itoa(i)
			if !r.seen[k2] {
				o.Construct += " #" + strconv.Itoa(i)
				k = k2
				break
			}
		}
	}
	r.seen[k] = true
	r.Obls = append(r.Obls, o)
	return o
}

func (r *Report) Assume(s string) {
	for _, a := range r.Assumptions {
		if a == s {
			return
		}
	}
	r.Assumptions = append(r.Assumptions, s)
}

// Count returns the number of obligations recorded under a rule.
func (r *Report) Count(rule string) int {
	n := 0
	for _, o := range r.Obls {
		if o.Rule == rule {
			n++
		}
	}
	return n
}

func loadJSON(path string, v any) error {
	b, err := os.ReadFile(path)
	if err != nil {
		return err
	}
	return json.Unmarshal(b, v)
}

// Finish applies floors and known findings, writes evidence and replay files, prints the
// verdict lines and returns the process exit code.
func (r *Report) Finish(P *Program) int {
	vd := VerifDir()
	r.seal(true)
	for _, o := range r.Obls {
		if o.Status == "known-finding" {
			fmt.Printf("KNOWN-FINDING: property=%s [%s] %s\n", r.Property, o.Key(), o.Detail)
		}
	}
	outDir := filepath.Join(vd, "out", r.Property)
	os.RemoveAll(outDir)
	os.MkdirAll(outDir, 0o755)
	nviol, ndis, nknown := 0, 0, 0
	var samples []any
	perRule := map[string]int{}
	for _, o := range r.Obls {
		perRule[o.Rule]++
		switch o.Status {
		case "discharged":
			ndis++
		case "known-finding":
			nknown++
		default:
			nviol++
			path := filepath.Join(outDir, fmt.Sprintf("%d.json", nviol))
			b, _ := json.MarshalIndent(map[string]any{"property": r.Property, "tier": r.Tier, "obligation": o,
				"replay": fmt.Sprintf("bin/elyslint check -property %s -tier %s -only %q", r.Property, r.Tier, o.Key())}, "", " ")
			os.WriteFile(path, b, 0o644)
			fmt.Printf("%s: [%s] %s — %s: %s\n", o.Pos, o.Status, o.Key(), r.Property, o.Detail)
			fmt.Printf("VIOLATION property=%s replay=%s\n", r.Property, path)
		}
	}
	// samples: all non-discharged plus up to 40 discharged, spread across rules
	perRuleShown := map[string]int{}
	for _, o := range r.Obls {
		if o.Status != "discharged" || perRuleShown[o.Rule] < 6 {
			if len(samples) < 120 {
				samples = append(samples, o)
			}
			perRuleShown[o.Rule]++
		}
	}
	cov := map[string]any{
		"obligations":         len(r.Obls),
		"discharged":          ndis,
		"known_findings":      nknown,
		"evaluations":         len(r.Obls),
		"distinct_nontrivial": len(r.seen),
		"rule":                "one obligation per (rule, function, construct) instance discovered in the type-checked SSA form of /repo's working tree; all are distinct by key and non-trivial (each names a concrete call site / field update / path)",
		"samples":             samples,
		"per_rule":            perRule,
		"explanation":         r.Explanation,
		"view":                r.View,
		"analysed":            r.Analysed,
		"exhaustive":          true,
		"checker_cmd":         fmt.Sprintf("bin/elyslint check -property %s -tier %s", r.Property, r.Tier),
		"trusted_base":        []string{"go/types, go/ssa (golang.org/x/tools v0.29.0)", "frozen tables under /verif/tables", "cosmos-sdk bank/store primitives behave as their names say"},
	}
	if len(r.Witnesses) > 0 {
		cov["sensitivity_witnesses"] = r.Witnesses
	}
	for k, v := range r.Extra {
		cov[k] = v
	}
	if P != nil {
		r.Analysed["packages"] = len(P.Pkgs)
		r.Analysed["functions_with_bodies"] = len(P.Funcs)
		if P.cg != nil {
			r.Analysed["callgraph_edges"] = P.cg.Edges
			r.Analysed["interface_call_sites"] = P.cg.IfaceSites
			r.Analysed["unresolved_dynamic_calls"] = P.cg.Unresolved
		}
	}
	seed, _ := strconv.Atoi(os.Getenv("VERIF_SEED"))
	ev := map[string]any{
		"property_id": r.Property,
		"tier":        r.Tier,
		"seed":        seed,
		"level":       "other",
		"coverage":    cov,
		"assumptions": r.Assumptions,
		"wall_s":      time.Since(r.t0).Seconds(),
		"violations":  nviol,
	}
	if r.Assumptions == nil {
		ev["assumptions"] = []string{}
	}
	b, _ := json.MarshalIndent(ev, "", " ")
	os.MkdirAll(filepath.Join(vd, "evidence"), 0o755)
	if err := os.WriteFile(filepath.Join(vd, "evidence", r.Property+".json"), b, 0o644); err != nil {
		fmt.Fprintln(os.Stderr, "cannot write evidence:", err)
		return 2
	}
	var rs []string
	for k, v := range perRule {
		rs = append(rs, fmt.Sprintf("%s=%d", k, v))
	}
	sort.Strings(rs)
	fmt.Printf("%s tier=%s obligations=%d discharged=%d known-findings=%d violations=%d  [%s]  %.1fs\n",
		r.Property, r.Tier, len(r.Obls), ndis, nknown, nviol, strings.Join(rs, " "), time.Since(r.t0).Seconds())
	if nviol > 0 {
		return 1
	}
	return 0
}

// seal applies the floors and the known-findings file exactly once.
func (r *Report) seal(print bool) {
	if r.sealed {
		return
	}
	r.sealed = true
	vd := VerifDir()
	// floors: a rule that matches fewer instances than confirmed by hand fails
	floors := map[string]map[string]int{}
	if err := loadJSON(filepath.Join(vd, "tables", "floors.json"), &floors); err != nil {
		r.Undecided("floors", "-", "tables/floors.json", "-", "cannot read floors table: "+err.Error())
	}
	if fl, ok := floors[r.Property]; ok {
		rules := make([]string, 0, len(fl))
		for k := range fl {
			rules = append(rules, k)
		}
		sort.Strings(rules)
		for _, rule := range rules {
			n := r.Count(rule)
			if n < fl[rule] {
				r.add("floor", "-", rule, "-", "violated", fmt.Sprintf("rule %s matched %d instances, floor is %d (a rule must not pass vacuously)", rule, n, fl[rule]))
			}
		}
	} else {
		r.Undecided("floors", "-", r.Property, "-", "no floor entry for this property")
	}
	var known []KnownFinding
	if err := loadJSON(filepath.Join(vd, "known_findings.json"), &known); err != nil {
		r.Undecided("known-findings", "-", "known_findings.json", "-", "cannot read: "+err.Error())
	}
	for _, o := range r.Obls {
		if o.Status != "violated" {
			continue
		}
		for _, k := range known {
			if k.Status == "known" && k.Property == r.Property && k.Rule == o.Rule && k.Func == o.Func && k.Construct == o.Construct {
				o.Status = "known-finding"
				o.Detail = k.ID + ": " + k.WhatFails
			}
		}
	}
}

// Violations computes the verdict (floors and known findings applied) without writing
// evidence or replay files.
func (r *Report) Violations() []*Obligation {
	r.seal(false)
	var out []*Obligation
	for _, o := range r.Obls {
		if o.Status == "violated" || o.Status == "undecided" {
			out = append(out, o)
		}
	}
	return out
}

// Fail is used when the tree cannot be analysed at all.
func Fail(property, tier, msg string) int {
	r := NewReport(property, tier)
	r.Explanation = "the tree could not be analysed; a tree that cannot be analysed is not a tree on which the property was shown"
	r.Undecided("load", "-", "packages.Load", "-", msg)
	return r.Finish(nil)
}
