package core

import (
	"fmt"
	"go/ast"
	"go/token"
	"go/types"
	"os"
	"sort"
	"strings"

	"golang.org/x/tools/go/packages"
	"golang.org/x/tools/go/ssa"
	"golang.org/x/tools/go/types/typeutil"
)

// Source-level inlining of private helpers (DESIGN §9.7 "inlined normal form").
//
// Extracting part of a function into an unexported helper (or folding one back) does not
// change behaviour, but it moves guards, ledger updates and isolation shapes across a
// function boundary that the per-function rules do not look across.  Instead of teaching
// every rule about every helper, the analysed program is brought into a normal form: every
// call *statement* whose callee is an unexported function or method of the same package
// (no defer/go/recover, not recursive, not variadic, not generic) is replaced by the
// callee's body, renamed apart, with `return` turned into an assignment to result
// temporaries and a break out of a single-iteration labelled loop.  The result is ordinary
// Go source handed to go/packages as an overlay; it is type-checked again (a variant that
// does not type-check is discarded) and never written to disk or compiled.
//
// A property's rules are run on the tree as written first; only when that view reports a
// violation is the normal form built and the rules run again.  The two programs are
// semantically the same program, so a structural necessary condition established on either
// is established.

type edit struct {
	start, end int
	text       string
}

func applyEdits(src []byte, edits []edit) []byte {
	sort.SliceStable(edits, func(i, j int) bool {
		if edits[i].start != edits[j].start {
			return edits[i].start < edits[j].start
		}
		return edits[i].end < edits[j].end
	})
	var out []byte
	pos := 0
	for _, e := range edits {
		if e.start < pos {
			continue // overlapping edit: drop (never produced for one call, defensive)
		}
		out = append(out, src[pos:e.start]...)
		out = append(out, e.text...)
		pos = e.end
	}
	out = append(out, src[pos:]...)
	return out
}

type inliner struct {
	P      *Program
	src    map[string][]byte
	base   map[string][]byte
	n      int
	serial int
	Log    []string
	seen   map[ast.Stmt]bool
	pure   map[*types.Func]bool
}

func (in *inliner) content(file string) []byte {
	if b, ok := in.src[file]; ok {
		return b
	}
	if b, ok := in.base[file]; ok {
		in.src[file] = b
		return b
	}
	b, err := os.ReadFile(file)
	if err != nil {
		return nil
	}
	in.src[file] = b
	return b
}

// InlineRound performs one round of helper inlining over the loaded program and returns the
// overlay (base plus rewritten files) and the number of calls inlined.  round makes the
// generated names unique across rounds.
func (P *Program) InlineRound(base map[string][]byte, round int) (map[string][]byte, int, []string) {
	in := &inliner{P: P, src: map[string][]byte{}, base: base, serial: round * 100000}
	out := map[string][]byte{}
	for k, v := range base {
		out[k] = v
	}
	for _, pkg := range P.Pkgs {
		in.pkg(pkg, out)
	}
	return out, in.n, in.Log
}

func (in *inliner) off(p token.Pos) int { return in.P.Fset.Position(p).Offset }

func (in *inliner) pkg(pkg *packages.Package, out map[string][]byte) {
	if pkg.TypesInfo == nil {
		return
	}
	decls := map[*types.Func]*ast.FuncDecl{}
	fileOf := map[*ast.FuncDecl]*ast.File{}
	for _, f := range pkg.Syntax {
		for _, d := range f.Decls {
			if fd, ok := d.(*ast.FuncDecl); ok && fd.Body != nil {
				if obj, ok := pkg.TypesInfo.Defs[fd.Name].(*types.Func); ok {
					decls[obj] = fd
					fileOf[fd] = f
				}
			}
		}
	}
	for _, f := range pkg.Syntax {
		fname := in.P.Fset.Position(f.Pos()).Filename
		rel := strings.TrimPrefix(fname, in.P.Dir+"/")
		if IsGeneratedOrAux(rel) {
			continue
		}
		var edits []edit
		imports := map[string]string{} // name → path to add
		for _, d := range f.Decls {
			fd, ok := d.(*ast.FuncDecl)
			if !ok || fd.Body == nil {
				continue
			}
			in.stmts(pkg, f, fd, fd.Body.List, false, decls, fileOf, &edits, imports)
		}
		if len(edits) == 0 {
			continue
		}
		if len(imports) > 0 {
			var names []string
			for n := range imports {
				names = append(names, n)
			}
			sort.Strings(names)
			var sb strings.Builder
			for _, n := range names {
				fmt.Fprintf(&sb, "; import %s %q", n, imports[n])
			}
			// right after the package clause (import declarations may be repeated)
			edits = append(edits, edit{in.off(f.Name.End()), in.off(f.Name.End()), sb.String()})
		}
		src := in.content(fname)
		if src == nil {
			continue
		}
		out[fname] = applyEdits(src, edits)
	}
}

// stmts walks a statement list looking for inlinable call statements.
func (in *inliner) stmts(pkg *packages.Package, file *ast.File, host *ast.FuncDecl, list []ast.Stmt, _ bool,
	decls map[*types.Func]*ast.FuncDecl, fileOf map[*ast.FuncDecl]*ast.File, edits *[]edit, imports map[string]string) {
	for _, s := range list {
		if in.seen == nil {
			in.seen = map[ast.Stmt]bool{}
		}
		if in.seen[s] {
			continue
		}
		in.seen[s] = true
		var call *ast.CallExpr
		switch x := s.(type) {
		case *ast.ExprStmt:
			call, _ = x.X.(*ast.CallExpr)
		case *ast.AssignStmt:
			if len(x.Rhs) == 1 {
				call, _ = x.Rhs[0].(*ast.CallExpr)
			}
		case *ast.ReturnStmt:
			if len(x.Results) == 1 {
				call, _ = x.Results[0].(*ast.CallExpr)
			}
		case *ast.IfStmt:
			if as, ok := x.Init.(*ast.AssignStmt); ok && len(as.Rhs) == 1 {
				call, _ = as.Rhs[0].(*ast.CallExpr)
			}
			if call == nil && x.Init == nil {
				c := ast.Unparen(x.Cond)
				if u, ok := c.(*ast.UnaryExpr); ok && u.Op == token.NOT {
					c = ast.Unparen(u.X)
				}
				call, _ = c.(*ast.CallExpr)
			}
		}
		done := false
		if call != nil {
			done = in.tryInline(pkg, file, host, s, call, decls, fileOf, edits, imports)
		}
		if !done {
			// a call of a *pure* helper nested inside the statement's expressions and
			// evaluated unconditionally can be hoisted in front of the statement
			// (evaluation order is irrelevant for a function without side effects)
			for _, e := range stmtExprs(s) {
				if done {
					break
				}
				for _, c := range unconditionalCalls(e) {
					if c == call {
						continue
					}
					obj, ok := typeutil.Callee(pkg.TypesInfo, c).(*types.Func)
					if !ok || obj.Pkg() != pkg.Types || decls[obj] == nil || !in.pureHelper(pkg, decls, obj, 0) {
						continue
					}
					if in.tryInline(pkg, file, host, s, c, decls, fileOf, edits, imports) {
						done = true
						break
					}
				}
			}
		}
		// descend into nested statement lists (a statement whose call was inlined is only
		// edited at its call expression, so its nested blocks can still be processed)
		_ = done
		in.nested(pkg, file, host, s, decls, fileOf, edits, imports)
	}
}

func (in *inliner) nested(pkg *packages.Package, file *ast.File, host *ast.FuncDecl, s ast.Stmt,
	decls map[*types.Func]*ast.FuncDecl, fileOf map[*ast.FuncDecl]*ast.File, edits *[]edit, imports map[string]string) {
	rec := func(l []ast.Stmt) { in.stmts(pkg, file, host, l, false, decls, fileOf, edits, imports) }
	switch x := s.(type) {
	case *ast.BlockStmt:
		rec(x.List)
	case *ast.IfStmt:
		rec(x.Body.List)
		switch e := x.Else.(type) {
		case *ast.BlockStmt:
			rec(e.List)
		case *ast.IfStmt:
			// else-if: its own init/cond cannot take a prelude, but its blocks can
			in.nestedElseIf(pkg, file, host, e, decls, fileOf, edits, imports)
		}
	case *ast.ForStmt:
		rec(x.Body.List)
	case *ast.RangeStmt:
		rec(x.Body.List)
	case *ast.SwitchStmt:
		for _, c := range x.Body.List {
			rec(c.(*ast.CaseClause).Body)
		}
	case *ast.TypeSwitchStmt:
		for _, c := range x.Body.List {
			rec(c.(*ast.CaseClause).Body)
		}
	case *ast.SelectStmt:
		for _, c := range x.Body.List {
			rec(c.(*ast.CommClause).Body)
		}
	case *ast.LabeledStmt:
		in.nested(pkg, file, host, x.Stmt, decls, fileOf, edits, imports)
	}
	// closures in the statement's own expressions (iterator callbacks)
	if _, isBlock := s.(*ast.BlockStmt); isBlock {
		return
	}
	ast.Inspect(s, func(n ast.Node) bool {
		switch y := n.(type) {
		case *ast.BlockStmt:
			return false // nested blocks were handled above
		case *ast.FuncLit:
			rec(y.Body.List)
			return false
		}
		return true
	})
}

func (in *inliner) nestedElseIf(pkg *packages.Package, file *ast.File, host *ast.FuncDecl, x *ast.IfStmt,
	decls map[*types.Func]*ast.FuncDecl, fileOf map[*ast.FuncDecl]*ast.File, edits *[]edit, imports map[string]string) {
	in.stmts(pkg, file, host, x.Body.List, false, decls, fileOf, edits, imports)
	switch e := x.Else.(type) {
	case *ast.BlockStmt:
		in.stmts(pkg, file, host, e.List, false, decls, fileOf, edits, imports)
	case *ast.IfStmt:
		in.nestedElseIf(pkg, file, host, e, decls, fileOf, edits, imports)
	}
}

// TypesFuncKey renders a declared function in the same form as Program.Key.
func TypesFuncKey(obj *types.Func) string {
	sig := obj.Type().(*types.Signature)
	recv := ""
	if sig.Recv() != nil {
		recv = NamedName(sig.Recv().Type()) + "."
	}
	return RelPath(obj.Pkg().Path()) + "." + recv + obj.Name()
}

// InlineOnly, when non-nil, restricts inlining to callees for which it returns true
// (the baseline-relative normal form inlines only functions that did not exist at the
// pinned commit); when nil every unexported same-package function is a candidate.
var InlineOnly func(key string) bool

// InlineClosuresIn, when non-nil, allows β-reducing calls of locally bound function literals
// inside the declared function with that key (the normal form allows it where a function
// has more literals than at the pinned commit: a closure introduced by a refactoring).
var InlineClosuresIn func(hostKey string, nLits int) bool

func eligibleCallee(fd *ast.FuncDecl, obj *types.Func, sig *types.Signature, info *types.Info) string {
	if obj != nil {
		if InlineOnly != nil {
			if !InlineOnly(TypesFuncKey(obj)) {
				return "exported"
			}
		} else if ast.IsExported(fd.Name.Name) {
			return "exported"
		}
	}
	if sig.Variadic() {
		return "variadic"
	}
	if sig.TypeParams() != nil || sig.RecvTypeParams() != nil {
		return "generic"
	}
	if fd.Name.Name == "init" || fd.Name.Name == "main" {
		return "init/main"
	}
	topDefer := map[*ast.DeferStmt]bool{}
	for _, st := range fd.Body.List {
		if d, ok := st.(*ast.DeferStmt); ok && simpleDeferredCall(d.Call) {
			topDefer[d] = true
		}
	}
	bad := ""
	n := 0
	ast.Inspect(fd.Body, func(nd ast.Node) bool {
		switch x := nd.(type) {
		case *ast.DeferStmt:
			if !topDefer[x] {
				bad = "defer"
			}
		case *ast.GoStmt:
			bad = "go"
		case *ast.BranchStmt:
			if x.Tok == token.GOTO {
				bad = "goto"
			}
		case *ast.TypeSwitchStmt:
			if _, ok := x.Assign.(*ast.AssignStmt); ok {
				bad = "type switch binding"
			}
		case *ast.CallExpr:
			if id, ok := x.Fun.(*ast.Ident); ok && id.Name == "recover" {
				bad = "recover"
			}
			if obj != nil {
				if callee, ok := typeutil.Callee(info, x).(*types.Func); ok && callee == obj {
					bad = "recursive"
				}
			}
		case ast.Stmt:
			n++
		}
		return bad == ""
	})
	if bad != "" {
		return bad
	}
	if n > 150 {
		return "too large"
	}
	return ""
}

// simpleDeferredCall: `defer x.Close()` / `defer unlock()` — no arguments, and the callee
// expression is a chain of identifiers, so evaluating it at the exits instead of at the
// defer statement gives the same call.
func simpleDeferredCall(c *ast.CallExpr) bool {
	if len(c.Args) != 0 {
		return false
	}
	var chain func(e ast.Expr) bool
	chain = func(e ast.Expr) bool {
		switch x := e.(type) {
		case *ast.Ident:
			return true
		case *ast.SelectorExpr:
			return chain(x.X)
		}
		return false
	}
	return chain(c.Fun)
}

// closureDef finds the function literal a local variable is bound to, when the variable is
// bound exactly once (declaration or definition) and never assigned or address-taken again.
func closureDef(info *types.Info, host *ast.FuncDecl, v *types.Var) *ast.FuncLit {
	var lit *ast.FuncLit
	bad := false
	isV := func(e ast.Expr) bool {
		id, ok := ast.Unparen(e).(*ast.Ident)
		if !ok {
			return false
		}
		o := info.Defs[id]
		if o == nil {
			o = info.Uses[id]
		}
		return o == types.Object(v)
	}
	ast.Inspect(host.Body, func(n ast.Node) bool {
		switch x := n.(type) {
		case *ast.AssignStmt:
			for i, l := range x.Lhs {
				if !isV(l) {
					continue
				}
				if x.Tok == token.DEFINE && len(x.Lhs) == len(x.Rhs) && lit == nil {
					if fl, ok := x.Rhs[i].(*ast.FuncLit); ok {
						lit = fl
						continue
					}
				}
				bad = true
			}
		case *ast.ValueSpec:
			for i, nm := range x.Names {
				if info.Defs[nm] == types.Object(v) {
					if i < len(x.Values) && lit == nil {
						if fl, ok := x.Values[i].(*ast.FuncLit); ok {
							lit = fl
							continue
						}
					}
					bad = true
				}
			}
		case *ast.UnaryExpr:
			if x.Op == token.AND && isV(x.X) {
				bad = true
			}
		}
		return true
	})
	if bad {
		return nil
	}
	return lit
}

func (in *inliner) text(file string, from, to token.Pos) string {
	b := in.content(file)
	return string(b[in.off(from):in.off(to)])
}

func (in *inliner) tryInline(pkg *packages.Package, file *ast.File, host *ast.FuncDecl, stmt ast.Stmt, call *ast.CallExpr,
	decls map[*types.Func]*ast.FuncDecl, fileOf map[*ast.FuncDecl]*ast.File, edits *[]edit, imports map[string]string) bool {
	info := pkg.TypesInfo
	hostFile := in.P.Fset.Position(file.Pos()).Filename
	var closureUse *edit // keeps a β-reduced closure variable "used"
	var (
		obj        *types.Func
		fd         *ast.FuncDecl
		sig        *types.Signature
		calleeFile string
		calleeName string
	)
	if o, ok := typeutil.Callee(info, call).(*types.Func); ok {
		if o.Pkg() != pkg.Types {
			return false
		}
		obj = o
		fd = decls[obj]
		if fd == nil || fd == host {
			return false
		}
		if IsGeneratedOrAux(strings.TrimPrefix(in.P.Fset.Position(fd.Pos()).Filename, in.P.Dir+"/")) {
			return false // generated getters and test helpers stay calls
		}
		sig = obj.Type().(*types.Signature)
		calleeFile = in.P.Fset.Position(fileOf[fd].Pos()).Filename
		calleeName = obj.Name()
	} else if id, ok := ast.Unparen(call.Fun).(*ast.Ident); ok && (strings.HasPrefix(id.Name, "_i") || in.closuresAllowed(pkg, host)) {
		// a function-typed parameter of a helper inlined in an earlier round, bound to a
		// function literal at the (former) call site: β-reduce
		v, ok := info.Uses[id].(*types.Var)
		if !ok || v.Pos() < host.Pos() || v.Pos() >= host.End() {
			return false
		}
		lit := closureDef(info, host, v)
		if lit == nil {
			return false
		}
		sg, ok := v.Type().Underlying().(*types.Signature)
		if !ok {
			return false
		}
		sig = sg
		fd = &ast.FuncDecl{Name: ast.NewIdent("closure"), Type: lit.Type, Body: lit.Body}
		calleeFile = hostFile
		calleeName = id.Name
		if call.Pos() >= lit.Pos() && call.Pos() < lit.End() {
			return false // a call inside the literal itself
		}
		closureUse = &edit{in.off(lit.End()), in.off(lit.End()), "; _ = " + id.Name}
	} else {
		return false
	}
	dbg := func(why string) bool {
		if os.Getenv("ELYSLINT_INLINE_DEBUG") != "" {
			fmt.Fprintf(os.Stderr, "inline: %s: %s not inlined: %s\n", in.P.Pos(call.Pos()), calleeName, why)
		}
		return false
	}
	if why := eligibleCallee(fd, obj, sig, info); why != "" {
		if why != "exported" {
			dbg(why)
		}
		return false
	}
	if call.Ellipsis.IsValid() {
		return false
	}
	if in.content(hostFile) == nil || in.content(calleeFile) == nil {
		return false
	}
	in.serial++
	pfx := fmt.Sprintf("_i%d_", in.serial)

	// ---- receiver expression
	recvExpr := ""
	if sig.Recv() != nil {
		se, ok := ast.Unparen(call.Fun).(*ast.SelectorExpr)
		if !ok {
			return false
		}
		sel := info.Selections[se]
		if sel == nil || sel.Kind() != types.MethodVal {
			return false
		}
		recvExpr = in.text(hostFile, se.X.Pos(), se.X.End())
		t := sel.Recv()
		idx := sel.Index()
		for _, i := range idx[:len(idx)-1] {
			if p, ok := t.Underlying().(*types.Pointer); ok {
				t = p.Elem()
			}
			st, ok := t.Underlying().(*types.Struct)
			if !ok || i >= st.NumFields() {
				return false
			}
			recvExpr += "." + st.Field(i).Name()
			t = st.Field(i).Type()
		}
		_, wantPtr := sig.Recv().Type().(*types.Pointer)
		_, havePtr := t.Underlying().(*types.Pointer)
		if _, isNamedPtr := t.(*types.Pointer); isNamedPtr {
			havePtr = true
		}
		switch {
		case wantPtr && !havePtr:
			recvExpr = "(&" + recvExpr + ")"
		case !wantPtr && havePtr:
			recvExpr = "(*" + recvExpr + ")"
		}
	} else {
		if _, ok := ast.Unparen(call.Fun).(*ast.Ident); !ok {
			return false
		}
	}

	// ---- capture check for the callee's free lexical identifiers
	callScope := pkg.Types.Scope().Innermost(call.Pos())
	if callScope == nil {
		return dbg("no scope")
	}
	hostFileScope := info.Scopes[file]
	okCapture := true
	local := func(o types.Object) bool {
		return o != nil && o.Pos() >= fd.Pos() && o.Pos() < fd.End()
	}
	var visit func(n ast.Node) bool
	checkIdent := func(id *ast.Ident) {
		o := info.Uses[id]
		if o == nil || local(o) || o.Parent() == nil {
			return
		}
		switch po := o.(type) {
		case *types.PkgName:
			_, found := callScope.LookupParent(id.Name, call.Pos())
			if found == nil {
				// not imported in the host file: add the import if the name is free there
				if hostFileScope != nil && hostFileScope.Lookup(id.Name) == nil && pkg.Types.Scope().Lookup(id.Name) == nil {
					if old, dup := imports[id.Name]; dup && old != po.Imported().Path() {
						okCapture = false
					}
					imports[id.Name] = po.Imported().Path()
					return
				}
				okCapture = false
				return
			}
			fp, isPkg := found.(*types.PkgName)
			if !isPkg || fp.Imported().Path() != po.Imported().Path() {
				okCapture = false
			}
		default:
			_, found := callScope.LookupParent(id.Name, call.Pos())
			if found != o {
				okCapture = false
			}
		}
	}
	visit = func(n ast.Node) bool {
		if !okCapture {
			return false
		}
		switch x := n.(type) {
		case *ast.SelectorExpr:
			ast.Inspect(x.X, visit) // the selected name is not a lexical lookup
			return false
		case *ast.KeyValueExpr:
			// struct literal keys are field names; map keys are expressions
			if id, ok := x.Key.(*ast.Ident); ok {
				if v, isVar := info.Uses[id].(*types.Var); isVar && v.IsField() {
					ast.Inspect(x.Value, visit)
					return false
				}
			}
		case *ast.Ident:
			checkIdent(x)
		}
		return true
	}
	ast.Inspect(fd, visit)
	if !okCapture {
		return dbg("identifier capture")
	}

	// ---- where the prelude goes: the statement must be able to take statements before it
	if ifs, ok := stmt.(*ast.IfStmt); ok {
		_ = ifs
	}

	// ---- rename the callee's local objects and rewrite its returns
	var cedits []edit
	cbase := in.off(fd.Body.Lbrace) + 1
	cend := in.off(fd.Body.Rbrace)
	rename := func(id *ast.Ident) {
		if id.Name == "_" {
			return
		}
		o := info.Defs[id]
		if o == nil {
			o = info.Uses[id]
		}
		if o == nil || !local(o) {
			return
		}
		if _, isField := o.(*types.Var); isField && o.(*types.Var).IsField() {
			return
		}
		s := in.off(id.Pos())
		if s < cbase || s >= cend {
			return // signature identifiers are declared by the prelude
		}
		cedits = append(cedits, edit{s - cbase, s - cbase + len(id.Name), pfx + id.Name})
	}
	// labels are objects too (Defs for the label, Uses in branch statements)
	ast.Inspect(fd.Body, func(n ast.Node) bool {
		if id, ok := n.(*ast.Ident); ok {
			rename(id)
		}
		return true
	})
	// result temporaries
	type res struct{ name, typ string }
	var results []res
	if fd.Type.Results != nil {
		k := 0
		for _, f := range fd.Type.Results.List {
			typ := in.text(calleeFile, f.Type.Pos(), f.Type.End())
			if len(f.Names) == 0 {
				results = append(results, res{fmt.Sprintf("%sr%d", pfx, k), typ})
				k++
				continue
			}
			for _, nm := range f.Names {
				name := pfx + nm.Name
				if nm.Name == "_" {
					name = fmt.Sprintf("%sr%d", pfx, k)
				}
				results = append(results, res{name, typ})
				k++
			}
		}
	}
	label := pfx + "L"
	var rnames []string
	for _, r := range results {
		rnames = append(rnames, r.name)
	}
	// ---- specialise on constant boolean arguments: `f(x, true)` with `if flag { … }` in f
	// keeps only the branch that runs (the flag parameter must never be assigned in f)
	constBool := map[types.Object]bool{}
	{
		ai := 0
		for _, f := range fd.Type.Params.List {
			names := f.Names
			if len(names) == 0 {
				names = []*ast.Ident{nil}
			}
			for _, nm := range names {
				if ai < len(call.Args) && nm != nil {
					if id, ok := ast.Unparen(call.Args[ai]).(*ast.Ident); ok && (id.Name == "true" || id.Name == "false") {
						if _, isConst := info.Uses[id].(*types.Const); isConst {
							if o := info.Defs[nm]; o != nil {
								constBool[o] = id.Name == "true"
							}
						}
					}
				}
				ai++
			}
		}
		if len(constBool) > 0 {
			ast.Inspect(fd.Body, func(n ast.Node) bool {
				switch x := n.(type) {
				case *ast.AssignStmt:
					for _, l := range x.Lhs {
						if id, ok := ast.Unparen(l).(*ast.Ident); ok {
							delete(constBool, info.Uses[id])
						}
					}
				case *ast.UnaryExpr:
					if x.Op == token.AND {
						if id, ok := ast.Unparen(x.X).(*ast.Ident); ok {
							delete(constBool, info.Uses[id])
						}
					}
				}
				return true
			})
		}
		if len(constBool) > 0 {
			ast.Inspect(fd.Body, func(n ast.Node) bool {
				if _, isLit := n.(*ast.FuncLit); isLit {
					return false
				}
				ifs, ok := n.(*ast.IfStmt)
				if !ok || ifs.Init != nil {
					return true
				}
				c := ast.Unparen(ifs.Cond)
				neg := false
				if u, ok := c.(*ast.UnaryExpr); ok && u.Op == token.NOT {
					c, neg = ast.Unparen(u.X), true
				}
				id, ok := c.(*ast.Ident)
				if !ok {
					return true
				}
				val, known := constBool[info.Uses[id]]
				if !known {
					return true
				}
				taken := val != neg
				is, ie := in.off(ifs.Pos())-cbase, in.off(ifs.End())-cbase
				bl, br := in.off(ifs.Body.Lbrace)-cbase, in.off(ifs.Body.Rbrace)-cbase
				switch {
				case taken:
					// keep the then-block as a plain block, drop `if cond` and any else
					cedits = append(cedits, edit{is, bl, ""})
					if ifs.Else != nil {
						cedits = append(cedits, edit{br + 1, ie, ""})
					}
				case ifs.Else != nil:
					cedits = append(cedits, edit{is, in.off(ifs.Else.Pos()) - cbase, ""})
				default:
					cedits = append(cedits, edit{is, ie, "_ = 0"})
				}
				return true
			})
		}
	}
	okReturns := true
	// simple top-level defers: their calls run at every exit that lies after the statement
	type dcall struct {
		end  int // offset (relative to cbase) where the defer statement ends
		text string
	}
	var defers []dcall
	renamedText := func(from, to token.Pos) string {
		a, b := in.off(from)-cbase, in.off(to)-cbase
		var sub []edit
		for _, e := range cedits {
			if e.start >= a && e.end <= b {
				sub = append(sub, edit{e.start - a, e.end - a, e.text})
			}
		}
		return string(applyEdits([]byte(in.text(calleeFile, from, to)), sub))
	}
	for _, st := range fd.Body.List {
		if d, ok := st.(*ast.DeferStmt); ok {
			defers = append(defers, dcall{in.off(d.End()) - cbase, renamedText(d.Call.Pos(), d.Call.End())})
			ds := in.off(d.Pos()) - cbase
			cedits = append(cedits, edit{ds, ds + len("defer"), "_ = 0 //"})
		}
	}
	deferredAt := func(off int) string {
		var sb strings.Builder
		for i := len(defers) - 1; i >= 0; i-- {
			if defers[i].end <= off {
				sb.WriteString(defers[i].text + "; ")
			}
		}
		return sb.String()
	}
	var walkRet func(n ast.Node) bool
	walkRet = func(n ast.Node) bool {
		switch x := n.(type) {
		case *ast.FuncLit:
			return false
		case *ast.ReturnStmt:
			s := in.off(x.Pos()) - cbase
			if len(x.Results) == 0 {
				cedits = append(cedits, edit{s, s + len("return"), deferredAt(s) + "break " + label})
			} else {
				if len(results) == 0 {
					okReturns = false
					return false
				}
				cedits = append(cedits, edit{s, s + len("return"), strings.Join(rnames, ", ") + " ="})
				e := in.off(x.End()) - cbase
				cedits = append(cedits, edit{e, e, "; " + deferredAt(s) + "break " + label})
			}
		}
		return true
	}
	ast.Inspect(fd.Body, walkRet)
	if !okReturns {
		return false
	}
	tailDefers := deferredAt(cend - cbase)
	body := string(applyEdits([]byte(in.text(calleeFile, fd.Body.Lbrace+1, fd.Body.Rbrace)), cedits))

	// ---- prelude
	var sb strings.Builder
	declare := func(name, typ, val string) {
		if name == "" || name == "_" {
			fmt.Fprintf(&sb, "var _ %s = %s; ", typ, val)
			return
		}
		fmt.Fprintf(&sb, "var %s %s = %s; _ = %s; ", name, typ, val, name)
	}
	if sig.Recv() != nil {
		rf := fd.Recv.List[0]
		typ := in.text(calleeFile, rf.Type.Pos(), rf.Type.End())
		name := ""
		if len(rf.Names) == 1 {
			name = rf.Names[0].Name
		}
		if name != "" && name != "_" {
			name = pfx + name
		}
		declare(name, typ, recvExpr)
	}
	ai := 0
	for _, f := range fd.Type.Params.List {
		typ := in.text(calleeFile, f.Type.Pos(), f.Type.End())
		names := f.Names
		if len(names) == 0 {
			names = []*ast.Ident{nil}
		}
		for _, nm := range names {
			if ai >= len(call.Args) {
				return false // f(g()) multi-value spread
			}
			a := call.Args[ai]
			ai++
			name := ""
			if nm != nil && nm.Name != "_" {
				name = pfx + nm.Name
			}
			declare(name, typ, in.text(hostFile, a.Pos(), a.End()))
		}
	}
	if ai != len(call.Args) {
		return false
	}
	for _, r := range results {
		fmt.Fprintf(&sb, "var %s %s; _ = %s; ", r.name, r.typ, r.name)
	}
	fmt.Fprintf(&sb, "\n%s: for {\n%s\n%sbreak %s }\n", label, body, tailDefers, label)

	// ---- splice
	stmtStart := in.off(stmt.Pos())
	switch x := stmt.(type) {
	case *ast.ExprStmt:
		*edits = append(*edits, edit{stmtStart, in.off(x.End()), sb.String()})
	default:
		if len(results) == 0 {
			return false
		}
		*edits = append(*edits, edit{stmtStart, stmtStart, sb.String()})
		*edits = append(*edits, edit{in.off(call.Pos()), in.off(call.End()), strings.Join(rnames, ", ")})
	}
	if closureUse != nil {
		*edits = append(*edits, *closureUse)
	}
	in.n++
	if len(in.Log) < 400 {
		in.Log = append(in.Log, fmt.Sprintf("%s: %s inlined into %s", in.P.Pos(call.Pos()), calleeName, host.Name.Name))
	}
	return true
}

// InlinedNormalForm loads the tree, inlines private helpers to a fixpoint (at most
// maxRounds rounds) and returns the last program that type-checked together with the
// number of calls inlined.  base is an optional overlay the normal form is built on.
func InlinedNormalForm(dir string, base map[string][]byte, P0 *Program, maxRounds int) (*Program, int, []string, error) {
	P := P0
	var err error
	if P == nil {
		P, err = Load(dir, base)
		if err != nil {
			return nil, 0, nil, err
		}
	}
	ov := base
	total := 0
	var log []string
	for r := 1; r <= maxRounds; r++ {
		nov, n, l := P.InlineRound(ov, r)
		if n == 0 {
			break
		}
		P2, err := Load(dir, nov)
		if err != nil {
			log = append(log, fmt.Sprintf("round %d discarded: %v", r, err))
			break
		}
		P, ov = P2, nov
		total += n
		if d := os.Getenv("ELYSLINT_NF_DUMP"); d != "" {
			for f, b := range nov {
				if base == nil || string(base[f]) != string(b) {
					_ = os.WriteFile(d+"/"+strings.ReplaceAll(strings.TrimPrefix(f, dir+"/"), "/", "__"), b, 0o644)
				}
			}
		}
		log = append(log, l...)
	}
	return P, total, log, nil
}

// DeclaredFuncKeys lists every declared (named) function of the loaded packages.
func (P *Program) DeclaredFuncKeys() []string {
	set := map[string]bool{}
	for _, pkg := range P.Pkgs {
		if pkg.TypesInfo == nil {
			continue
		}
		for _, f := range pkg.Syntax {
			if IsGeneratedOrAux(strings.TrimPrefix(P.Fset.Position(f.Pos()).Filename, P.Dir+"/")) {
				continue
			}
			for _, d := range f.Decls {
				if fd, ok := d.(*ast.FuncDecl); ok {
					if obj, ok := pkg.TypesInfo.Defs[fd.Name].(*types.Func); ok {
						set[TypesFuncKey(obj)] = true
					}
				}
			}
		}
	}
	return SortedKeys(set)
}

// PruneUncalled drops from the function list the declared functions selected by cand that
// no call-graph edge reaches any more (helpers whose every call was inlined): dead code
// cannot violate anything, and who-may-call rules must not see the left-over body.
func (P *Program) PruneUncalled(cand func(key string) bool) int {
	g := P.CG()
	var keep []*ssa.Function
	dead := map[*ssa.Function]bool{}
	for _, fn := range P.Funcs {
		top := fn
		for top.Parent() != nil {
			top = top.Parent()
		}
		k := P.Key(top)
		if cand(k) && len(g.In[top]) == 0 && !IsGeneratedOrAux(P.File(top.Pos())) {
			dead[fn] = true
			continue
		}
		keep = append(keep, fn)
	}
	if len(dead) == 0 {
		return 0
	}
	P.Funcs = keep
	for fn := range dead {
		for _, e := range g.Out[fn] {
			in := g.In[e.Callee][:0:0]
			for _, x := range g.In[e.Callee] {
				if !dead[x.Caller] {
					in = append(in, x)
				}
			}
			g.In[e.Callee] = in
		}
		delete(g.Out, fn)
	}
	for k, fn := range P.ByKey {
		if dead[fn] {
			delete(P.ByKey, k)
		}
	}
	return len(dead)
}

// stmtExprs lists the expressions a statement evaluates exactly once before any of its
// nested blocks run.
func stmtExprs(s ast.Stmt) []ast.Expr {
	switch x := s.(type) {
	case *ast.ExprStmt:
		return []ast.Expr{x.X}
	case *ast.AssignStmt:
		return x.Rhs
	case *ast.ReturnStmt:
		return x.Results
	case *ast.IfStmt:
		var out []ast.Expr
		if as, ok := x.Init.(*ast.AssignStmt); ok {
			out = append(out, as.Rhs...)
		} else if x.Init != nil {
			return nil
		}
		return append(out, x.Cond)
	case *ast.RangeStmt:
		return []ast.Expr{x.X}
	case *ast.SwitchStmt:
		if x.Init == nil && x.Tag != nil {
			return []ast.Expr{x.Tag}
		}
	case *ast.DeclStmt:
		if gd, ok := x.Decl.(*ast.GenDecl); ok && gd.Tok == token.VAR && len(gd.Specs) == 1 {
			if vs, ok := gd.Specs[0].(*ast.ValueSpec); ok {
				return vs.Values
			}
		}
	}
	return nil
}

// unconditionalCalls returns the call expressions inside e that are evaluated whenever e
// is (not under the right operand of && / ||, not inside a function literal), innermost
// arguments first.
func unconditionalCalls(e ast.Expr) []*ast.CallExpr {
	var out []*ast.CallExpr
	var walk func(n ast.Node)
	walk = func(n ast.Node) {
		switch x := n.(type) {
		case nil:
			return
		case *ast.FuncLit:
			return
		case *ast.BinaryExpr:
			walk(x.X)
			if x.Op != token.LAND && x.Op != token.LOR {
				walk(x.Y)
			}
			return
		case *ast.CallExpr:
			walk(x.Fun)
			for _, a := range x.Args {
				walk(a)
			}
			out = append(out, x)
			return
		}
		ast.Inspect(n, func(c ast.Node) bool {
			if c == n || c == nil {
				return true
			}
			walk(c)
			return false
		})
	}
	walk(e)
	return out
}

// pureHelper: the function only computes — it assigns only its own locals, and calls only
// value-semantics arithmetic (cosmossdk.io/math, sdk coin types), builtins without effects,
// conversions and other pure helpers of the package.
func (in *inliner) pureHelper(pkg *packages.Package, decls map[*types.Func]*ast.FuncDecl, obj *types.Func, depth int) bool {
	if in.pure == nil {
		in.pure = map[*types.Func]bool{}
	}
	if v, ok := in.pure[obj]; ok {
		return v
	}
	in.pure[obj] = false // recursion guard
	fd := decls[obj]
	if fd == nil || fd.Body == nil || depth > 2 {
		return false
	}
	info := pkg.TypesInfo
	local := func(o types.Object) bool { return o != nil && o.Pos() >= fd.Pos() && o.Pos() < fd.End() }
	ok := true
	lhsOK := func(e ast.Expr) bool {
		id, isID := ast.Unparen(e).(*ast.Ident)
		if !isID {
			return false
		}
		if id.Name == "_" {
			return true
		}
		o := info.Defs[id]
		if o == nil {
			o = info.Uses[id]
		}
		v, isVar := o.(*types.Var)
		if !isVar || !local(o) {
			return false
		}
		// assigning a pointer / slice / map parameter's target would be an effect; assigning
		// the local variable itself is not
		_ = v
		return true
	}
	ast.Inspect(fd.Body, func(n ast.Node) bool {
		if !ok {
			return false
		}
		switch x := n.(type) {
		case *ast.AssignStmt:
			for _, l := range x.Lhs {
				if !lhsOK(l) {
					ok = false
				}
			}
		case *ast.IncDecStmt:
			if !lhsOK(x.X) {
				ok = false
			}
		case *ast.SendStmt, *ast.GoStmt, *ast.DeferStmt:
			ok = false
		case *ast.UnaryExpr:
			if x.Op == token.ARROW {
				ok = false
			}
		case *ast.CallExpr:
			if tv, isConv := info.Types[x.Fun]; isConv && tv.IsType() {
				return true
			}
			switch c := typeutil.Callee(info, x).(type) {
			case *types.Builtin:
				switch c.Name() {
				case "len", "cap", "min", "max", "make", "new", "append":
				default:
					ok = false
				}
			case *types.Func:
				p := c.Pkg()
				switch {
				case p == nil:
					ok = false
				case p.Path() == "cosmossdk.io/math":
				case strings.HasSuffix(p.Path(), "cosmos-sdk/types"):
					sig := c.Type().(*types.Signature)
					if sig.Recv() != nil && !IsMathType(sig.Recv().Type()) {
						ok = false
					}
					if sig.Recv() == nil && !strings.HasPrefix(c.Name(), "New") {
						ok = false
					}
				case p == pkg.Types && decls[c] != nil:
					if !in.pureHelper(pkg, decls, c, depth+1) {
						ok = false
					}
				default:
					ok = false
				}
			default:
				ok = false // dynamic call
			}
		}
		return ok
	})
	in.pure[obj] = ok
	return ok
}

func (in *inliner) closuresAllowed(pkg *packages.Package, host *ast.FuncDecl) bool {
	if InlineClosuresIn == nil {
		return false
	}
	obj, ok := pkg.TypesInfo.Defs[host.Name].(*types.Func)
	if !ok {
		return false
	}
	n := 0
	ast.Inspect(host.Body, func(nd ast.Node) bool {
		if _, isLit := nd.(*ast.FuncLit); isLit {
			n++
		}
		return true
	})
	return InlineClosuresIn(TypesFuncKey(obj), n)
}

// DeclaredClosureCounts: number of function literals per declared function.
func (P *Program) DeclaredClosureCounts() map[string]int {
	out := map[string]int{}
	for _, pkg := range P.Pkgs {
		if pkg.TypesInfo == nil {
			continue
		}
		for _, f := range pkg.Syntax {
			if IsGeneratedOrAux(strings.TrimPrefix(P.Fset.Position(f.Pos()).Filename, P.Dir+"/")) {
				continue
			}
			for _, d := range f.Decls {
				fd, ok := d.(*ast.FuncDecl)
				if !ok || fd.Body == nil {
					continue
				}
				obj, ok := pkg.TypesInfo.Defs[fd.Name].(*types.Func)
				if !ok {
					continue
				}
				n := 0
				ast.Inspect(fd.Body, func(nd ast.Node) bool {
					if _, isLit := nd.(*ast.FuncLit); isLit {
						n++
					}
					return true
				})
				if n > 0 {
					out[TypesFuncKey(obj)] = n
				}
			}
		}
	}
	return out
}
