// Package core loads /repo's current working tree into type-checked SSA form and
// offers the shared analyses (call graph, store forwarding, must-hold facts,
// exit classification) that the rule packages build on.
package core

import (
	"fmt"
	"go/ast"
	"go/token"
	"go/types"
	"os"
	"sort"
	"strings"
	"time"

	"golang.org/x/tools/go/packages"
	"golang.org/x/tools/go/ssa"
	"golang.org/x/tools/go/ssa/ssautil"
)

const Module = "github.com/elys-network/elys"

// Program is the resolved form of the repository.
type Program struct {
	Dir      string
	Fset     *token.FileSet
	Pkgs     []*packages.Package // root (syntax-loaded) packages of the Elys module
	PkgByRel map[string]*packages.Package
	SSA      *ssa.Program
	Funcs    []*ssa.Function // every function with a body that belongs to the Elys module
	ByKey    map[string]*ssa.Function
	keyOf    map[*ssa.Function]string
	LoadSecs float64
	Overlay  map[string][]byte // the overlay the program was loaded with (nil = the tree as written)

	cg      *CallGraph
	wiring  map[wireKey][]types.Type
	fnFacts map[*ssa.Function]*FuncFacts
	named   []*types.Named // named types declared in Elys packages
	summ    map[string]map[*ssa.Function]bool
}

// RepoDir returns the directory analysed (env ELYS_REPO overrides /repo; used only by
// the machinery's own self tests, never by registered commands).
func RepoDir() string {
	if d := os.Getenv("ELYS_REPO"); d != "" {
		return d
	}
	return "/repo"
}

// Load type-checks ./x/... ./app/... ./cmd/... of the repository and builds SSA for them.
// overlay maps absolute file names to replacement contents (sensitivity witnesses).
func Load(dir string, overlay map[string][]byte) (*Program, error) {
	t0 := time.Now()
	os.Unsetenv("GOWORK")
	env := append(os.Environ(), "GOFLAGS=-mod=mod", "GOPROXY=off", "GOSUMDB=off", "GOTOOLCHAIN=local", "GOWORK=off")
	cfg := &packages.Config{
		Mode:    packages.LoadSyntax,
		Dir:     dir,
		Env:     env,
		Tests:   false,
		Overlay: overlay,
	}
	pkgs, err := packages.Load(cfg, "./x/...", "./app/...", "./cmd/...")
	if err != nil {
		return nil, fmt.Errorf("packages.Load: %w", err)
	}
	if len(pkgs) == 0 {
		return nil, fmt.Errorf("no packages loaded from %s", dir)
	}
	var errs []string
	for _, p := range pkgs {
		for _, e := range p.Errors {
			errs = append(errs, e.Error())
		}
	}
	if len(errs) > 0 {
		if len(errs) > 10 {
			errs = errs[:10]
		}
		return nil, fmt.Errorf("type-check/load errors: %s", strings.Join(errs, "; "))
	}
	sort.Slice(pkgs, func(i, j int) bool { return pkgs[i].PkgPath < pkgs[j].PkgPath })
	prog, _ := ssautil.Packages(pkgs, ssa.InstantiateGenerics)
	prog.Build()

	P := &Program{Dir: dir, Fset: pkgs[0].Fset, Pkgs: pkgs, SSA: prog, Overlay: overlay,
		PkgByRel: map[string]*packages.Package{}, ByKey: map[string]*ssa.Function{},
		keyOf: map[*ssa.Function]string{}, fnFacts: map[*ssa.Function]*FuncFacts{},
		summ: map[string]map[*ssa.Function]bool{}}
	for _, p := range pkgs {
		P.PkgByRel[RelPath(p.PkgPath)] = p
		sc := p.Types.Scope()
		for _, n := range sc.Names() {
			if tn, ok := sc.Lookup(n).(*types.TypeName); ok && !tn.IsAlias() {
				if nt, ok := tn.Type().(*types.Named); ok {
					f := P.File(tn.Pos())
					if strings.Contains(f, "/mocks/") || strings.HasPrefix(f, "testutil/") || strings.Contains(f, "/testutil/") || strings.Contains(f, "/simulation/") {
						continue // test doubles never run on the consensus path
					}
					P.named = append(P.named, nt)
				}
			}
		}
	}
	all := ssautil.AllFunctions(prog)
	for fn := range all {
		if fn.Blocks == nil {
			continue
		}
		if !InModule(fn) {
			continue
		}
		if fn.Synthetic != "" && (strings.Contains(fn.Synthetic, "wrapper") || strings.Contains(fn.Synthetic, "thunk")) {
			continue // promoted-method / bound-method wrappers are not source functions
		}
		P.Funcs = append(P.Funcs, fn)
	}
	for _, fn := range P.Funcs {
		k := funcKey(fn)
		P.keyOf[fn] = k
		if old, ok := P.ByKey[k]; ok && old != fn {
			// wrappers / duplicates: keep the non-synthetic one
			if old.Synthetic == "" {
				continue
			}
		}
		P.ByKey[k] = fn
	}
	sort.Slice(P.Funcs, func(i, j int) bool { return P.keyOf[P.Funcs[i]] < P.keyOf[P.Funcs[j]] })
	P.LoadSecs = time.Since(t0).Seconds()
	return P, nil
}

// Rel strips the module prefix from a package path.
func RelPath(pkgPath string) string {
	if pkgPath == Module {
		return "."
	}
	return strings.TrimPrefix(pkgPath, Module+"/")
}

func fnPkg(fn *ssa.Function) *types.Package {
	for f := fn; f != nil; f = f.Parent() {
		if f.Pkg != nil {
			return f.Pkg.Pkg
		}
		if o := f.Object(); o != nil && o.Pkg() != nil {
			return o.Pkg()
		}
		if f.Origin() != nil && f.Origin() != f {
			if p := fnPkg(f.Origin()); p != nil {
				return p
			}
		}
	}
	return nil
}

// InModule reports whether fn is declared in the Elys module.
func InModule(fn *ssa.Function) bool {
	p := fnPkg(fn)
	return p != nil && (p.Path() == Module || strings.HasPrefix(p.Path(), Module+"/"))
}

// PkgRel returns the module-relative package path of fn ("x/amm/keeper").
func PkgRel(fn *ssa.Function) string {
	p := fnPkg(fn)
	if p == nil {
		return ""
	}
	return RelPath(p.Path())
}

func funcKey(fn *ssa.Function) string {
	if fn.Parent() != nil {
		// anonymous function: parent key + suffix after the parent's name
		pk := funcKey(fn.Parent())
		name := fn.Name()
		pn := fn.Parent().Name()
		suffix := strings.TrimPrefix(name, pn)
		return pk + suffix
	}
	pkg := PkgRel(fn)
	recv := ""
	if fn.Signature != nil && fn.Signature.Recv() != nil {
		recv = NamedName(fn.Signature.Recv().Type()) + "."
	}
	name := fn.Name()
	if fn.Synthetic != "" && strings.Contains(fn.Synthetic, "wrapper") {
		name += "#" + strings.Fields(fn.Synthetic)[0]
	}
	return pkg + "." + recv + name
}

// Key returns the stable identity of a function: "x/amm/keeper.Keeper.SetPool".
func (P *Program) Key(fn *ssa.Function) string {
	if k, ok := P.keyOf[fn]; ok {
		return k
	}
	return funcKey(fn)
}

// Fn resolves a key; nil if the function does not exist (callers treat that as an
// unresolved anchor, which fails the check).
func (P *Program) Fn(key string) *ssa.Function { return P.ByKey[key] }

// NamedName returns the bare name of the named type behind t (pointers stripped).
func NamedName(t types.Type) string {
	if n := AsNamed(t); n != nil {
		return n.Obj().Name()
	}
	return ""
}

// AsNamed strips pointers and aliases and returns the named type, or nil.
func AsNamed(t types.Type) *types.Named {
	for {
		t = types.Unalias(t)
		switch x := t.(type) {
		case *types.Pointer:
			t = x.Elem()
			continue
		case *types.Named:
			return x
		}
		return nil
	}
}

// IsNamed reports whether t (pointers stripped) is the named type pkgSuffix.name where
// pkgSuffix is matched against the end of the package path.
func IsNamed(t types.Type, pkgSuffix, name string) bool {
	n := AsNamed(t)
	if n == nil || n.Obj().Name() != name {
		return false
	}
	if n.Obj().Pkg() == nil {
		return pkgSuffix == ""
	}
	return strings.HasSuffix(n.Obj().Pkg().Path(), pkgSuffix)
}

// TypePkgRel returns the module-relative package path of a named type ("" when foreign).
func TypePkgRel(t types.Type) string {
	n := AsNamed(t)
	if n == nil || n.Obj().Pkg() == nil {
		return ""
	}
	p := n.Obj().Pkg().Path()
	if p == Module || strings.HasPrefix(p, Module+"/") {
		return RelPath(p)
	}
	return ""
}

// Pos renders a position relative to the repository root.
func (P *Program) Pos(pos token.Pos) string {
	if !pos.IsValid() {
		return "?"
	}
	p := P.Fset.Position(pos)
	f := strings.TrimPrefix(p.Filename, P.Dir+"/")
	return fmt.Sprintf("%s:%d", f, p.Line)
}

// File returns the repository-relative file of a position.
func (P *Program) File(pos token.Pos) string {
	if !pos.IsValid() {
		return ""
	}
	p := P.Fset.Position(pos)
	return strings.TrimPrefix(p.Filename, P.Dir+"/")
}

// InstrPos gives the best position for an instruction (falls back to operands / block).
func (P *Program) InstrPos(in ssa.Instruction) token.Pos {
	if in.Pos().IsValid() {
		return in.Pos()
	}
	if c, ok := in.(ssa.CallInstruction); ok {
		if c.Common().Pos().IsValid() {
			return c.Common().Pos()
		}
	}
	var rands []*ssa.Value
	for _, r := range in.Operands(rands) {
		if *r != nil && (*r).Pos().IsValid() {
			return (*r).Pos()
		}
	}
	if in.Parent() != nil {
		return in.Parent().Pos()
	}
	return token.NoPos
}

// SyntaxFile finds the *ast.File containing pos among root packages.
func (P *Program) SyntaxFile(pos token.Pos) *ast.File {
	for _, p := range P.Pkgs {
		for _, f := range p.Syntax {
			if f.Pos() <= pos && pos <= f.End() {
				return f
			}
		}
	}
	return nil
}

// IsGeneratedOrAux reports files that are never rule subjects on their own.
func IsGeneratedOrAux(file string) bool {
	return strings.HasSuffix(file, ".pb.go") || strings.HasSuffix(file, ".pb.gw.go") ||
		strings.Contains(file, "/client/cli/") || strings.Contains(file, "/simulation/") ||
		strings.Contains(file, "/testutil/") || strings.HasPrefix(file, "testutil/") ||
		strings.Contains(file, "/mocks/") || strings.HasSuffix(file, "_test.go")
}
