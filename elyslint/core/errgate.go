package core

import (
	"go/token"
	"sort"
	"strconv"
	"strings"

	"golang.org/x/tools/go/ssa"
)

// Error gating (DESIGN §10.11).
//
// A call that applies one half of a paired update reports failure through its trailing error
// result: when that error is non-nil the half was NOT applied.  The pairing argument of the
// ledger rules ("both halves lie on the same success paths") is only valid if the paths on
// which the error is non-nil do not go on to apply the partner, or to report success after a
// partner was already applied.  ErrNonNilReaches explores exactly those paths: it walks the
// CFG forward from the call, prunes every edge on which the must-hold facts say the error
// value (or a φ that carries it along the path walked) is nil, and reports the first
// instruction matching `target`, or the first exit that can return success.
//
// The walk is path-sensitive in the set of values known to equal the error (state = block ×
// alias set), so `err = f(); if c { err = g() }; if err != nil` is not mistaken for a test of
// f's error on the path through g.

// ErrValueOf returns the SSA value carrying the trailing error result of call c, or nil when
// the callee has none; discarded is true when the result is never read.
func ErrValueOf(c ssa.CallInstruction) (e ssa.Value, discarded bool) {
	sig := c.Common().Signature()
	ei := ErrResultIndex(sig)
	if ei < 0 {
		return nil, false
	}
	v, ok := c.(ssa.Value)
	if !ok {
		return nil, true // go/defer statement: result dropped
	}
	if sig.Results().Len() == 1 {
		refs := v.Referrers()
		return v, refs == nil || len(*refs) == 0
	}
	if refs := v.Referrers(); refs != nil {
		for _, r := range *refs {
			if ex, ok := r.(*ssa.Extract); ok && ex.Index == ei {
				rr := ex.Referrers()
				return ex, rr == nil || len(*rr) == 0
			}
		}
	}
	return nil, true
}

type ErrReach struct {
	Instr ssa.Instruction // the target or exit reached with the error possibly non-nil
	Exit  bool            // Instr is a function exit that can report success
}

// ErrNonNilReaches: see the file comment.  wantExit asks for success exits as well as targets.
func (ff *FuncFacts) ErrNonNilReaches(call ssa.CallInstruction, e ssa.Value, target func(ssa.Instruction) bool, wantExit bool) *ErrReach {
	fn := ff.Fn
	ei := ErrResultIndex(fn.Signature)
	type state struct {
		b     *ssa.BasicBlock
		i     int
		alias map[ssa.Value]bool
	}
	aliasKey := func(m map[ssa.Value]bool) string {
		var ids []int
		for v := range m {
			ids = append(ids, ff.id(v))
		}
		sort.Ints(ids)
		var sb strings.Builder
		for _, x := range ids {
			sb.WriteString(strconv.Itoa(x))
			sb.WriteByte(',')
		}
		return sb.String()
	}
	seen := map[string]bool{}
	start := state{call.Block(), idx(call) + 1, map[ssa.Value]bool{}}
	if e != nil {
		start.alias[e] = true
		if fe := ff.Fwd(e); fe != nil {
			start.alias[fe] = true
		}
	}
	q := []state{start}
	isAlias := func(al map[ssa.Value]bool, v ssa.Value) bool {
		if v == nil {
			return false
		}
		if al[v] || al[ff.Fwd(v)] {
			return true
		}
		// wrap helpers keep the nil-ness of their error operand
		if c, ok := ff.Fwd(v).(*ssa.Call); ok {
			switch calleeName(c.Common()) {
			case "Wrap", "Wrapf", "Errorf", "WithType":
				for _, a := range c.Common().Args {
					if isErrorType(a.Type()) && (al[a] || al[ff.Fwd(a)]) {
						return true
					}
				}
			}
		}
		return false
	}
	steps := 0
	for len(q) > 0 {
		st := q[0]
		q = q[1:]
		steps++
		if steps > 20000 {
			return &ErrReach{Instr: call}
		}
		stopped := false
		for i := st.i; i < len(st.b.Instrs); i++ {
			in := st.b.Instrs[i]
			if in == ssa.Instruction(call) {
				stopped = true // next loop iteration: a new call, a new error value
				break
			}
			if target != nil && target(in) {
				return &ErrReach{Instr: in}
			}
			switch x := in.(type) {
			case *ssa.Store:
				// the error spilled into a local (named result / closure variable): loads forwarded
				// to this store are aliases already through Fwd
				_ = x
			case *ssa.Return:
				if !wantExit {
					stopped = true
					break
				}
				if ei < 0 {
					return &ErrReach{Instr: in, Exit: true}
				}
				if st.b == fn.Recover {
					stopped = true
					break
				}
				r := x.Results[ei]
				if isAlias(st.alias, r) || ff.ErrExit[x] {
					stopped = true
					break
				}
				switch ff.classifyErr(r, st.b, map[ssa.Value]bool{}) {
				case ExitError:
					stopped = true
				default:
					return &ErrReach{Instr: in, Exit: true}
				}
			case *ssa.Panic:
				stopped = true
			}
			if stopped {
				break
			}
		}
		if stopped {
			continue
		}
		for _, s := range st.b.Succs {
			// prune: on this edge an alias of the error is known to be nil
			pruned := false
			for _, a := range ff.edgeFacts(st.b, s, 0) {
				if a.Rel == EQ && a.B == NilMarker && isAlias(st.alias, a.A) {
					pruned = true
					break
				}
			}
			if pruned {
				continue
			}
			al := st.alias
			pi := predIndex(st.b, s)
			for _, in := range s.Instrs {
				ph, ok := in.(*ssa.Phi)
				if !ok {
					break
				}
				if pi >= 0 && pi < len(ph.Edges) && isAlias(st.alias, ph.Edges[pi]) {
					if al[ph] {
						continue
					}
					n := map[ssa.Value]bool{ph: true}
					for k := range al {
						n[k] = true
					}
					al = n
				} else if al[ph] {
					// the φ takes another value on this edge: no longer an alias
					n := map[ssa.Value]bool{}
					for k := range al {
						if k != ssa.Value(ph) {
							n[k] = true
						}
					}
					al = n
				}
			}
			k := strconv.Itoa(s.Index) + "|" + aliasKey(al)
			if seen[k] {
				continue
			}
			seen[k] = true
			q = append(q, state{s, 0, al})
		}
	}
	return nil
}

var _ = token.NOT
