package core

import (
	"fmt"
	"go/constant"
	"go/token"
	"go/types"
	"sort"
	"strings"

	"golang.org/x/tools/go/ssa"
)

// ---------------------------------------------------------------------------------
// D1 store forwarding

type slot struct {
	base ssa.Value // *ssa.Alloc
	path string    // ".1.0" field index path
}

// Resolved is what a load yields after forwarding: value V followed by the field path Rest.
type Resolved struct {
	V    ssa.Value
	Rest []int
}

// FuncFacts caches per-function analyses.
type FuncFacts struct {
	P       *Program
	Fn      *ssa.Function
	fwd     map[*ssa.UnOp]Resolved             // loads that forward to a unique reaching store
	agg     map[*ssa.UnOp]map[string]ssa.Value // aggregate loads: field-name path → reaching stored value
	aggBase map[*ssa.UnOp]Resolved             // aggregate loads: the whole value the overrides apply to
	in      []map[string]*Atom                 // must-hold facts at block entry (nil = unreachable/top)
	done    bool
	ids     map[ssa.Value]int
	accBusy     map[*ssa.Phi]bool
	accMemo     map[*ssa.Phi]*Poly
	accResult   map[*ssa.Phi]*Poly
	constIDs    map[string]int
	outMemo     map[*ssa.BasicBlock][]*Atom
	polyMemo    map[polyMemoKey]polyMemoVal
	loadReps    map[*ssa.UnOp]*ssa.UnOp
	loadsByAddr map[string][]*ssa.UnOp
	// LeafKey lets a rule name specific (unforwarded) values in linear forms, e.g. the load
	// of the location a store updates ("@OLD"); consulted before any other normalisation.
	LeafKey func(ssa.Value) (string, bool)
	// ErrExit lets a rule reclassify specific returns as error exits (frozen, triaged
	// `if err != nil { return nil }` instances).
	ErrExit map[ssa.Instruction]bool
	// IdentityCalls: method names whose first result is treated as their receiver by the
	// linear-form evaluation (e.g. TruncateDecimal for split conservation).
	IdentityCalls map[string]bool
}

func (P *Program) Facts(fn *ssa.Function) *FuncFacts {
	if ff, ok := P.fnFacts[fn]; ok {
		return ff
	}
	ff := &FuncFacts{P: P, Fn: fn, fwd: map[*ssa.UnOp]Resolved{}, agg: map[*ssa.UnOp]map[string]ssa.Value{}, aggBase: map[*ssa.UnOp]Resolved{}, ids: map[ssa.Value]int{}}
	P.fnFacts[fn] = ff
	// deterministic value numbers: parameters, free variables, then every value-producing
	// instruction in block order (keys such as load@N / phi@N must not depend on which
	// analysis happened to ask first)
	for _, p := range fn.Params {
		ff.ids[p] = len(ff.ids) + 1
	}
	for _, fv := range fn.FreeVars {
		ff.ids[fv] = len(ff.ids) + 1
	}
	for _, b := range fn.Blocks {
		for _, in := range b.Instrs {
			if v, ok := in.(ssa.Value); ok {
				ff.ids[v] = len(ff.ids) + 1
			}
		}
	}
	ff.forward()
	ff.solve()
	return ff
}

// addrPath resolves an address to (base, field index path) through FieldAddr chains.
func addrPath(v ssa.Value) (ssa.Value, []int) {
	var path []int
	for {
		switch x := v.(type) {
		case *ssa.FieldAddr:
			path = append([]int{x.Field}, path...)
			v = x.X
			continue
		}
		return v, path
	}
}

func pathKey(p []int) string {
	var sb strings.Builder
	for _, i := range p {
		fmt.Fprintf(&sb, ".%d", i)
	}
	return sb.String()
}

// forwardable reports whether every use of the alloc's address is a load, a store *to* it,
// a field address (recursively), a call argument (treated as a kill) or a binding of a
// closure that only runs deferred.
func forwardable(a ssa.Value) bool {
	var ok func(v ssa.Value) bool
	ok = func(v ssa.Value) bool {
		refs := v.Referrers()
		if refs == nil {
			return false
		}
		for _, r := range *refs {
			switch x := r.(type) {
			case *ssa.Store:
				if x.Val == v {
					return false
				}
			case *ssa.UnOp:
				if x.Op != token.MUL {
					return false
				}
			case *ssa.FieldAddr:
				if !ok(x) {
					return false
				}
			case *ssa.DebugRef:
			case ssa.CallInstruction:
				// kill at the call; fine
			case *ssa.MakeClosure:
				if !closureOnlyDeferred(x) && !closureNeverWrites(x, v) {
					return false
				}
			default:
				return false
			}
		}
		return true
	}
	return ok(a)
}

// closureNeverWrites: the closure binds addr as a free variable but only ever loads it
// (single-assignment captured variable, e.g. a spilled parameter).
func closureNeverWrites(mc *ssa.MakeClosure, addr ssa.Value) bool {
	fn, ok := mc.Fn.(*ssa.Function)
	if !ok {
		return false
	}
	for i, b := range mc.Bindings {
		if b != addr || i >= len(fn.FreeVars) {
			continue
		}
		if !onlyLoaded(fn.FreeVars[i], 0) {
			return false
		}
	}
	return true
}

func onlyLoaded(v ssa.Value, depth int) bool {
	if depth > 4 || v.Referrers() == nil {
		return false
	}
	for _, r := range *v.Referrers() {
		switch x := r.(type) {
		case *ssa.UnOp:
			if x.Op != token.MUL {
				return false
			}
		case *ssa.FieldAddr:
			if !onlyLoaded(x, depth+1) {
				return false
			}
		case *ssa.DebugRef:
		case *ssa.MakeClosure:
			if !closureNeverWrites(x, v) {
				return false
			}
		default:
			return false
		}
	}
	return true
}

func closureOnlyDeferred(mc *ssa.MakeClosure) bool {
	refs := mc.Referrers()
	if refs == nil {
		return false
	}
	for _, r := range *refs {
		if d, ok := r.(*ssa.Defer); ok && d.Call.Value == mc {
			continue
		}
		if _, ok := r.(*ssa.DebugRef); ok {
			continue
		}
		return false
	}
	return true
}

type unknownMarker struct{ ssa.Value }

func (unknownMarker) Name() string   { return "?" }
func (unknownMarker) String() string { return "?" }

var unknownValue ssa.Value = unknownMarker{}

type reachState map[slot]ssa.Value // missing = no store seen (zero value); nil value = conflicting/unknown

func (ff *FuncFacts) forward() {
	fn := ff.Fn
	bases := map[ssa.Value]bool{}
	for _, b := range fn.Blocks {
		for _, in := range b.Instrs {
			if a, ok := in.(*ssa.Alloc); ok && forwardable(a) {
				bases[a] = true
			}
		}
	}
	// pointer-to-struct parameters: stores through them forward to later loads as long as
	// the pointer is not handed to a callee in between (aliases through other pointers are
	// not modelled — DESIGN §7)
	for _, p := range fn.Params {
		if pt, ok := p.Type().Underlying().(*types.Pointer); ok {
			if _, isStruct := pt.Elem().Underlying().(*types.Struct); isStruct && forwardable(p) {
				bases[p] = true
			}
		}
	}
	if len(bases) == 0 {
		return
	}
	n := len(fn.Blocks)
	ins := make([]reachState, n)
	outs := make([]reachState, n)
	visited := make([]bool, n)
	transfer := func(st reachState, in ssa.Instruction, record bool) {
		switch x := in.(type) {
		case *ssa.Store:
			base, path := addrPath(x.Addr)
			if !bases[base] {
				return
			}
			pk := pathKey(path)
			// a store to path p overwrites every slot below p; slots above p stay valid for
			// the other fields (lookups take the longest stored prefix)
			for s := range st {
				if s.base == base && s.path != pk && strings.HasPrefix(s.path, pk+".") {
					delete(st, s)
				}
			}
			st[slot{base, pk}] = x.Val
		case ssa.CallInstruction:
			var rands []*ssa.Value
			for _, r := range in.Operands(rands) {
				if *r == nil {
					continue
				}
				base, _ := addrPath(*r)
				if bases[base] {
					_, isParam := (*r).(*ssa.Parameter)
					if _, isAlloc := (*r).(*ssa.Alloc); isAlloc || isParam || base != *r {
						for s := range st {
							if s.base == base {
								st[s] = nil
							}
						}
						st[slot{base, "#killed"}] = nil
					}
				}
			}
		case *ssa.UnOp:
			if !record || x.Op != token.MUL {
				return
			}
			base, path := addrPath(x.X)
			if !bases[base] {
				return
			}
			if _, killed := st[slot{base, "#killed"}]; killed {
				// after a kill only later explicit stores are trusted
			}
			pk := pathKey(path)
			hasBelow := false
			for sl := range st {
				if sl.base == base && strings.HasPrefix(sl.path, pk+".") {
					hasBelow = true
				}
			}
			// longest stored prefix
			for i := len(path); i >= 0; i-- {
				s := slot{base, pathKey(path[:i])}
				if v, ok := st[s]; ok {
					if v != nil {
						r := Resolved{V: v, Rest: append([]int(nil), path[i:]...)}
						if hasBelow {
							ff.aggBase[x] = r // whole value with field overrides below
						} else {
							ff.fwd[x] = r
						}
					}
					break
				}
			}
			if !hasBelow {
				return
			}
			// aggregate load: remember the reaching stores of the fields below the path
			for sl, v := range st {
				if sl.base != base || !strings.HasPrefix(sl.path, pk+".") {
					continue
				}
				if v == nil {
					v = unknownValue
				}
				names := ""
				t := x.Type()
				ok := true
				for _, part := range strings.Split(strings.TrimPrefix(sl.path, pk+"."), ".") {
					fi := 0
					for _, ch := range part {
						if ch < '0' || ch > '9' {
							ok = false
						}
						fi = fi*10 + int(ch-'0')
					}
					if !ok {
						break
					}
					names += "." + fieldName(t, fi)
					t = fieldType(t, fi)
				}
				if !ok {
					continue
				}
				if ff.agg[x] == nil {
					ff.agg[x] = map[string]ssa.Value{}
				}
				ff.agg[x][names] = v
			}
		}
	}
	clone := func(s reachState) reachState {
		c := make(reachState, len(s))
		for k, v := range s {
			c[k] = v
		}
		return c
	}
	changed := true
	for iter := 0; changed && iter < 50; iter++ {
		changed = false
		for _, b := range fn.Blocks {
			var st reachState
			if b.Index == 0 {
				st = reachState{}
			} else {
				first := true
				for _, p := range b.Preds {
					if !visited[p.Index] {
						continue
					}
					if first {
						st = clone(outs[p.Index])
						first = false
						continue
					}
					po := outs[p.Index]
					for k, v := range st {
						if pv, ok := po[k]; !ok || pv != v {
							st[k] = nil
						}
					}
					for k := range po {
						if _, ok := st[k]; !ok {
							st[k] = nil
						}
					}
				}
				if first {
					continue // unreachable so far
				}
			}
			ins[b.Index] = clone(st)
			for _, in := range b.Instrs {
				transfer(st, in, false)
			}
			if !visited[b.Index] || !sameState(outs[b.Index], st) {
				outs[b.Index] = st
				visited[b.Index] = true
				changed = true
			}
		}
	}
	for _, b := range fn.Blocks {
		if !visited[b.Index] && b.Index != 0 {
			continue
		}
		st := clone(ins[b.Index])
		if st == nil {
			st = reachState{}
		}
		for _, in := range b.Instrs {
			transfer(st, in, true)
		}
	}
}

func sameState(a, b reachState) bool {
	if len(a) != len(b) {
		return false
	}
	for k, v := range a {
		if bv, ok := b[k]; !ok || bv != v {
			return false
		}
	}
	return true
}

// Fwd strips loads that forward to a unique store (only when the whole stored value is
// read, i.e. no residual field path) and transparent conversions.
func (ff *FuncFacts) Fwd(v ssa.Value) ssa.Value {
	for i := 0; i < 20; i++ {
		switch x := v.(type) {
		case *ssa.UnOp:
			if x.Op == token.MUL {
				if r, ok := ff.fwd[x]; ok && len(r.Rest) == 0 {
					v = r.V
					continue
				}
				// a field read from a by-value copy of a struct that was assembled field by
				// field (composite literal → copy → field): the value stored into the field
				if r, ok := ff.fwd[x]; ok && len(r.Rest) > 0 {
					base := r.V
					for j := 0; j < 4; j++ {
						if b, ok := base.(*ssa.UnOp); ok && b.Op == token.MUL {
							if rr, ok := ff.fwd[b]; ok && len(rr.Rest) == 0 {
								base = rr.V
								continue
							}
						}
						break
					}
					if c, ok := base.(*ssa.Call); ok && len(r.Rest) == 1 && !c.Common().IsInvoke() && len(c.Common().Args) == 2 {
						if sc := c.Common().StaticCallee(); sc != nil && sc.Name() == "NewCoin" && sc.Signature.Recv() == nil {
							if p := fnPkg(sc); p != nil && strings.HasSuffix(p.Path(), "cosmos-sdk/types") {
								switch fieldName(c.Type(), r.Rest[0]) {
								case "Denom":
									v = c.Common().Args[0]
									continue
								case "Amount":
									v = c.Common().Args[1]
									continue
								}
							}
						}
					}
					if ld, ok := base.(*ssa.UnOp); ok && ld.Op == token.MUL {
						if m, ok := ff.agg[ld]; ok {
							names := ""
							t := ld.Type()
							for _, fi := range r.Rest {
								names += "." + fieldName(t, fi)
								t = fieldType(t, fi)
							}
							if sv, ok := m[names]; ok && sv != nil && sv != unknownValue {
								v = sv
								continue
							}
						}
					}
				}
			}
		case *ssa.Field:
			// a field of a freshly constructed coin: NewCoin(d, a).Denom is d, .Amount is a
			if c, ok := x.X.(*ssa.Call); ok && !c.Common().IsInvoke() && len(c.Common().Args) == 2 {
				if sc := c.Common().StaticCallee(); sc != nil && sc.Name() == "NewCoin" && sc.Signature.Recv() == nil {
					if p := fnPkg(sc); p != nil && strings.HasSuffix(p.Path(), "cosmos-sdk/types") {
						switch fieldName(x.X.Type(), x.Field) {
						case "Denom":
							v = c.Common().Args[0]
							continue
						case "Amount":
							v = c.Common().Args[1]
							continue
						}
					}
				}
			}
			// a field of a struct value that was assembled field by field in a local (a
			// composite literal handed on by value): the value stored into that field
			base := x.X
			if i < 19 {
				if b, ok := base.(*ssa.UnOp); ok && b.Op == token.MUL {
					if r, ok := ff.fwd[b]; ok && len(r.Rest) == 0 {
						base = r.V // the whole struct was copied from another value
					}
				}
			}
			if ld, ok := base.(*ssa.UnOp); ok && ld.Op == token.MUL {
				if m, ok := ff.agg[ld]; ok {
					if sv, ok := m["."+fieldName(x.X.Type(), x.Field)]; ok && sv != nil && sv != unknownValue {
						v = sv
						continue
					}
				}
			}
		case *ssa.ChangeType:
			v = x.X
			continue
		case *ssa.MakeInterface:
			v = x.X
			continue
		case *ssa.ChangeInterface:
			v = x.X
			continue
		}
		return v
	}
	return v
}

// ---------------------------------------------------------------------------------
// D2 must-hold facts

type Rel int

const (
	LT Rel = iota // A < B
	LE            // A <= B
	EQ
	NE
	TRUE  // A is true
	FALSE // A is false
)

func (r Rel) String() string { return [...]string{"<", "<=", "==", "!=", "true", "false"}[r] }

// Atom is a normalised comparison between two (forwarded) SSA values.
// B == nil for TRUE/FALSE. Zero is represented by the ZeroMarker value.
type Atom struct {
	Rel  Rel
	A, B ssa.Value
	// Src is the comparison instruction (call or binop) the atom came from.
	Src ssa.Value
}

type zeroMarker struct{ ssa.Value }

func (zeroMarker) Name() string   { return "0" }
func (zeroMarker) String() string { return "0" }

// ZeroMarker stands for the constant zero in IsZero/IsPositive/IsNegative atoms.
var ZeroMarker ssa.Value = zeroMarker{}

type nilMarker struct{ ssa.Value }

func (nilMarker) Name() string   { return "nil" }
func (nilMarker) String() string { return "nil" }

// NilMarker stands for the nil constant.
var NilMarker ssa.Value = nilMarker{}

func (ff *FuncFacts) id(v ssa.Value) int {
	if v == nil {
		return -1
	}
	if v == ZeroMarker {
		return -2
	}
	if v == NilMarker {
		return -3
	}
	if id, ok := ff.ids[v]; ok {
		return id
	}
	if c, ok := v.(*ssa.Const); ok {
		// constants compare by value: one id per (type, value), found through an index
		// instead of a scan of every value seen so far
		ck := c.Type().String() + "|nil"
		if c.Value != nil {
			ck = c.Type().String() + "|" + c.Value.ExactString()
		}
		if ff.constIDs == nil {
			ff.constIDs = map[string]int{}
		}
		if id, ok := ff.constIDs[ck]; ok {
			ff.ids[v] = id
			return id
		}
		id := len(ff.ids) + len(ff.constIDs) + 1000000
		ff.constIDs[ck] = id
		ff.ids[v] = id
		return id
	}
	id := len(ff.ids) + 1
	ff.ids[v] = id
	return id
}

func constEq(a, b *ssa.Const) bool {
	if a.Value == nil || b.Value == nil {
		return a.Value == nil && b.Value == nil
	}
	return constant.Compare(a.Value, token.EQL, b.Value)
}

func (ff *FuncFacts) key(a *Atom) string {
	return fmt.Sprintf("%d:%d:%d", a.Rel, ff.id(a.A), ff.id(a.B))
}

func negRel(a *Atom) *Atom {
	switch a.Rel {
	case LT: // !(A<B) = B<=A
		return &Atom{LE, a.B, a.A, a.Src}
	case LE: // !(A<=B) = B<A
		return &Atom{LT, a.B, a.A, a.Src}
	case EQ:
		return &Atom{NE, a.A, a.B, a.Src}
	case NE:
		return &Atom{EQ, a.A, a.B, a.Src}
	case TRUE:
		return &Atom{FALSE, a.A, nil, a.Src}
	default:
		return &Atom{TRUE, a.A, nil, a.Src}
	}
}

// cmpMethod maps the comparison methods of math.Int / LegacyDec / Uint / Coin(s)
// to a normalised relation builder.
func cmpAtom(name string, recv, arg ssa.Value, src ssa.Value) *Atom {
	switch name {
	case "LT", "IsLT", "IsAllLT":
		return &Atom{LT, recv, arg, src}
	case "LTE", "IsLTE", "IsAllLTE":
		return &Atom{LE, recv, arg, src}
	case "GT", "IsGT", "IsAllGT":
		return &Atom{LT, arg, recv, src}
	case "GTE", "IsGTE", "IsAllGTE":
		return &Atom{LE, arg, recv, src}
	case "Equal", "IsEqual", "Equals":
		return &Atom{EQ, recv, arg, src}
	case "IsZero":
		return &Atom{EQ, recv, ZeroMarker, src}
	case "IsPositive", "IsAllPositive":
		return &Atom{LT, ZeroMarker, recv, src}
	case "IsNegative":
		return &Atom{LT, recv, ZeroMarker, src}
	}
	return nil
}

// IsMathType reports the numeric / coin carrier types whose comparison methods are atoms.
func IsMathType(t types.Type) bool {
	n := AsNamed(t)
	if n == nil || n.Obj().Pkg() == nil {
		return false
	}
	p := n.Obj().Pkg().Path()
	switch n.Obj().Name() {
	case "Int", "LegacyDec", "Uint":
		return p == "cosmossdk.io/math"
	case "Coin", "Coins", "DecCoin", "DecCoins":
		return strings.HasSuffix(p, "cosmos-sdk/types")
	}
	return false
}

// implied returns the atoms that hold when v evaluates to pol. blockFacts gives the facts
// at the end of a block (used for boolean φ expansion).
func (ff *FuncFacts) implied(v ssa.Value, pol bool, depth int) []*Atom {
	if depth > 6 {
		return nil
	}
	v = ff.Fwd(v)
	switch x := v.(type) {
	case *ssa.UnOp:
		if x.Op == token.NOT {
			return ff.implied(x.X, !pol, depth+1)
		}
	case *ssa.BinOp:
		a, b := ff.Fwd(x.X), ff.Fwd(x.Y)
		var at *Atom
		isNil := func(v ssa.Value) bool {
			c, ok := v.(*ssa.Const)
			return ok && c.Value == nil && !isBasic(c.Type())
		}
		if isNil(b) {
			b = NilMarker
		}
		if isNil(a) {
			a, b = b, NilMarker
		}
		switch x.Op {
		case token.EQL:
			at = &Atom{EQ, a, b, x}
		case token.NEQ:
			at = &Atom{NE, a, b, x}
		case token.LSS:
			at = &Atom{LT, a, b, x}
		case token.LEQ:
			at = &Atom{LE, a, b, x}
		case token.GTR:
			at = &Atom{LT, b, a, x}
		case token.GEQ:
			at = &Atom{LE, b, a, x}
		}
		if at != nil {
			if !pol {
				at = negRel(at)
			}
			out := []*Atom{at}
			// error φ compared with nil: only the edges that can deliver a nil (non-nil)
			// error are compatible with the outcome, and what holds on all of them holds
			// here (an inlined `if cond { r = err; break }; r = nil` guard, DESIGN §9.7)
			if ph, ok := at.A.(*ssa.Phi); ok && at.B == NilMarker && (at.Rel == EQ || at.Rel == NE) && isErrorType(ph.Type()) {
				out = append(out, ff.errPhiFacts(ph, at.Rel == EQ, depth)...)
			}
			return out
		}
	case *ssa.Call:
		cc := x.Common()
		if cc.IsInvoke() {
			break
		}
		if sc := cc.StaticCallee(); sc != nil && sc.Signature.Recv() != nil && len(cc.Args) >= 1 && IsMathType(sc.Signature.Recv().Type()) {
			var arg ssa.Value
			if len(cc.Args) >= 2 {
				arg = zeroNorm(ff.Fwd(cc.Args[1]))
			}
			if at := cmpAtom(sc.Name(), zeroNorm(ff.Fwd(cc.Args[0])), arg, x); at != nil {
				if !pol {
					at = negRel(at)
				}
				return []*Atom{at}
			}
		}
	case *ssa.Phi:
		if b, ok := x.Type().Underlying().(*types.Basic); ok && b.Kind() == types.Bool {
			var acc map[string]*Atom
			first := true
			for i, e := range x.Edges {
				if c, ok := e.(*ssa.Const); ok && c.Value != nil && c.Value.Kind() == constant.Bool {
					if constant.BoolVal(c.Value) != pol {
						continue // this edge cannot produce pol
					}
					// constant equal to pol: only the path facts hold
				}
				pred := x.Block().Preds[i]
				set := map[string]*Atom{}
				if ff.in != nil && ff.in[pred.Index] != nil {
					for k, a := range ff.in[pred.Index] {
						set[k] = a
					}
				}
				for _, a := range ff.edgeFacts(pred, x.Block(), depth+1) {
					set[ff.key(a)] = a
				}
				if _, isConst := e.(*ssa.Const); !isConst {
					for _, a := range ff.implied(e, pol, depth+1) {
						set[ff.key(a)] = a
					}
				}
				if first {
					acc = set
					first = false
				} else {
					for k := range acc {
						if _, ok := set[k]; !ok {
							delete(acc, k)
						}
					}
				}
			}
			var out []*Atom
			for _, a := range acc {
				out = append(out, a)
			}
			out = append(out, boolAtom(v, pol))
			return out
		}
	}
	// plain boolean value (found flag, field, call result)
	if b, ok := v.Type().Underlying().(*types.Basic); ok && b.Kind() == types.Bool {
		if c, ok := v.(*ssa.Const); ok {
			_ = c
			return nil
		}
		return []*Atom{boolAtom(v, pol)}
	}
	return nil
}

// errPhiFacts returns the atoms common to every incoming edge of an error-typed φ that can
// deliver a nil (wantNil) or non-nil error.
func (ff *FuncFacts) errPhiFacts(ph *ssa.Phi, wantNil bool, depth int) []*Atom {
	if ff.in == nil {
		return nil
	}
	var acc map[string]*Atom
	first := true
	for i, e := range ph.Edges {
		pred := ph.Block().Preds[i]
		if ff.in[pred.Index] == nil {
			continue // unreachable predecessor
		}
		kind := ff.classifyErrOnEdge(e, pred, ph.Block(), map[ssa.Value]bool{})
		if wantNil && kind == ExitError {
			continue
		}
		if !wantNil && kind == ExitSuccess {
			continue
		}
		set := map[string]*Atom{}
		for k, a := range ff.in[pred.Index] {
			set[k] = a
		}
		for _, a := range ff.edgeFacts(pred, ph.Block(), depth+1) {
			set[ff.key(a)] = a
		}
		if inner, ok := ff.Fwd(e).(*ssa.Phi); ok && inner != ph && depth < 4 && isErrorType(inner.Type()) {
			for _, a := range ff.errPhiFacts(inner, wantNil, depth+1) {
				set[ff.key(a)] = a
			}
		}
		if first {
			acc, first = set, false
			continue
		}
		for k := range acc {
			if _, ok := set[k]; !ok {
				delete(acc, k)
			}
		}
	}
	var out []*Atom
	for _, a := range acc {
		out = append(out, a)
	}
	sort.Slice(out, func(i, j int) bool { return ff.key(out[i]) < ff.key(out[j]) })
	return out
}

// zeroNorm maps the zero constructors of cosmossdk.io/math to the zero marker, so that
// x.LTE(math.ZeroInt()) and x.IsNegative()/IsZero() meet in one atom vocabulary.
func zeroNorm(v ssa.Value) ssa.Value {
	c, ok := v.(*ssa.Call)
	if !ok || c.Common().IsInvoke() {
		return v
	}
	sc := c.Common().StaticCallee()
	if sc == nil {
		return v
	}
	p := fnPkg(sc)
	if p == nil || p.Path() != "cosmossdk.io/math" {
		return v
	}
	switch sc.Name() {
	case "ZeroInt", "LegacyZeroDec", "ZeroUint":
		if len(c.Common().Args) == 0 {
			return ZeroMarker
		}
	case "NewInt", "LegacyNewDec":
		if len(c.Common().Args) == 1 {
			if k, ok := c.Common().Args[0].(*ssa.Const); ok && k.Value != nil && k.Value.ExactString() == "0" {
				return ZeroMarker
			}
		}
	}
	return v
}

func boolAtom(v ssa.Value, pol bool) *Atom {
	if pol {
		return &Atom{TRUE, v, nil, v}
	}
	return &Atom{FALSE, v, nil, v}
}

func isBasic(t types.Type) bool {
	_, ok := t.Underlying().(*types.Basic)
	return ok
}

// edgeFacts gives the atoms established by taking the CFG edge p→s.
func (ff *FuncFacts) edgeFacts(p, s *ssa.BasicBlock, depth int) []*Atom {
	if len(p.Instrs) == 0 {
		return nil
	}
	iff, ok := p.Instrs[len(p.Instrs)-1].(*ssa.If)
	if !ok || len(p.Succs) != 2 {
		return nil
	}
	if p.Succs[0] == p.Succs[1] {
		return nil
	}
	return ff.implied(iff.Cond, p.Succs[0] == s, depth)
}

// EdgeFacts exposes the atoms established by taking the CFG edge p→s.
func (ff *FuncFacts) EdgeFacts(p, s *ssa.BasicBlock) []*Atom { return ff.edgeFacts(p, s, 0) }

func (ff *FuncFacts) solve() {
	fn := ff.Fn
	n := len(fn.Blocks)
	ff.in = make([]map[string]*Atom, n)
	ff.in[0] = map[string]*Atom{}
	changed := true
	for iter := 0; changed && iter < 30; iter++ {
		changed = false
		for _, b := range fn.Blocks {
			if b.Index == 0 {
				continue
			}
			var acc map[string]*Atom
			first := true
			for _, p := range b.Preds {
				if ff.in[p.Index] == nil {
					continue // top
				}
				set := map[string]*Atom{}
				for k, a := range ff.in[p.Index] {
					set[k] = a
				}
				for _, a := range ff.edgeFacts(p, b, 0) {
					set[ff.key(a)] = a
				}
				if first {
					acc = set
					first = false
				} else {
					for k := range acc {
						if _, ok := set[k]; !ok {
							delete(acc, k)
						}
					}
				}
			}
			if first {
				continue
			}
			if ff.in[b.Index] == nil || len(ff.in[b.Index]) != len(acc) {
				ff.in[b.Index] = acc
				changed = true
			} else {
				for k := range acc {
					if _, ok := ff.in[b.Index][k]; !ok {
						ff.in[b.Index] = acc
						changed = true
						break
					}
				}
			}
		}
	}
	ff.done = true
}

// At returns the atoms that must hold on entry of the block containing in (facts are
// per block: conditions only change at block boundaries).
func (ff *FuncFacts) At(in ssa.Instruction) []*Atom {
	b := in.Block()
	if b == nil || ff.in[b.Index] == nil {
		return nil
	}
	out := make([]*Atom, 0, len(ff.in[b.Index]))
	for _, a := range ff.in[b.Index] {
		out = append(out, a)
	}
	sort.Slice(out, func(i, j int) bool { return ff.key(out[i]) < ff.key(out[j]) })
	return out
}

// Reachable reports whether the block of in is reachable in the facts fixpoint.
func (ff *FuncFacts) Reachable(in ssa.Instruction) bool {
	b := in.Block()
	return b != nil && ff.in[b.Index] != nil
}

// ---------------------------------------------------------------------------------
// D3 exit classification

type ExitKind int

const (
	ExitSuccess ExitKind = iota
	ExitError
	ExitBoth
	ExitPanic
)

type Exit struct {
	Instr ssa.Instruction
	Kind  ExitKind
}

func isErrorType(t types.Type) bool {
	n, ok := types.Unalias(t).(*types.Named)
	return ok && n.Obj().Pkg() == nil && n.Obj().Name() == "error"
}

// ErrResultIndex returns the index of the trailing error result, or -1.
func ErrResultIndex(sig *types.Signature) int {
	r := sig.Results()
	if r.Len() == 0 {
		return -1
	}
	if isErrorType(r.At(r.Len() - 1).Type()) {
		return r.Len() - 1
	}
	return -1
}

// Exits classifies every function exit.
func (ff *FuncFacts) Exits() []Exit {
	var out []Exit
	ei := ErrResultIndex(ff.Fn.Signature)
	for _, b := range ff.Fn.Blocks {
		if len(b.Instrs) == 0 || ff.in[b.Index] == nil {
			continue
		}
		last := b.Instrs[len(b.Instrs)-1]
		switch x := last.(type) {
		case *ssa.Panic:
			out = append(out, Exit{x, ExitPanic})
		case *ssa.Return:
			if ei < 0 {
				out = append(out, Exit{x, ExitSuccess})
				continue
			}
			if b == ff.Fn.Recover {
				out = append(out, Exit{x, ExitBoth})
				continue
			}
			if ff.ErrExit[x] {
				out = append(out, Exit{x, ExitError})
				continue
			}
			out = append(out, Exit{x, ff.classifyErr(x.Results[ei], b, map[ssa.Value]bool{})})
		}
	}
	return out
}

func (ff *FuncFacts) classifyErr(e ssa.Value, at *ssa.BasicBlock, seen map[ssa.Value]bool) ExitKind {
	e = ff.Fwd(e)
	if seen[e] {
		return ExitBoth
	}
	seen[e] = true
	if c, ok := e.(*ssa.Const); ok && c.Value == nil {
		return ExitSuccess
	}
	for _, a := range ff.in[at.Index] {
		if a.B == NilMarker && ff.Fwd(a.A) == e {
			if a.Rel == NE {
				return ExitError
			}
			if a.Rel == EQ {
				return ExitSuccess
			}
		}
	}
	switch x := e.(type) {
	case *ssa.Call:
		if name := calleeName(x.Common()); name != "" {
			switch name {
			case "Wrap", "Wrapf", "Errorf", "New", "Error", "WithType", "Newf":
				// wrap helpers: same nil-ness as their error operand when they have one
				for _, a := range x.Common().Args {
					if isErrorType(a.Type()) {
						if _, isGlobalLoad := ff.Fwd(a).(*ssa.UnOp); isGlobalLoad {
							return ExitError
						}
						return ff.classifyErr(a, at, seen)
					}
				}
				return ExitError
			}
		}
	case *ssa.UnOp:
		if x.Op == token.MUL {
			if _, ok := x.X.(*ssa.Global); ok {
				return ExitError // package-level Err* sentinel
			}
		}
	case *ssa.Phi:
		kind := ExitKind(-1)
		for i, ed := range x.Edges {
			pred := x.Block().Preds[i]
			if ff.in[pred.Index] == nil {
				continue
			}
			k := ff.classifyErrOnEdge(ed, pred, x.Block(), seen)
			if kind == -1 {
				kind = k
			} else if kind != k {
				return ExitBoth
			}
		}
		if kind == -1 {
			return ExitBoth
		}
		return kind
	}
	return ExitBoth
}

func (ff *FuncFacts) classifyErrOnEdge(e ssa.Value, pred, succ *ssa.BasicBlock, seen map[ssa.Value]bool) ExitKind {
	e = ff.Fwd(e)
	for _, a := range ff.edgeFacts(pred, succ, 0) {
		if a.B == NilMarker && ff.Fwd(a.A) == e {
			if a.Rel == NE {
				return ExitError
			}
			if a.Rel == EQ {
				return ExitSuccess
			}
		}
	}
	return ff.classifyErr(e, pred, seen)
}

func calleeName(cc *ssa.CallCommon) string {
	if cc.IsInvoke() {
		return cc.Method.Name()
	}
	if sc := cc.StaticCallee(); sc != nil {
		return sc.Name()
	}
	if b, ok := cc.Value.(*ssa.Builtin); ok {
		return b.Name()
	}
	return ""
}

// ---------------------------------------------------------------------------------
// CFG path queries at instruction granularity

// idx returns the index of in inside its block.
func idx(in ssa.Instruction) int {
	for i, x := range in.Block().Instrs {
		if x == in {
			return i
		}
	}
	return -1
}

// Before reports whether a strictly precedes b on every path (dominance, same-block order).
func Dominates(a, b ssa.Instruction) bool {
	if a.Block() == b.Block() {
		return idx(a) < idx(b)
	}
	return a.Block().Dominates(b.Block())
}

// ReachesWithout reports whether some CFG path leads from just after `from` to an
// instruction satisfying `target`, without executing an instruction for which `stop`
// holds. from == nil starts at function entry.
func ReachesWithout(fn *ssa.Function, from ssa.Instruction, target func(ssa.Instruction) bool, stop func(ssa.Instruction) bool) (ssa.Instruction, bool) {
	type item struct {
		b *ssa.BasicBlock
		i int
	}
	seen := map[*ssa.BasicBlock]bool{}
	var q []item
	if from == nil {
		q = append(q, item{fn.Blocks[0], 0})
		seen[fn.Blocks[0]] = true
	} else {
		q = append(q, item{from.Block(), idx(from) + 1})
	}
	for len(q) > 0 {
		it := q[0]
		q = q[1:]
		blocked := false
		for i := it.i; i < len(it.b.Instrs); i++ {
			in := it.b.Instrs[i]
			if stop != nil && stop(in) {
				blocked = true
				break
			}
			if target(in) {
				return in, true
			}
		}
		if blocked {
			continue
		}
		for _, s := range it.b.Succs {
			if !seen[s] {
				seen[s] = true
				q = append(q, item{s, 0})
			}
		}
	}
	return nil, false
}

// threadedSuccs returns the successors of b that are feasible when b was entered from its
// predecessor number pi.  When b ends in a nil test of an error φ defined in b itself (the
// shape `r = err; break` … `if r != nil` left by inlining, or any hand-written merge of
// error results), an edge that delivers a definitely non-nil (nil) error can only continue
// on the non-nil (nil) branch: jump threading, so that reachability queries do not follow
// the infeasible combination.  pi < 0 or no such test: all successors.
func (ff *FuncFacts) threadedSuccs(b *ssa.BasicBlock, pi int) []*ssa.BasicBlock {
	if pi < 0 || len(b.Succs) != 2 || len(b.Instrs) == 0 || ff.in == nil {
		return b.Succs
	}
	iff, ok := b.Instrs[len(b.Instrs)-1].(*ssa.If)
	if !ok {
		return b.Succs
	}
	cond := iff.Cond
	neg := false
	for {
		u, ok := cond.(*ssa.UnOp)
		if !ok || u.Op != token.NOT {
			break
		}
		cond, neg = u.X, !neg
	}
	bo, ok := cond.(*ssa.BinOp)
	if !ok || (bo.Op != token.EQL && bo.Op != token.NEQ) {
		return b.Succs
	}
	isNil := func(v ssa.Value) bool {
		c, ok := v.(*ssa.Const)
		return ok && c.Value == nil && !isBasic(c.Type())
	}
	var pv ssa.Value
	switch {
	case isNil(bo.Y):
		pv = bo.X
	case isNil(bo.X):
		pv = bo.Y
	default:
		return b.Succs
	}
	ph, ok := ff.Fwd(pv).(*ssa.Phi)
	if !ok || ph.Block() != b || !isErrorType(ph.Type()) || pi >= len(ph.Edges) {
		return b.Succs
	}
	pred := b.Preds[pi]
	if ff.in[pred.Index] == nil {
		return b.Succs
	}
	kind := ff.classifyErrOnEdge(ph.Edges[pi], pred, b, map[ssa.Value]bool{})
	// condTrueMeansNonNil: (φ != nil) is the true branch
	trueIsNonNil := (bo.Op == token.NEQ) != neg
	switch kind {
	case ExitError: // φ is non-nil on this edge
		if trueIsNonNil {
			return b.Succs[:1]
		}
		return b.Succs[1:]
	case ExitSuccess:
		if trueIsNonNil {
			return b.Succs[1:]
		}
		return b.Succs[:1]
	}
	return b.Succs
}

func predIndex(p, b *ssa.BasicBlock) int {
	for i, x := range b.Preds {
		if x == p {
			return i
		}
	}
	return -1
}

// ThreadedSuccs exposes threadedSuccs; PredIndex the index of p among b's predecessors.
func (ff *FuncFacts) ThreadedSuccs(b *ssa.BasicBlock, pi int) []*ssa.BasicBlock { return ff.threadedSuccs(b, pi) }
func PredIndex(p, b *ssa.BasicBlock) int                                         { return predIndex(p, b) }

// ReachesWithoutT is ReachesWithout over the jump-threaded CFG (threadedSuccs).
func (ff *FuncFacts) ReachesWithoutT(from ssa.Instruction, target func(ssa.Instruction) bool, stop func(ssa.Instruction) bool) (ssa.Instruction, bool) {
	fn := ff.Fn
	type item struct {
		b  *ssa.BasicBlock
		i  int
		pi int // predecessor index the block was entered through (-1: unknown/any)
	}
	type key struct {
		b  *ssa.BasicBlock
		pi int
	}
	seen := map[key]bool{}
	var q []item
	if from == nil {
		q = append(q, item{fn.Blocks[0], 0, -1})
		seen[key{fn.Blocks[0], -1}] = true
	} else {
		q = append(q, item{from.Block(), idx(from) + 1, -1})
	}
	for len(q) > 0 {
		it := q[0]
		q = q[1:]
		blocked := false
		for i := it.i; i < len(it.b.Instrs); i++ {
			in := it.b.Instrs[i]
			if stop != nil && stop(in) {
				blocked = true
				break
			}
			if target(in) {
				return in, true
			}
		}
		if blocked {
			continue
		}
		for _, s := range ff.threadedSuccs(it.b, it.pi) {
			pi := predIndex(it.b, s)
			k := key{s, pi}
			// only blocks that can be threaded need the per-edge state
			if len(ff.threadedSuccs(s, pi)) == len(s.Succs) {
				k.pi = -1
			}
			if !seen[k] {
				seen[k] = true
				q = append(q, item{s, 0, pi})
			}
		}
	}
	return nil, false
}

// SuccessExitReachableWithout: is there a path from `from` to a success exit that
// avoids every instruction matching stop?
func (ff *FuncFacts) SuccessExitReachableWithout(from ssa.Instruction, stop func(ssa.Instruction) bool) (ssa.Instruction, bool) {
	kinds := map[ssa.Instruction]ExitKind{}
	for _, e := range ff.Exits() {
		kinds[e.Instr] = e.Kind
	}
	return ff.ReachesWithoutT(from, func(in ssa.Instruction) bool {
		k, ok := kinds[in]
		return ok && (k == ExitSuccess || k == ExitBoth)
	}, stop)
}

// ---------------------------------------------------------------------------------
// Atom matching helpers

// AtomString renders an atom for diagnostics.
func (ff *FuncFacts) AtomString(a *Atom) string {
	d := func(v ssa.Value) string {
		if v == nil {
			return ""
		}
		return ff.Describe(v)
	}
	if a.Rel == TRUE || a.Rel == FALSE {
		return fmt.Sprintf("%s is %s", d(a.A), a.Rel)
	}
	return fmt.Sprintf("%s %s %s", d(a.A), a.Rel, d(a.B))
}

// Describe gives a short provenance description of a value.
func (ff *FuncFacts) Describe(v ssa.Value) string {
	os := ff.Origins(v)
	if len(os) == 0 {
		return v.Name()
	}
	var parts []string
	for _, o := range os {
		parts = append(parts, o.String())
	}
	sort.Strings(parts)
	if len(parts) > 3 {
		parts = append(parts[:3], "…")
	}
	return strings.Join(parts, "|")
}

// OutFacts returns the atoms that hold at the end of block b (conditions only change on
// edges, so these are the block's entry facts).
func (ff *FuncFacts) OutFacts(b *ssa.BasicBlock) []*Atom {
	if b == nil || ff.in[b.Index] == nil {
		return nil
	}
	if ff.done {
		if r, ok := ff.outMemo[b]; ok {
			return r
		}
	}
	out := make([]*Atom, 0, len(ff.in[b.Index]))
	for _, a := range ff.in[b.Index] {
		out = append(out, a)
	}
	sort.Slice(out, func(i, j int) bool { return ff.key(out[i]) < ff.key(out[j]) })
	if ff.done {
		if ff.outMemo == nil {
			ff.outMemo = map[*ssa.BasicBlock][]*Atom{}
		}
		ff.outMemo[b] = out
	}
	return out
}

// BlockReachable reports whether b is reachable in the facts fixpoint.
func (ff *FuncFacts) BlockReachable(b *ssa.BasicBlock) bool {
	return b != nil && ff.in[b.Index] != nil
}

// ValueCase is one way a value can come about: the value delivered and the atoms that hold
// when it is delivered (φ edges are unfolded; a non-φ value is its own single case).
type ValueCase struct {
	Val   ssa.Value
	Facts []*Atom
}

// CasesOf unfolds v (after forwarding) through φ nodes, at most depth levels; at is the
// instruction whose point facts apply to a non-φ value.
func (ff *FuncFacts) CasesOf(v ssa.Value, at ssa.Instruction, depth int) []ValueCase {
	v = ff.Fwd(v)
	ph, ok := v.(*ssa.Phi)
	if !ok || depth <= 0 {
		var fs []*Atom
		if at != nil {
			fs = ff.At(at)
		}
		return []ValueCase{{v, fs}}
	}
	var out []ValueCase
	for i, e := range ph.Edges {
		pred := ph.Block().Preds[i]
		if !ff.BlockReachable(pred) {
			continue
		}
		var fs []*Atom
		fs = append(fs, ff.OutFacts(pred)...)
		fs = append(fs, ff.EdgeFacts(pred, ph.Block())...)
		if inner, isPhi := ff.Fwd(e).(*ssa.Phi); isPhi && inner != ph {
			for _, c := range ff.CasesOf(inner, nil, depth-1) {
				out = append(out, ValueCase{c.Val, append(append([]*Atom{}, fs...), c.Facts...)})
			}
			continue
		}
		out = append(out, ValueCase{ff.Fwd(e), fs})
	}
	return out
}

// MemCases unfolds a load from a local struct variable that is assigned on several paths
// (`h := T{a: x}; if c { h = T{a: y} }; use(h.a)`): one case per store that can be the last
// one before the load, with the value it leaves in the loaded field and the facts that held
// at that store.  ok is false when the value is not such a load or a reaching store's field
// value cannot be named.
func (ff *FuncFacts) MemCases(v ssa.Value) ([]ValueCase, bool) {
	ld, ok := v.(*ssa.UnOp)
	if !ok || ld.Op != token.MUL {
		return nil, false
	}
	base, path := addrPath(ld.X)
	al, ok := base.(*ssa.Alloc)
	if !ok || al.Referrers() == nil || len(path) == 0 {
		return nil, false
	}
	names := ""
	t := al.Type().Underlying().(*types.Pointer).Elem()
	for _, fi := range path {
		names += "." + fieldName(t, fi)
		t = fieldType(t, fi)
	}
	type def struct {
		st  *ssa.Store
		val ssa.Value
	}
	var defs []def
	var collect func(addr ssa.Value)
	collect = func(addr ssa.Value) {
		if addr.Referrers() == nil {
			return
		}
		for _, r := range *addr.Referrers() {
			switch x := r.(type) {
			case *ssa.FieldAddr:
				collect(x)
			case *ssa.Store:
				if x.Addr != addr {
					continue
				}
				sb, sp := addrPath(x.Addr)
				if sb != base {
					continue
				}
				sk := pathKey(sp)
				pk := pathKey(path)
				switch {
				case sk == pk:
					defs = append(defs, def{x, x.Val})
				case sk == "" || strings.HasPrefix(pk, sk+"."):
					// a store of an enclosing aggregate: the field value inside it
					var fv ssa.Value
					if agg, ok := x.Val.(*ssa.UnOp); ok && agg.Op == token.MUL {
						if m, ok := ff.agg[agg]; ok {
							rest := names
							if sk != "" {
								// strip the enclosing part of the name path
								tt := al.Type().Underlying().(*types.Pointer).Elem()
								pre := ""
								for _, fi := range sp {
									pre += "." + fieldName(tt, fi)
									tt = fieldType(tt, fi)
								}
								rest = strings.TrimPrefix(names, pre)
							}
							if sv, ok := m[rest]; ok && sv != nil && sv != unknownValue {
								fv = sv
							}
						}
					}
					defs = append(defs, def{x, fv})
				}
			}
		}
	}
	collect(al)
	if len(defs) < 2 {
		return nil, false
	}
	isDef := func(in ssa.Instruction) bool {
		for _, d := range defs {
			if in == ssa.Instruction(d.st) {
				return true
			}
		}
		return false
	}
	var out []ValueCase
	for _, d := range defs {
		// can d be the last store before the load?
		_, reaches := ReachesWithout(ff.Fn, d.st, func(in ssa.Instruction) bool { return in == ssa.Instruction(ld) }, isDef)
		if !reaches {
			continue
		}
		if d.val == nil {
			return nil, false
		}
		out = append(out, ValueCase{ff.Fwd(d.val), ff.At(d.st)})
	}
	return out, len(out) > 0
}

type polyMemoKey struct {
	v ssa.Value
}

type polyMemoVal struct {
	p     *Poly
	depth int
}
