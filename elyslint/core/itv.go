package core

import (
	"fmt"
	"math/big"
)

// Interval arithmetic over exact rationals with open/closed and infinite endpoints
// (DESIGN §2 R10).  An Itv over-approximates the set of values an SSA value of type
// math.Int / math.LegacyDec / a Go integer may take.  LegacyDec's own 18-digit rounding is
// not modelled (stated assumption of every rule built on this).

type end struct {
	v    *big.Rat // nil when infinite
	inf  int      // -1, 0, +1
	open bool
}

type Itv struct {
	lo, hi end
	Int    bool // value is known to be integral
	Bot    bool // empty (unreachable)
	NZ     bool // value is known to be non-zero (a guard x != 0 on an interval that spans zero)
}

func ratInt(n int64) *big.Rat { return new(big.Rat).SetInt64(n) }

func Top() Itv { return Itv{lo: end{inf: -1, open: true}, hi: end{inf: 1, open: true}} }

func Bottom() Itv { return Itv{Bot: true} }

func ConstItv(r *big.Rat) Itv {
	return Itv{lo: end{v: r}, hi: end{v: r}, Int: r.IsInt()}
}

func ConstInt(n int64) Itv { return ConstItv(ratInt(n)) }

// Range builds [lo,hi]; nil means unbounded on that side.
func Range(lo, hi *big.Rat, loOpen, hiOpen bool) Itv {
	it := Top()
	if lo != nil {
		it.lo = end{v: lo, open: loOpen}
	}
	if hi != nil {
		it.hi = end{v: hi, open: hiOpen}
	}
	return it
}

func NonNeg() Itv { return Range(ratInt(0), nil, false, false) }
func Pos() Itv    { return Range(ratInt(0), nil, true, false) }

func (e end) String() string {
	switch e.inf {
	case -1:
		return "-inf"
	case 1:
		return "+inf"
	}
	return e.v.RatString()
}

func (a Itv) String() string {
	if a.Bot {
		return "⊥"
	}
	l, r := "[", "]"
	if a.lo.open {
		l = "("
	}
	if a.hi.open {
		r = ")"
	}
	s := fmt.Sprintf("%s%s, %s%s", l, a.lo, a.hi, r)
	if a.Int {
		s += "ℤ"
	}
	return s
}

// cmpEnd compares two endpoint positions (ignoring openness).
func cmpEnd(a, b end) int {
	if a.inf != 0 || b.inf != 0 {
		switch {
		case a.inf == b.inf:
			return 0
		case a.inf < b.inf:
			return -1
		default:
			return 1
		}
	}
	return a.v.Cmp(b.v)
}

func minLo(a, b end) end {
	c := cmpEnd(a, b)
	if c < 0 {
		return a
	}
	if c > 0 {
		return b
	}
	a.open = a.open && b.open
	return a
}

func maxHi(a, b end) end {
	c := cmpEnd(a, b)
	if c > 0 {
		return a
	}
	if c < 0 {
		return b
	}
	a.open = a.open && b.open
	return a
}

func maxLo(a, b end) end { // tighter lower bound
	c := cmpEnd(a, b)
	if c > 0 {
		return a
	}
	if c < 0 {
		return b
	}
	a.open = a.open || b.open
	return a
}

func minHi(a, b end) end { // tighter upper bound
	c := cmpEnd(a, b)
	if c < 0 {
		return a
	}
	if c > 0 {
		return b
	}
	a.open = a.open || b.open
	return a
}

func (a Itv) Join(b Itv) Itv {
	if a.Bot {
		return b
	}
	if b.Bot {
		return a
	}
	return Itv{lo: minLo(a.lo, b.lo), hi: maxHi(a.hi, b.hi), Int: a.Int && b.Int, NZ: a.NonZero() && b.NonZero()}
}

func (a Itv) Meet(b Itv) Itv {
	if a.Bot || b.Bot {
		return Bottom()
	}
	r := Itv{lo: maxLo(a.lo, b.lo), hi: minHi(a.hi, b.hi), Int: a.Int || b.Int, NZ: a.NZ || b.NZ}
	if r.NZ {
		// a zero endpoint is excluded
		if r.lo.inf == 0 && r.lo.v.Sign() == 0 {
			r.lo.open = true
		}
		if r.hi.inf == 0 && r.hi.v.Sign() == 0 {
			r.hi.open = true
		}
	}
	c := cmpEnd(r.lo, r.hi)
	if c > 0 || (c == 0 && (r.lo.open || r.hi.open) && r.lo.inf == 0) {
		return Bottom()
	}
	return r
}

func (a Itv) Eq(b Itv) bool {
	if a.Bot || b.Bot {
		return a.Bot == b.Bot
	}
	return cmpEnd(a.lo, b.lo) == 0 && cmpEnd(a.hi, b.hi) == 0 && a.lo.open == b.lo.open && a.hi.open == b.hi.open && a.Int == b.Int
}

// sign queries (must-facts; ⊥ satisfies everything)
func (a Itv) GE0() bool { return a.Bot || (a.lo.inf == 0 && a.lo.v.Sign() >= 0) }
func (a Itv) GT0() bool {
	return a.Bot || (a.lo.inf == 0 && (a.lo.v.Sign() > 0 || (a.lo.v.Sign() == 0 && a.lo.open)))
}
func (a Itv) LE0() bool { return a.Bot || (a.hi.inf == 0 && a.hi.v.Sign() <= 0) }
func (a Itv) LT0() bool {
	return a.Bot || (a.hi.inf == 0 && (a.hi.v.Sign() < 0 || (a.hi.v.Sign() == 0 && a.hi.open)))
}
func (a Itv) NonZero() bool { return a.NZ || a.GT0() || a.LT0() }

// LEc: every value ≤ c ; GEc: every value ≥ c
func (a Itv) LEc(c *big.Rat) bool { return a.Bot || (a.hi.inf == 0 && a.hi.v.Cmp(c) <= 0) }
func (a Itv) GEc(c *big.Rat) bool { return a.Bot || (a.lo.inf == 0 && a.lo.v.Cmp(c) >= 0) }
func (a Itv) LTc(c *big.Rat) bool {
	return a.Bot || (a.hi.inf == 0 && (a.hi.v.Cmp(c) < 0 || (a.hi.v.Cmp(c) == 0 && a.hi.open)))
}
func (a Itv) GTc(c *big.Rat) bool {
	return a.Bot || (a.lo.inf == 0 && (a.lo.v.Cmp(c) > 0 || (a.lo.v.Cmp(c) == 0 && a.lo.open)))
}
func (a Itv) In01() bool { return a.GE0() && a.LEc(ratInt(1)) }

// IsConst reports a single point.
func (a Itv) IsConst() (*big.Rat, bool) {
	if a.Bot || a.lo.inf != 0 || a.hi.inf != 0 || a.lo.open || a.hi.open || a.lo.v.Cmp(a.hi.v) != 0 {
		return nil, false
	}
	return a.lo.v, true
}

func (a Itv) Neg() Itv {
	if a.Bot {
		return a
	}
	n := func(e end) end {
		if e.inf != 0 {
			return end{inf: -e.inf, open: true}
		}
		return end{v: new(big.Rat).Neg(e.v), open: e.open}
	}
	return Itv{lo: n(a.hi), hi: n(a.lo), Int: a.Int, NZ: a.NZ}
}

func addEnd(a, b end) end {
	if a.inf != 0 {
		return end{inf: a.inf, open: true}
	}
	if b.inf != 0 {
		return end{inf: b.inf, open: true}
	}
	return end{v: new(big.Rat).Add(a.v, b.v), open: a.open || b.open}
}

func (a Itv) Add(b Itv) Itv {
	if a.Bot || b.Bot {
		return Bottom()
	}
	return Itv{lo: addEnd(a.lo, b.lo), hi: addEnd(a.hi, b.hi), Int: a.Int && b.Int}
}

func (a Itv) Sub(b Itv) Itv { return a.Add(b.Neg()) }

func mulEnd(a, b end) end {
	az := a.inf == 0 && a.v.Sign() == 0
	bz := b.inf == 0 && b.v.Sign() == 0
	if az || bz {
		// 0 · anything = 0 ; closed only when the zero endpoint itself is closed
		open := (az && a.open) || (bz && b.open)
		if az && !a.open || bz && !b.open {
			open = false
		}
		return end{v: ratInt(0), open: open}
	}
	sa, sb := a.inf, b.inf
	if sa == 0 {
		sa = a.v.Sign()
	}
	if sb == 0 {
		sb = b.v.Sign()
	}
	if a.inf != 0 || b.inf != 0 {
		return end{inf: sa * sb, open: true}
	}
	return end{v: new(big.Rat).Mul(a.v, b.v), open: a.open || b.open}
}

func (a Itv) Mul(b Itv) Itv {
	if a.Bot || b.Bot {
		return Bottom()
	}
	c := []end{mulEnd(a.lo, b.lo), mulEnd(a.lo, b.hi), mulEnd(a.hi, b.lo), mulEnd(a.hi, b.hi)}
	lo, hi := c[0], c[0]
	for _, e := range c[1:] {
		lo = minLo(lo, e)
		hi = maxHi(hi, e)
	}
	return Itv{lo: lo, hi: hi, Int: a.Int && b.Int, NZ: a.NonZero() && b.NonZero()}
}

// Inv is 1/a; defined only when a excludes zero, otherwise Top (the caller decides whether
// a possible division by zero matters).
func (a Itv) Inv() (Itv, bool) {
	if a.Bot {
		return a, true
	}
	if !a.NonZero() {
		return Top(), false
	}
	if !a.GT0() && !a.LT0() {
		r := Top()
		r.NZ = true
		return r, true // non-zero but of unknown sign: defined, unbounded
	}
	inv := func(e end, towardZeroFromPos bool) end {
		if e.inf != 0 {
			return end{v: ratInt(0), open: true}
		}
		if e.v.Sign() == 0 {
			if towardZeroFromPos {
				return end{inf: 1, open: true}
			}
			return end{inf: -1, open: true}
		}
		return end{v: new(big.Rat).Inv(e.v), open: e.open}
	}
	if a.GT0() {
		return Itv{lo: inv(a.hi, true), hi: inv(a.lo, true)}, true
	}
	return Itv{lo: inv(a.hi, false), hi: inv(a.lo, false)}, true
}

func (a Itv) Quo(b Itv) (Itv, bool) {
	ib, ok := b.Inv()
	if !ok {
		return Top(), false
	}
	r := a.Mul(ib)
	r.Int = false
	return r, true
}

// Trunc is truncation toward zero; Ceil rounds up; both yield integral values.
func (a Itv) Trunc() Itv {
	if a.Bot {
		return a
	}
	r := Top()
	r.Int = true
	if a.GE0() {
		r.lo = end{v: ratInt(0)}
		r.hi = a.hi
		r.hi.open = false
	} else if a.LE0() {
		r.hi = end{v: ratInt(0)}
		r.lo = a.lo
		r.lo.open = false
	} else {
		r.lo, r.hi = a.lo, a.hi
		r.lo.open, r.hi.open = false, false
	}
	if r.lo.inf != 0 {
		r.lo.open = true
	}
	if r.hi.inf != 0 {
		r.hi.open = true
	}
	return r
}

func (a Itv) Ceil() Itv {
	if a.Bot {
		return a
	}
	r := Top()
	r.Int = true
	if a.lo.inf == 0 {
		r.lo = a.lo // ceil(x) ≥ x
	}
	if a.hi.inf == 0 {
		r.hi = end{v: new(big.Rat).Add(a.hi.v, ratInt(1)), open: true} // ceil(x) < x+1
	}
	return r
}

func (a Itv) Abs() Itv {
	if a.Bot || a.GE0() {
		return a
	}
	if a.LE0() {
		return a.Neg()
	}
	n := a.Neg()
	r := Itv{lo: end{v: ratInt(0)}, hi: maxHi(a.hi, n.hi), Int: a.Int}
	return r
}

// refinements by a comparison with another interval
func (a Itv) RefineLT(b Itv) Itv { // a < b
	if b.Bot || b.hi.inf != 0 {
		return a
	}
	return a.Meet(Itv{lo: end{inf: -1, open: true}, hi: end{v: b.hi.v, open: true}})
}
func (a Itv) RefineLE(b Itv) Itv {
	if b.Bot || b.hi.inf != 0 {
		return a
	}
	return a.Meet(Itv{lo: end{inf: -1, open: true}, hi: end{v: b.hi.v, open: b.hi.open}})
}
func (a Itv) RefineGT(b Itv) Itv {
	if b.Bot || b.lo.inf != 0 {
		return a
	}
	return a.Meet(Itv{lo: end{v: b.lo.v, open: true}, hi: end{inf: 1, open: true}})
}
func (a Itv) RefineGE(b Itv) Itv {
	if b.Bot || b.lo.inf != 0 {
		return a
	}
	return a.Meet(Itv{lo: end{v: b.lo.v, open: b.lo.open}, hi: end{inf: 1, open: true}})
}
func (a Itv) RefineNE0() Itv { // a != 0: only useful at a closed zero endpoint
	if a.Bot {
		return a
	}
	if a.lo.inf == 0 && a.lo.v.Sign() == 0 {
		a.lo.open = true
	}
	if a.hi.inf == 0 && a.hi.v.Sign() == 0 {
		a.hi.open = true
	}
	a.NZ = true
	return a
}
