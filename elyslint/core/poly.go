package core

import (
	"fmt"
	"os"
	"go/constant"
	"go/token"
	"math/big"
	"sort"
	"strings"

	"golang.org/x/tools/go/ssa"
)

// Poly is a polynomial normal form with rational coefficients over opaque leaves (DESIGN
// §1.6, generalising Lin): sums, differences, negation, products, multiplication and
// division by constants, the Int↔Dec conversions (identities), coin wrapping/projection and
// named package-level constants are normalised away, so that two expressions that compute
// the same quantity by algebraically equal routes get the same form.  Rounding conversions
// (TruncateInt, RoundInt, Ceil), integer division, Min/Max and anything else are opaque
// leaves named by their operator and the normal form of their operands.  LegacyDec's
// 18-digit rounding is not modelled.
type Poly struct {
	T     map[string]*big.Rat  // canonical monomial → coefficient ("" is the constant term)
	Leaf  map[string]ssa.Value // leaf key → a representative SSA value
	Opq   map[string]*Opaque   // opaque leaves: operator and operand forms
	Exact bool                 // false when something could not be interpreted (still a valid key)
}

// Opaque is a non-polynomial operator applied to normal forms (Trunc, Round, Ceil, Min, Max, Abs).
type Opaque struct {
	Op   string
	Args []*Poly
}

func newPoly() *Poly {
	return &Poly{T: map[string]*big.Rat{}, Leaf: map[string]ssa.Value{}, Opq: map[string]*Opaque{}, Exact: true}
}

func polyConst(r *big.Rat) *Poly {
	p := newPoly()
	if r.Sign() != 0 {
		p.T[""] = new(big.Rat).Set(r)
	}
	return p
}

// ConstPoly is the constant polynomial r.
func ConstPoly(r *big.Rat) *Poly { return polyConst(r) }

func polyLeaf(key string, v ssa.Value) *Poly {
	p := newPoly()
	p.T[key] = big.NewRat(1, 1)
	p.Leaf[key] = v
	return p
}

// Clone returns a deep copy.
func (p *Poly) Clone() *Poly { return p.clone() }

func (p *Poly) clone() *Poly {
	q := newPoly()
	for k, c := range p.T {
		q.T[k] = new(big.Rat).Set(c)
	}
	for k, v := range p.Leaf {
		q.Leaf[k] = v
	}
	for k, v := range p.Opq {
		q.Opq[k] = v
	}
	q.Exact = p.Exact
	return q
}

func (p *Poly) addScaled(o *Poly, k *big.Rat) *Poly {
	r := p.clone()
	for m, c := range o.T {
		d := new(big.Rat).Mul(c, k)
		if old, ok := r.T[m]; ok {
			d.Add(d, old)
		}
		if d.Sign() == 0 {
			delete(r.T, m)
		} else {
			r.T[m] = d
		}
	}
	for k, v := range o.Leaf {
		r.Leaf[k] = v
	}
	for k, v := range o.Opq {
		r.Opq[k] = v
	}
	r.Exact = p.Exact && o.Exact
	return r
}

func (p *Poly) Add(o *Poly) *Poly { return p.addScaled(o, big.NewRat(1, 1)) }
func (p *Poly) Sub(o *Poly) *Poly { return p.addScaled(o, big.NewRat(-1, 1)) }
func (p *Poly) Neg() *Poly        { return newPoly().addScaled(p, big.NewRat(-1, 1)) }
func (p *Poly) IsZero() bool      { return len(p.T) == 0 }
func (p *Poly) Equal(o *Poly) bool {
	return p.Sub(o).IsZero()
}

// monomials are "a*b*b/c/d": sorted numerator factors, then sorted denominator factors
// internal separators (leaf keys may contain any printable character)
const (
	sepMul = "\x1f"
	sepDiv = "\x1e"
)

func splitMono(m string) (num, den []string) {
	if m == "" {
		return nil, nil
	}
	parts := strings.Split(m, sepDiv)
	if parts[0] != "1" && parts[0] != "" {
		num = strings.Split(parts[0], sepMul)
	}
	den = parts[1:]
	return
}

func showMono(m string) string {
	return strings.ReplaceAll(strings.ReplaceAll(m, sepMul, "·"), sepDiv, "/")
}

func joinMono(num, den []string) string {
	// cancel common factors
	sort.Strings(num)
	sort.Strings(den)
	var n2, d2 []string
	i, j := 0, 0
	for i < len(num) && j < len(den) {
		switch {
		case num[i] == den[j]:
			i++
			j++
		case num[i] < den[j]:
			n2 = append(n2, num[i])
			i++
		default:
			d2 = append(d2, den[j])
			j++
		}
	}
	n2 = append(n2, num[i:]...)
	d2 = append(d2, den[j:]...)
	if len(n2) == 0 && len(d2) == 0 {
		return ""
	}
	s := "1"
	if len(n2) > 0 {
		s = strings.Join(n2, sepMul)
	}
	for _, d := range d2 {
		s += sepDiv + d
	}
	return s
}

func (p *Poly) Mul(o *Poly) *Poly {
	r := newPoly()
	for m1, c1 := range p.T {
		n1, d1 := splitMono(m1)
		for m2, c2 := range o.T {
			n2, d2 := splitMono(m2)
			m := joinMono(append(append([]string{}, n1...), n2...), append(append([]string{}, d1...), d2...))
			c := new(big.Rat).Mul(c1, c2)
			if old, ok := r.T[m]; ok {
				c.Add(c, old)
			}
			if c.Sign() == 0 {
				delete(r.T, m)
			} else {
				r.T[m] = c
			}
		}
	}
	for k, v := range p.Leaf {
		r.Leaf[k] = v
	}
	for k, v := range o.Leaf {
		r.Leaf[k] = v
	}
	for k, v := range p.Opq {
		r.Opq[k] = v
	}
	for k, v := range o.Opq {
		r.Opq[k] = v
	}
	r.Exact = p.Exact && o.Exact
	return r
}

// Quo divides by o when o is a single monomial (a constant, a leaf, a product); otherwise
// the quotient becomes an opaque leaf.
func (p *Poly) Quo(o *Poly, v ssa.Value) *Poly {
	if len(o.T) == 1 {
		for m, c := range o.T {
			n, d := splitMono(m)
			inv := newPoly()
			inv.T[joinMono(d, n)] = new(big.Rat).Inv(c)
			for k, lv := range o.Leaf {
				inv.Leaf[k] = lv
			}
			for k, lv := range o.Opq {
				inv.Opq[k] = lv
			}
			inv.Exact = o.Exact
			return p.Mul(inv)
		}
	}
	return polyLeaf("("+p.String()+")/("+o.String()+")", v)
}

func (p *Poly) String() string {
	if len(p.T) == 0 {
		return "0"
	}
	var ks []string
	for k := range p.T {
		ks = append(ks, k)
	}
	sort.Strings(ks)
	var sb strings.Builder
	for i, k := range ks {
		c := p.T[k]
		if i > 0 {
			sb.WriteString(" + ")
		}
		switch {
		case k == "":
			sb.WriteString(c.RatString())
		case c.Cmp(big.NewRat(1, 1)) == 0:
			sb.WriteString(showMono(k))
		default:
			sb.WriteString(c.RatString() + "·" + showMono(k))
		}
	}
	return sb.String()
}

// Rename maps every leaf through f (classification into named roles) and re-normalises;
// ok is false when some leaf has no role.
func (p *Poly) Rename(f func(key string, v ssa.Value) (string, bool)) (*Poly, bool) {
	r := newPoly()
	r.Exact = p.Exact
	okAll := true
	role := map[string]string{}
	for k, v := range p.Leaf {
		if oq, isOpq := p.Opq[k]; isOpq {
			// rename inside the operator's operands and rebuild the canonical key
			var args []*Poly
			okArgs := true
			for _, a := range oq.Args {
				ra, ok := a.Rename(f)
				okArgs = okArgs && ok
				args = append(args, ra)
			}
			if okArgs {
				np := MakeOpaque(oq.Op, v, args...)
				for nk := range np.T {
					role[k] = nk
					r.Opq[nk] = np.Opq[nk]
					r.Leaf[nk] = v
				}
				continue
			}
		}
		if n, ok := f(k, v); ok {
			role[k] = n
		} else {
			// an unclassified leaf keeps its key, value and operator
			r.Leaf[k] = v
			if oq, isOpq := p.Opq[k]; isOpq {
				r.Opq[k] = oq
			}
		}
	}
	for m, c := range p.T {
		n, d := splitMono(m)
		mapAll := func(xs []string) []string {
			out := make([]string, len(xs))
			for i, x := range xs {
				if rn, ok := role[x]; ok {
					out[i] = rn
				} else {
					out[i] = x
					okAll = false
				}
			}
			return out
		}
		nm := joinMono(mapAll(n), mapAll(d))
		cc := new(big.Rat).Set(c)
		if old, ok := r.T[nm]; ok {
			cc.Add(cc, old)
		}
		if cc.Sign() == 0 {
			delete(r.T, nm)
		} else {
			r.T[nm] = cc
		}
	}
	return r, okAll
}

// ParsePoly reads "TV - BAL + 9/10*TV*X/Y" (role names, rational coefficients).
func ParsePoly(s string) *Poly {
	p := newPoly()
	s = strings.ReplaceAll(s, " ", "")
	s = strings.ReplaceAll(s, "-", "+-")
	for _, term := range strings.Split(s, "+") {
		if term == "" {
			continue
		}
		sign := int64(1)
		if strings.HasPrefix(term, "-") {
			sign = -1
			term = term[1:]
		}
		coeff := big.NewRat(sign, 1)
		var num, den []string
		// split on * and / keeping the operator
		cur, op := "", byte('*')
		flush := func() {
			if cur == "" {
				return
			}
			if r, ok := new(big.Rat).SetString(cur); ok {
				if op == '*' {
					coeff.Mul(coeff, r)
				} else {
					coeff.Quo(coeff, r)
				}
			} else if op == '*' {
				num = append(num, cur)
			} else {
				den = append(den, cur)
			}
			cur = ""
		}
		for i := 0; i < len(term); i++ {
			if term[i] == '*' || term[i] == '/' {
				flush()
				op = term[i]
				continue
			}
			cur += string(term[i])
		}
		flush()
		m := joinMono(num, den)
		if old, ok := p.T[m]; ok {
			coeff.Add(coeff, old)
		}
		if coeff.Sign() == 0 {
			delete(p.T, m)
		} else {
			p.T[m] = coeff
		}
	}
	return p
}

// ProportionalTo reports p == k·q for a positive rational k.
func (p *Poly) ProportionalTo(q *Poly) bool {
	if len(p.T) != len(q.T) || len(p.T) == 0 {
		return false
	}
	var k *big.Rat
	for m, c := range p.T {
		d, ok := q.T[m]
		if !ok {
			return false
		}
		r := new(big.Rat).Quo(c, d)
		if k == nil {
			k = r
		} else if k.Cmp(r) != 0 {
			return false
		}
	}
	return k != nil && k.Sign() > 0
}

// PolyOf computes the polynomial normal form of a numeric / coin value.
func (ff *FuncFacts) PolyOf(v ssa.Value) *Poly { return ff.poly(v, 0) }

func (ff *FuncFacts) polyLeafOf(v ssa.Value) *Poly {
	return polyLeaf(ff.termKey(v), v)
}

func (ff *FuncFacts) opaque(op string, v ssa.Value, args ...*Poly) *Poly {
	var as []string
	exact := true
	for _, a := range args {
		as = append(as, a.String())
		exact = exact && a.Exact
	}
	if op == "Min" || op == "Max" {
		sort.Strings(as)
	}
	if (op == "Trunc" || op == "Round" || op == "Ceil") && len(args) == 1 && len(args[0].T) == 1 {
		// rounding an already integral value is the identity
		for m, c := range args[0].T {
			if c.Cmp(big.NewRat(1, 1)) == 0 && (strings.HasPrefix(m, "Trunc(") || strings.HasPrefix(m, "Round(") || strings.HasPrefix(m, "Ceil(")) && !strings.ContainsAny(m, sepMul+sepDiv) {
				return args[0]
			}
		}
	}
	p := MakeOpaque(op, v, args...)
	p.Exact = exact
	return p
}

// MakeOpaque builds the opaque leaf op(args…) with its canonical key.
func MakeOpaque(op string, v ssa.Value, args ...*Poly) *Poly {
	var as []string
	for _, a := range args {
		as = append(as, a.String())
	}
	if op == "Min" || op == "Max" {
		sort.Strings(as)
	}
	key := op + "(" + strings.Join(as, ",") + ")"
	p := polyLeaf(key, v)
	p.Opq[key] = &Opaque{Op: op, Args: args}
	return p
}

// globalInit returns the value a package-level variable is initialised with when that is
// its only store in the whole package (a named constant in all but keyword).
// GlobalInit exposes globalInit.
func (ff *FuncFacts) GlobalInit(g *ssa.Global) ssa.Value { return ff.globalInit(g) }

func (ff *FuncFacts) globalInit(g *ssa.Global) ssa.Value {
	pkg := g.Pkg
	if pkg == nil {
		return nil
	}
	var val ssa.Value
	n := 0
	for _, m := range pkg.Members {
		fn, ok := m.(*ssa.Function)
		if !ok {
			continue
		}
		var fns []*ssa.Function
		fns = append(fns, fn)
		fns = append(fns, fn.AnonFuncs...)
		for _, f := range fns {
			for _, b := range f.Blocks {
				for _, in := range b.Instrs {
					if st, ok := in.(*ssa.Store); ok && st.Addr == ssa.Value(g) {
						n++
						if f.Name() == "init" {
							val = st.Val
						} else {
							return nil
						}
					}
				}
			}
		}
	}
	if os.Getenv("ELYSLINT_POLY_DEBUG") != "" {
		fmt.Fprintf(os.Stderr, "globalInit %s: stores=%d val=%v members=%d\n", g.Name(), n, val, len(pkg.Members))
	}
	if n == 1 {
		return val
	}
	return nil
}

// poly is memoised per value while no rule-specific LeafKey is installed: the result
// is a pure function of both once the facts are solved, and nests of φs are otherwise
// re-expanded exponentially often (C14's cancel rule took 50 s on one function).
func (ff *FuncFacts) poly(v ssa.Value, depth int) *Poly {
	if v == nil {
		return polyLeaf("?nil", nil)
	}
	if ff.LeafKey == nil && ff.in != nil {
		// a result computed with at least as much remaining depth budget is reused (depth only
		// matters at the expansion cut-offs, where more budget means a more precise form)
		k := polyMemoKey{v}
		if r, ok := ff.polyMemo[k]; ok && r.depth <= depth {
			return r.p
		}
		r := ff.poly0(v, depth)
		if ff.polyMemo == nil {
			ff.polyMemo = map[polyMemoKey]polyMemoVal{}
		}
		ff.polyMemo[k] = polyMemoVal{r, depth}
		return r
	}
	return ff.poly0(v, depth)
}

func (ff *FuncFacts) poly0(v ssa.Value, depth int) *Poly {
	if depth > 40 {
		return ff.polyLeafOf(v)
	}
	if ff.LeafKey != nil {
		if k, ok := ff.LeafKey(v); ok {
			return polyLeaf(k, v)
		}
	}
	v = ff.Fwd(v)
	rec := func(x ssa.Value) *Poly { return ff.poly(x, depth+1) }
	switch x := v.(type) {
	case *ssa.Const:
		if x.Value != nil {
			switch x.Value.Kind() {
			case constant.Int, constant.Float:
				if r, ok := new(big.Rat).SetString(x.Value.ExactString()); ok {
					return polyConst(r)
				}
			case constant.String:
				if r, ok := new(big.Rat).SetString(constant.StringVal(x.Value)); ok {
					return polyConst(r)
				}
			}
		}
	case *ssa.Convert:
		return rec(x.X)
	case *ssa.ChangeType:
		return rec(x.X)
	case *ssa.Slice:
		// a coins literal / variadic argument: the sum of its elements
		if els, ok := SliceLiteral(x); ok {
			sum := newPoly()
			for _, e := range els {
				sum = sum.Add(rec(e))
			}
			return sum
		}
	case *ssa.Phi:
		if depth < 20 {
			if mm := ff.phiMinMax(x, depth); mm != nil {
				return mm
			}
			if acc := ff.phiAccumulator(x, depth); acc != nil {
				return acc
			}
			if rm := ff.phiRunningMinMax(x, depth); rm != nil {
				return rm
			}
		}
	case *ssa.BinOp:
		switch x.Op {
		case token.ADD:
			return rec(x.X).Add(rec(x.Y))
		case token.SUB:
			return rec(x.X).Sub(rec(x.Y))
		case token.MUL:
			return rec(x.X).Mul(rec(x.Y))
		}
	case *ssa.Field:
		if fieldName(x.X.Type(), x.Field) == "Amount" && isCoinType(x.X.Type()) {
			return rec(x.X)
		}
	case *ssa.UnOp:
		if x.Op == token.SUB {
			return rec(x.X).Neg()
		}
		if x.Op == token.MUL {
			// a coin assembled field by field (sdk.Coin{Denom: d, Amount: a}) is its amount
			if isCoinType(x.Type()) {
				if m, ok := ff.agg[x]; ok {
					if av, ok := m[".Amount"]; ok && av != nil && av != unknownValue {
						return rec(av)
					}
				}
			}
			if g, ok := x.X.(*ssa.Global); ok {
				if iv := ff.globalInit(g); iv != nil {
					// evaluated in the init function's own facts
					if fn := iv.Parent(); fn != nil && ff.P != nil {
						return ff.P.Facts(fn).poly(iv, depth+1)
					}
				}
			}
			if fa, ok := x.X.(*ssa.FieldAddr); ok && fieldName(fa.X.Type(), fa.Field) == "Amount" && isCoinType(fa.X.Type()) {
				if ld := ff.loadOfAddr(fa.X); ld != nil {
					return rec(ld)
				}
			}
			if r, ok := ff.fwd[x]; ok && len(r.Rest) == 1 {
				if fieldName(r.V.Type(), r.Rest[0]) == "Amount" && isCoinType(r.V.Type()) {
					return rec(r.V)
				}
			}
		}
	case *ssa.Call:
		cc := x.Common()
		if cc.IsInvoke() {
			break
		}
		// the builtin min/max on integers
		if b, ok := cc.Value.(*ssa.Builtin); ok && (b.Name() == "min" || b.Name() == "max") && len(cc.Args) == 2 {
			return ff.opaque(strings.ToUpper(b.Name()[:1])+b.Name()[1:], v, rec(cc.Args[0]), rec(cc.Args[1]))
		}
		sc := cc.StaticCallee()
		if sc == nil {
			break
		}
		mn := mathName(sc)
		a := cc.Args
		switch mn {
		case "LegacyZeroDec", "ZeroInt", "ZeroUint":
			return polyConst(big.NewRat(0, 1))
		case "LegacyOneDec", "OneInt", "OneUint":
			return polyConst(big.NewRat(1, 1))
		case "NewInt", "LegacyNewDec", "NewIntFromUint64", "NewUint", "LegacyNewDecFromInt", "Int.ToLegacyDec", "LegacyNewDecFromBigInt", "NewIntFromBigInt", "Int.BigInt", "Int.Int64", "Int.Uint64":
			return rec(a[0])
		case "LegacyNewDecWithPrec":
			pv, pp := rec(a[0]), rec(a[1])
			if c, ok := pp.T[""]; ok && len(pp.T) == 1 && c.IsInt() && len(pv.T) <= 1 {
				den := new(big.Int).Exp(big.NewInt(10), c.Num(), nil)
				return pv.Mul(polyConst(new(big.Rat).SetFrac(big.NewInt(1), den)))
			}
		case "LegacyMustNewDecFromStr":
			pv := rec(a[0])
			if _, ok := pv.T[""]; ok && len(pv.T) == 1 {
				return pv
			}
		case "Dec.Add", "Int.Add", "Int.AddRaw", "Uint.Add":
			return rec(a[0]).Add(rec(a[1]))
		case "Dec.Sub", "Int.Sub", "Int.SubRaw", "Uint.Sub":
			return rec(a[0]).Sub(rec(a[1]))
		case "Dec.Neg", "Int.Neg":
			return rec(a[0]).Neg()
		case "Dec.Mul", "Dec.MulInt", "Dec.MulInt64", "Int.Mul", "Int.MulRaw", "Uint.Mul", "Dec.MulTruncate", "Dec.MulRoundUp":
			return rec(a[0]).Mul(rec(a[1]))
		case "Dec.Quo", "Dec.QuoInt", "Dec.QuoInt64", "Dec.QuoTruncate", "Dec.QuoRoundUp":
			return rec(a[0]).Quo(rec(a[1]), v)
		case "Int.Quo", "Int.QuoRaw", "Uint.Quo":
			return ff.opaque("Trunc", v, rec(a[0]).Quo(rec(a[1]), v))
		case "Dec.TruncateInt", "Dec.TruncateDec", "Dec.TruncateInt64":
			return ff.opaque("Trunc", v, rec(a[0]))
		case "Dec.RoundInt", "Dec.RoundInt64":
			return ff.opaque("Round", v, rec(a[0]))
		case "Dec.Ceil":
			return ff.opaque("Ceil", v, rec(a[0]))
		case "Dec.Abs", "Int.Abs":
			return ff.opaque("Abs", v, rec(a[0]))
		case "LegacyMinDec", "MinInt":
			return ff.opaque("Min", v, rec(a[0]), rec(a[1]))
		case "LegacyMaxDec", "MaxInt":
			return ff.opaque("Max", v, rec(a[0]), rec(a[1]))
		case "NewCoin", "NewInt64Coin":
			return rec(a[1])
		}
		if p := fnPkg(sc); p != nil && strings.HasSuffix(p.Path(), "cosmos-sdk/types") {
			switch sc.Name() {
			case "AddAmount":
				return rec(a[0]).Add(rec(a[1]))
			case "SubAmount":
				return rec(a[0]).Sub(rec(a[1]))
			}
		}
	}
	return ff.polyLeafOf(v)
}

var _ = fmt.Sprintf

// ParseExpr reads an expected form with role names, rational numbers, + - * /, parentheses
// and the opaque operators: "Trunc(TOTAL*Min(HEIGHT-START,N)/N)".
func ParseExpr(src string) *Poly {
	ps := &exprParser{s: strings.ReplaceAll(src, " ", "")}
	p := ps.expr()
	return p
}

type exprParser struct {
	s string
	i int
}

func (ps *exprParser) peek() byte {
	if ps.i < len(ps.s) {
		return ps.s[ps.i]
	}
	return 0
}

func (ps *exprParser) expr() *Poly {
	p := ps.term()
	for ps.peek() == '+' || ps.peek() == '-' {
		op := ps.peek()
		ps.i++
		q := ps.term()
		if op == '+' {
			p = p.Add(q)
		} else {
			p = p.Sub(q)
		}
	}
	return p
}

func (ps *exprParser) term() *Poly {
	p := ps.factor()
	for ps.peek() == '*' || ps.peek() == '/' {
		op := ps.peek()
		ps.i++
		q := ps.factor()
		if op == '*' {
			p = p.Mul(q)
		} else {
			p = p.Quo(q, nil)
		}
	}
	return p
}

func (ps *exprParser) factor() *Poly {
	switch c := ps.peek(); {
	case c == '-':
		ps.i++
		return ps.factor().Neg()
	case c == '(':
		ps.i++
		p := ps.expr()
		ps.i++ // ')'
		return p
	case c >= '0' && c <= '9':
		j := ps.i
		for ps.i < len(ps.s) && (ps.s[ps.i] >= '0' && ps.s[ps.i] <= '9' || ps.s[ps.i] == '.') {
			ps.i++
		}
		r, _ := new(big.Rat).SetString(ps.s[j:ps.i])
		return polyConst(r)
	}
	j := ps.i
	for ps.i < len(ps.s) && (ps.s[ps.i] == '_' || ps.s[ps.i] == '@' || ps.s[ps.i] >= 'A' && ps.s[ps.i] <= 'Z' || ps.s[ps.i] >= 'a' && ps.s[ps.i] <= 'z' || ps.s[ps.i] >= '0' && ps.s[ps.i] <= '9') {
		ps.i++
	}
	name := ps.s[j:ps.i]
	if ps.peek() == '(' {
		ps.i++
		var args []*Poly
		for {
			args = append(args, ps.expr())
			if ps.peek() == ',' {
				ps.i++
				continue
			}
			break
		}
		ps.i++ // ')'
		return MakeOpaque(name, nil, args...)
	}
	return polyLeaf(name, nil)
}

// phiMinMax recognises the clamp `x := a; if a > b { x = b }` (in any of its spellings) as
// Min(a, b) / Max(a, b): a two-valued φ whose a-edge carries a ≤ b and whose b-edge b ≤ a.
func (ff *FuncFacts) phiMinMax(ph *ssa.Phi, depth int) *Poly {
	if ff.in == nil {
		return nil
	}
	type ed struct {
		v  ssa.Value
		fs []*Atom
	}
	var eds []ed
	var vals []ssa.Value
	for i, e := range ph.Edges {
		pred := ph.Block().Preds[i]
		if !ff.BlockReachable(pred) {
			continue
		}
		v := ff.Fwd(e)
		fs := append(append([]*Atom{}, ff.OutFacts(pred)...), ff.EdgeFacts(pred, ph.Block())...)
		eds = append(eds, ed{v, fs})
		known := false
		for _, x := range vals {
			if x == v {
				known = true
			}
		}
		if !known {
			vals = append(vals, v)
		}
	}
	if len(vals) != 2 {
		return nil
	}
	pa, pb := ff.poly(vals[0], depth+1), ff.poly(vals[1], depth+1)
	// rel(x ≤ y) on every edge delivering x
	holds := func(v ssa.Value, lo, hi *Poly) bool {
		for _, e := range eds {
			if e.v != v {
				continue
			}
			ok := false
			for _, a := range e.fs {
				if (a.Rel != LE && a.Rel != LT) || a.A == nil || a.B == nil || a.B == NilMarker {
					continue
				}
				var qa, qb *Poly
				if a.A == ZeroMarker {
					qa = newPoly()
				} else {
					qa = ff.poly(a.A, depth+1)
				}
				if a.B == ZeroMarker {
					qb = newPoly()
				} else {
					qb = ff.poly(a.B, depth+1)
				}
				if qa.Equal(lo) && qb.Equal(hi) {
					ok = true
				}
			}
			if !ok {
				return false
			}
		}
		return true
	}
	switch {
	case holds(vals[0], pa, pb) && holds(vals[1], pb, pa):
		return MakeOpaque("Min", ph, pa, pb)
	case holds(vals[0], pb, pa) && holds(vals[1], pa, pb):
		return MakeOpaque("Max", ph, pa, pb)
	}
	return nil
}

// phiAccumulator recognises a loop-carried accumulator: a φ whose incoming values are one
// initial value and, on the other edges, the φ itself plus a per-iteration amount that does
// not depend on the φ (acc = acc ± c, possibly only on some paths).  Its value at any
// moment is init + Σ c over the iterations run so far, written init + Sum[c@block]: two
// accumulators fed with the same amount in the same block differ by a constant — the loop
// invariant that makes `remaining = requested − Σ cancelled` and `cancelled = Σ cancelled`
// interchangeable.
func (ff *FuncFacts) phiAccumulator(ph *ssa.Phi, depth int) *Poly {
	if ff.accBusy == nil {
		ff.accBusy = map[*ssa.Phi]bool{}
	}
	if ff.accBusy[ph] {
		return nil
	}
	if ff.LeafKey == nil {
		if r, ok := ff.accMemo[ph]; ok {
			if r == nil {
				return nil
			}
			return r.clone()
		}
	}
	ff.accBusy[ph] = true
	defer delete(ff.accBusy, ph)
	saved := ff.LeafKey
	if saved == nil {
		if ff.accMemo == nil {
			ff.accMemo = map[*ssa.Phi]*Poly{}
		}
		ff.accMemo[ph] = nil
		defer func() {
			// filled by the return paths below through accResult
			if r, ok := ff.accResult[ph]; ok {
				ff.accMemo[ph] = r
				delete(ff.accResult, ph)
			}
		}()
	}
	defer func() { ff.LeafKey = saved }()
	selfKey := func(v ssa.Value) (string, bool) {
		if v == ssa.Value(ph) || ff.Fwd(v) == ssa.Value(ph) {
			return "@SELF", true
		}
		if saved != nil {
			return saved(v)
		}
		return "", false
	}
	ff.LeafKey = selfKey
	var init *Poly
	sums := newPoly()
	nBack := 0
	seenVal := map[ssa.Value]bool{}
	one := big.NewRat(1, 1)
	for i, e := range ph.Edges {
		pred := ph.Block().Preds[i]
		if ff.in != nil && !ff.BlockReachable(pred) {
			continue
		}
		var vals []ssa.Value
		if ff.Fwd(e) == ssa.Value(ph) {
			vals = []ssa.Value{e}
		} else {
			for _, c := range ff.CasesOf(e, nil, 3) {
				vals = append(vals, c.Val)
			}
		}
		for _, v := range vals {
			if seenVal[ff.Fwd(v)] {
				continue // the same value delivered over several edges is one update
			}
			seenVal[ff.Fwd(v)] = true
			p := ff.poly(v, depth+1)
			c, has := p.T["@SELF"]
			selfFactor := func(q *Poly) bool { // the φ as a polynomial factor (not inside an operator)
				for m := range q.T {
					if m == "@SELF" {
						continue
					}
					n, d := splitMono(m)
					for _, f := range append(n, d...) {
						if f == "@SELF" {
							return true
						}
					}
				}
				return false
			}
			if selfFactor(p) {
				return nil
			}
			if !has {
				// an initial value (it may not mention the φ at all)
				for m := range p.T {
					if strings.Contains(m, "@SELF") {
						return nil
					}
				}
				if init != nil && !init.Equal(p) {
					return nil
				}
				init = p
				continue
			}
			if c.Cmp(one) != 0 {
				return nil
			}
			nBack++
			d := p.Sub(ParsePoly("@SELF"))
			if d.IsZero() {
				continue
			}
			// the per-iteration amount in ordinary leaf names (the φ as itself): the amount
			// may well depend on the running value, e.g. Min(remaining, cap)
			ff.LeafKey = saved
			d2 := ff.poly(v, depth+1).Sub(polyLeaf(ff.termKey(ph), ph))
			ff.LeafKey = selfKey
			blk := -1
			if in, ok := ff.Fwd(v).(ssa.Instruction); ok && in.Block() != nil {
				blk = in.Block().Index
			}
			// Σ is linear: Σ(k·m) = k·Σ(m), one running sum per monomial
			for m, k := range d2.T {
				mp := newPoly()
				mp.T[m] = big.NewRat(1, 1)
				n, dd := splitMono(m)
				for _, f := range append(n, dd...) {
					if lv, ok := d2.Leaf[f]; ok {
						mp.Leaf[f] = lv
					}
					if oq, ok := d2.Opq[f]; ok {
						mp.Opq[f] = oq
					}
				}
				sums = sums.Add(MakeOpaque(fmt.Sprintf("Sum@b%d", blk), ph, mp).Mul(polyConst(k)))
			}
		}
	}
	if init == nil || nBack == 0 {
		return nil
	}
	res := init.Add(sums)
	if saved == nil {
		if ff.accResult == nil {
			ff.accResult = map[*ssa.Phi]*Poly{}
		}
		ff.accResult[ph] = res
	}
	return res
}

// phiRunningMinMax recognises a loop-carried running minimum / maximum:
//
//	m := init; for … { x := …; if x < m { m = x } }
//
// i.e. a loop-header φ whose entry edges deliver one initial value and whose back edges
// deliver either the φ itself or a value x on a path where x < φ (x ≤ φ) holds — then it
// is MinAcc(init, x) — or φ < x — MaxAcc(init, x).  One update expression per loop.
func (ff *FuncFacts) phiRunningMinMax(ph *ssa.Phi, depth int) *Poly {
	if ff.in == nil {
		return nil
	}
	hdr := ph.Block()
	var init, upd *Poly
	var kept []ValueCase
	var updVals []ssa.Value
	kind := ""
	nBack := 0
	for i, e := range ph.Edges {
		pred := hdr.Preds[i]
		if !ff.BlockReachable(pred) {
			continue
		}
		if !hdr.Dominates(pred) {
			p := ff.poly(e, depth+1)
			if init != nil && !init.Equal(p) {
				return nil
			}
			init = p
			continue
		}
		nBack++
		// the ways the back edge's value is chosen, unfolding merges inside the loop body
		// but never the loop φ itself
		var cases []ValueCase
		var unfold func(v ssa.Value, fs []*Atom, d int)
		unfold = func(v ssa.Value, fs []*Atom, d int) {
			v = ff.Fwd(v)
			in, isPhi := v.(*ssa.Phi)
			if !isPhi || in == ph || d == 0 {
				cases = append(cases, ValueCase{v, fs})
				return
			}
			for j, ie := range in.Edges {
				ip := in.Block().Preds[j]
				if !ff.BlockReachable(ip) {
					continue
				}
				nf := append(append(append([]*Atom{}, fs...), ff.OutFacts(ip)...), ff.EdgeFacts(ip, in.Block())...)
				unfold(ie, nf, d-1)
			}
		}
		unfold(e, append(append([]*Atom{}, ff.OutFacts(pred)...), ff.EdgeFacts(pred, hdr)...), 3)
		for _, c := range cases {
			v := ff.Fwd(c.Val)
			if v == ssa.Value(ph) {
				kept = append(kept, c)
				continue
			}
			updVals = append(updVals, v)
			k := ""
			for _, a := range c.Facts {
				if (a.Rel != LT && a.Rel != LE) || a.A == nil || a.B == nil {
					continue
				}
				switch {
				case ff.Fwd(a.A) == v && ff.Fwd(a.B) == ssa.Value(ph):
					k = "MinAcc"
				case ff.Fwd(a.B) == v && ff.Fwd(a.A) == ssa.Value(ph):
					k = "MaxAcc"
				}
			}
			if os.Getenv("ELYSLINT_POLY_DEBUG") != "" {
				fmt.Fprintf(os.Stderr, "runningminmax %s: case %s kind=%q facts=%d\n", ph.Name(), v, k, len(c.Facts))
				for _, a := range c.Facts {
					fmt.Fprintf(os.Stderr, "    %s\n", ff.key(a))
				}
			}
			if k == "" || (kind != "" && kind != k) {
				return nil
			}
			kind = k
			p := ff.poly(v, depth+1)
			if p.Mentions(ff.termKey(ph)) {
				return nil
			}
			if upd != nil && !upd.Equal(p) {
				return nil
			}
			upd = p
		}
	}
	if init == nil || upd == nil || nBack == 0 || kind == "" {
		return nil
	}
	// the running value is kept only when the candidate does not beat it: every way round
	// the loop that leaves the φ unchanged carries φ ≤ x (MinAcc) / x ≤ φ (MaxAcc) for the
	// candidate — a skipped element or an extra condition on the update is not a minimum
	for _, c := range kept {
		ok := false
		for _, a := range c.Facts {
			if (a.Rel != LT && a.Rel != LE) || a.A == nil || a.B == nil {
				continue
			}
			for _, x := range updVals {
				if kind == "MinAcc" && ff.Fwd(a.A) == ssa.Value(ph) && ff.Fwd(a.B) == x {
					ok = true
				}
				if kind == "MaxAcc" && ff.Fwd(a.B) == ssa.Value(ph) && ff.Fwd(a.A) == x {
					ok = true
				}
			}
		}
		if !ok {
			return nil
		}
	}
	return MakeOpaque(kind, ph, init, upd)
}
