package core

import (
	"fmt"
	"go/constant"
	"go/token"
	"math/big"
	"sort"
	"strings"

	"golang.org/x/tools/go/ssa"
)

// Poly is a polynomial normal form with rational coefficients over opaque leaves (DESIGN
// §1.6, generalising Lin): sums, differences, negation, products, multiplication and
// division by constants, the Int↔Dec conversions (identities), coin wrapping/projection and
// named package-level constants are normalised away, so that two expressions that compute
// the same quantity by algebraically equal routes get the same form.  Rounding conversions
// (TruncateInt, RoundInt, Ceil), integer division, Min/Max and anything else are opaque
// leaves named by their operator and the normal form of their operands.  LegacyDec's
// 18-digit rounding is not modelled.
type Poly struct {
	T     map[string]*big.Rat  // canonical monomial → coefficient ("" is the constant term)
	Leaf  map[string]ssa.Value // leaf key → a representative SSA value
	Exact bool                 // false when something could not be interpreted (still a valid key)
}

func newPoly() *Poly { return &Poly{T: map[string]*big.Rat{}, Leaf: map[string]ssa.Value{}, Exact: true} }

func polyConst(r *big.Rat) *Poly {
	p := newPoly()
	if r.Sign() != 0 {
		p.T[""] = new(big.Rat).Set(r)
	}
	return p
}

// ConstPoly is the constant polynomial r.
func ConstPoly(r *big.Rat) *Poly { return polyConst(r) }

func polyLeaf(key string, v ssa.Value) *Poly {
	p := newPoly()
	p.T[key] = big.NewRat(1, 1)
	p.Leaf[key] = v
	return p
}

func (p *Poly) clone() *Poly {
	q := newPoly()
	for k, c := range p.T {
		q.T[k] = new(big.Rat).Set(c)
	}
	for k, v := range p.Leaf {
		q.Leaf[k] = v
	}
	q.Exact = p.Exact
	return q
}

func (p *Poly) addScaled(o *Poly, k *big.Rat) *Poly {
	r := p.clone()
	for m, c := range o.T {
		d := new(big.Rat).Mul(c, k)
		if old, ok := r.T[m]; ok {
			d.Add(d, old)
		}
		if d.Sign() == 0 {
			delete(r.T, m)
		} else {
			r.T[m] = d
		}
	}
	for k, v := range o.Leaf {
		r.Leaf[k] = v
	}
	r.Exact = p.Exact && o.Exact
	return r
}

func (p *Poly) Add(o *Poly) *Poly { return p.addScaled(o, big.NewRat(1, 1)) }
func (p *Poly) Sub(o *Poly) *Poly { return p.addScaled(o, big.NewRat(-1, 1)) }
func (p *Poly) Neg() *Poly        { return newPoly().addScaled(p, big.NewRat(-1, 1)) }
func (p *Poly) IsZero() bool      { return len(p.T) == 0 }
func (p *Poly) Equal(o *Poly) bool {
	return p.Sub(o).IsZero()
}

// monomials are "a*b*b/c/d": sorted numerator factors, then sorted denominator factors
// internal separators (leaf keys may contain any printable character)
const (
	sepMul = "\x1f"
	sepDiv = "\x1e"
)

func splitMono(m string) (num, den []string) {
	if m == "" {
		return nil, nil
	}
	parts := strings.Split(m, sepDiv)
	if parts[0] != "1" && parts[0] != "" {
		num = strings.Split(parts[0], sepMul)
	}
	den = parts[1:]
	return
}

func showMono(m string) string {
	return strings.ReplaceAll(strings.ReplaceAll(m, sepMul, "·"), sepDiv, "/")
}

func joinMono(num, den []string) string {
	// cancel common factors
	sort.Strings(num)
	sort.Strings(den)
	var n2, d2 []string
	i, j := 0, 0
	for i < len(num) && j < len(den) {
		switch {
		case num[i] == den[j]:
			i++
			j++
		case num[i] < den[j]:
			n2 = append(n2, num[i])
			i++
		default:
			d2 = append(d2, den[j])
			j++
		}
	}
	n2 = append(n2, num[i:]...)
	d2 = append(d2, den[j:]...)
	if len(n2) == 0 && len(d2) == 0 {
		return ""
	}
	s := "1"
	if len(n2) > 0 {
		s = strings.Join(n2, sepMul)
	}
	for _, d := range d2 {
		s += sepDiv + d
	}
	return s
}

func (p *Poly) Mul(o *Poly) *Poly {
	r := newPoly()
	for m1, c1 := range p.T {
		n1, d1 := splitMono(m1)
		for m2, c2 := range o.T {
			n2, d2 := splitMono(m2)
			m := joinMono(append(append([]string{}, n1...), n2...), append(append([]string{}, d1...), d2...))
			c := new(big.Rat).Mul(c1, c2)
			if old, ok := r.T[m]; ok {
				c.Add(c, old)
			}
			if c.Sign() == 0 {
				delete(r.T, m)
			} else {
				r.T[m] = c
			}
		}
	}
	for k, v := range p.Leaf {
		r.Leaf[k] = v
	}
	for k, v := range o.Leaf {
		r.Leaf[k] = v
	}
	r.Exact = p.Exact && o.Exact
	return r
}

// Quo divides by o when o is a single monomial (a constant, a leaf, a product); otherwise
// the quotient becomes an opaque leaf.
func (p *Poly) Quo(o *Poly, v ssa.Value) *Poly {
	if len(o.T) == 1 {
		for m, c := range o.T {
			n, d := splitMono(m)
			inv := newPoly()
			inv.T[joinMono(d, n)] = new(big.Rat).Inv(c)
			for k, lv := range o.Leaf {
				inv.Leaf[k] = lv
			}
			inv.Exact = o.Exact
			return p.Mul(inv)
		}
	}
	return polyLeaf("("+p.String()+")/("+o.String()+")", v)
}

func (p *Poly) String() string {
	if len(p.T) == 0 {
		return "0"
	}
	var ks []string
	for k := range p.T {
		ks = append(ks, k)
	}
	sort.Strings(ks)
	var sb strings.Builder
	for i, k := range ks {
		c := p.T[k]
		if i > 0 {
			sb.WriteString(" + ")
		}
		switch {
		case k == "":
			sb.WriteString(c.RatString())
		case c.Cmp(big.NewRat(1, 1)) == 0:
			sb.WriteString(showMono(k))
		default:
			sb.WriteString(c.RatString() + "·" + showMono(k))
		}
	}
	return sb.String()
}

// Rename maps every leaf through f (classification into named roles) and re-normalises;
// ok is false when some leaf has no role.
func (p *Poly) Rename(f func(key string, v ssa.Value) (string, bool)) (*Poly, bool) {
	r := newPoly()
	r.Exact = p.Exact
	okAll := true
	role := map[string]string{}
	for k, v := range p.Leaf {
		if n, ok := f(k, v); ok {
			role[k] = n
		}
	}
	for m, c := range p.T {
		n, d := splitMono(m)
		mapAll := func(xs []string) []string {
			out := make([]string, len(xs))
			for i, x := range xs {
				if rn, ok := role[x]; ok {
					out[i] = rn
				} else {
					out[i] = x
					okAll = false
				}
			}
			return out
		}
		nm := joinMono(mapAll(n), mapAll(d))
		cc := new(big.Rat).Set(c)
		if old, ok := r.T[nm]; ok {
			cc.Add(cc, old)
		}
		if cc.Sign() == 0 {
			delete(r.T, nm)
		} else {
			r.T[nm] = cc
		}
	}
	return r, okAll
}

// ParsePoly reads "TV - BAL + 9/10*TV*X/Y" (role names, rational coefficients).
func ParsePoly(s string) *Poly {
	p := newPoly()
	s = strings.ReplaceAll(s, " ", "")
	s = strings.ReplaceAll(s, "-", "+-")
	for _, term := range strings.Split(s, "+") {
		if term == "" {
			continue
		}
		sign := int64(1)
		if strings.HasPrefix(term, "-") {
			sign = -1
			term = term[1:]
		}
		coeff := big.NewRat(sign, 1)
		var num, den []string
		// split on * and / keeping the operator
		cur, op := "", byte('*')
		flush := func() {
			if cur == "" {
				return
			}
			if r, ok := new(big.Rat).SetString(cur); ok {
				if op == '*' {
					coeff.Mul(coeff, r)
				} else {
					coeff.Quo(coeff, r)
				}
			} else if op == '*' {
				num = append(num, cur)
			} else {
				den = append(den, cur)
			}
			cur = ""
		}
		for i := 0; i < len(term); i++ {
			if term[i] == '*' || term[i] == '/' {
				flush()
				op = term[i]
				continue
			}
			cur += string(term[i])
		}
		flush()
		m := joinMono(num, den)
		if old, ok := p.T[m]; ok {
			coeff.Add(coeff, old)
		}
		if coeff.Sign() == 0 {
			delete(p.T, m)
		} else {
			p.T[m] = coeff
		}
	}
	return p
}

// ProportionalTo reports p == k·q for a positive rational k.
func (p *Poly) ProportionalTo(q *Poly) bool {
	if len(p.T) != len(q.T) || len(p.T) == 0 {
		return false
	}
	var k *big.Rat
	for m, c := range p.T {
		d, ok := q.T[m]
		if !ok {
			return false
		}
		r := new(big.Rat).Quo(c, d)
		if k == nil {
			k = r
		} else if k.Cmp(r) != 0 {
			return false
		}
	}
	return k != nil && k.Sign() > 0
}

// PolyOf computes the polynomial normal form of a numeric / coin value.
func (ff *FuncFacts) PolyOf(v ssa.Value) *Poly { return ff.poly(v, 0) }

func (ff *FuncFacts) polyLeafOf(v ssa.Value) *Poly {
	return polyLeaf(ff.termKey(v), v)
}

func (ff *FuncFacts) opaque(op string, v ssa.Value, args ...*Poly) *Poly {
	var as []string
	exact := true
	for _, a := range args {
		as = append(as, a.String())
		exact = exact && a.Exact
	}
	if op == "Min" || op == "Max" {
		sort.Strings(as)
	}
	if (op == "Trunc" || op == "Round" || op == "Ceil") && len(args) == 1 && len(args[0].T) == 1 {
		// rounding an already integral value is the identity
		for m, c := range args[0].T {
			if c.Cmp(big.NewRat(1, 1)) == 0 && (strings.HasPrefix(m, "Trunc(") || strings.HasPrefix(m, "Round(") || strings.HasPrefix(m, "Ceil(")) && !strings.ContainsAny(m, sepMul+sepDiv) {
				return args[0]
			}
		}
	}
	p := polyLeaf(op+"("+strings.Join(as, ",")+")", v)
	p.Exact = exact
	return p
}

// globalInit returns the value a package-level variable is initialised with when that is
// its only store in the whole package (a named constant in all but keyword).
func (ff *FuncFacts) globalInit(g *ssa.Global) ssa.Value {
	pkg := g.Pkg
	if pkg == nil {
		return nil
	}
	var val ssa.Value
	n := 0
	for _, m := range pkg.Members {
		fn, ok := m.(*ssa.Function)
		if !ok {
			continue
		}
		var fns []*ssa.Function
		fns = append(fns, fn)
		fns = append(fns, fn.AnonFuncs...)
		for _, f := range fns {
			for _, b := range f.Blocks {
				for _, in := range b.Instrs {
					if st, ok := in.(*ssa.Store); ok && st.Addr == ssa.Value(g) {
						n++
						if f.Name() == "init" {
							val = st.Val
						} else {
							return nil
						}
					}
				}
			}
		}
	}
	if n == 1 {
		return val
	}
	return nil
}

func (ff *FuncFacts) poly(v ssa.Value, depth int) *Poly {
	if v == nil {
		return polyLeaf("?nil", nil)
	}
	if depth > 40 {
		return ff.polyLeafOf(v)
	}
	if ff.LeafKey != nil {
		if k, ok := ff.LeafKey(v); ok {
			return polyLeaf(k, v)
		}
	}
	v = ff.Fwd(v)
	rec := func(x ssa.Value) *Poly { return ff.poly(x, depth+1) }
	switch x := v.(type) {
	case *ssa.Const:
		if x.Value != nil {
			switch x.Value.Kind() {
			case constant.Int, constant.Float:
				if r, ok := new(big.Rat).SetString(x.Value.ExactString()); ok {
					return polyConst(r)
				}
			case constant.String:
				if r, ok := new(big.Rat).SetString(constant.StringVal(x.Value)); ok {
					return polyConst(r)
				}
			}
		}
	case *ssa.Convert:
		return rec(x.X)
	case *ssa.ChangeType:
		return rec(x.X)
	case *ssa.BinOp:
		switch x.Op {
		case token.ADD:
			return rec(x.X).Add(rec(x.Y))
		case token.SUB:
			return rec(x.X).Sub(rec(x.Y))
		case token.MUL:
			return rec(x.X).Mul(rec(x.Y))
		}
	case *ssa.Field:
		if fieldName(x.X.Type(), x.Field) == "Amount" && isCoinType(x.X.Type()) {
			return rec(x.X)
		}
	case *ssa.UnOp:
		if x.Op == token.SUB {
			return rec(x.X).Neg()
		}
		if x.Op == token.MUL {
			if g, ok := x.X.(*ssa.Global); ok {
				if iv := ff.globalInit(g); iv != nil {
					// evaluated in the init function's own facts
					if fn := iv.Parent(); fn != nil && ff.P != nil {
						return ff.P.Facts(fn).poly(iv, depth+1)
					}
				}
			}
			if fa, ok := x.X.(*ssa.FieldAddr); ok && fieldName(fa.X.Type(), fa.Field) == "Amount" && isCoinType(fa.X.Type()) {
				if ld := ff.loadOfAddr(fa.X); ld != nil {
					return rec(ld)
				}
			}
			if r, ok := ff.fwd[x]; ok && len(r.Rest) == 1 {
				if fieldName(r.V.Type(), r.Rest[0]) == "Amount" && isCoinType(r.V.Type()) {
					return rec(r.V)
				}
			}
		}
	case *ssa.Call:
		cc := x.Common()
		if cc.IsInvoke() {
			break
		}
		// the builtin min/max on integers
		if b, ok := cc.Value.(*ssa.Builtin); ok && (b.Name() == "min" || b.Name() == "max") && len(cc.Args) == 2 {
			return ff.opaque(strings.ToUpper(b.Name()[:1])+b.Name()[1:], v, rec(cc.Args[0]), rec(cc.Args[1]))
		}
		sc := cc.StaticCallee()
		if sc == nil {
			break
		}
		mn := mathName(sc)
		a := cc.Args
		switch mn {
		case "LegacyZeroDec", "ZeroInt", "ZeroUint":
			return polyConst(big.NewRat(0, 1))
		case "LegacyOneDec", "OneInt", "OneUint":
			return polyConst(big.NewRat(1, 1))
		case "NewInt", "LegacyNewDec", "NewIntFromUint64", "NewUint", "LegacyNewDecFromInt", "Int.ToLegacyDec", "LegacyNewDecFromBigInt", "NewIntFromBigInt", "Int.BigInt", "Int.Int64", "Int.Uint64":
			return rec(a[0])
		case "LegacyNewDecWithPrec":
			pv, pp := rec(a[0]), rec(a[1])
			if c, ok := pp.T[""]; ok && len(pp.T) == 1 && c.IsInt() && len(pv.T) <= 1 {
				den := new(big.Int).Exp(big.NewInt(10), c.Num(), nil)
				return pv.Mul(polyConst(new(big.Rat).SetFrac(big.NewInt(1), den)))
			}
		case "LegacyMustNewDecFromStr":
			pv := rec(a[0])
			if _, ok := pv.T[""]; ok && len(pv.T) == 1 {
				return pv
			}
		case "Dec.Add", "Int.Add", "Int.AddRaw", "Uint.Add":
			return rec(a[0]).Add(rec(a[1]))
		case "Dec.Sub", "Int.Sub", "Int.SubRaw", "Uint.Sub":
			return rec(a[0]).Sub(rec(a[1]))
		case "Dec.Neg", "Int.Neg":
			return rec(a[0]).Neg()
		case "Dec.Mul", "Dec.MulInt", "Dec.MulInt64", "Int.Mul", "Int.MulRaw", "Uint.Mul", "Dec.MulTruncate", "Dec.MulRoundUp":
			return rec(a[0]).Mul(rec(a[1]))
		case "Dec.Quo", "Dec.QuoInt", "Dec.QuoInt64", "Dec.QuoTruncate", "Dec.QuoRoundUp":
			return rec(a[0]).Quo(rec(a[1]), v)
		case "Int.Quo", "Int.QuoRaw", "Uint.Quo":
			return ff.opaque("Trunc", v, rec(a[0]).Quo(rec(a[1]), v))
		case "Dec.TruncateInt", "Dec.TruncateDec", "Dec.TruncateInt64":
			return ff.opaque("Trunc", v, rec(a[0]))
		case "Dec.RoundInt", "Dec.RoundInt64":
			return ff.opaque("Round", v, rec(a[0]))
		case "Dec.Ceil":
			return ff.opaque("Ceil", v, rec(a[0]))
		case "Dec.Abs", "Int.Abs":
			return ff.opaque("Abs", v, rec(a[0]))
		case "LegacyMinDec", "MinInt":
			return ff.opaque("Min", v, rec(a[0]), rec(a[1]))
		case "LegacyMaxDec", "MaxInt":
			return ff.opaque("Max", v, rec(a[0]), rec(a[1]))
		case "NewCoin", "NewInt64Coin":
			return rec(a[1])
		}
		if p := fnPkg(sc); p != nil && strings.HasSuffix(p.Path(), "cosmos-sdk/types") {
			switch sc.Name() {
			case "AddAmount":
				return rec(a[0]).Add(rec(a[1]))
			case "SubAmount":
				return rec(a[0]).Sub(rec(a[1]))
			}
		}
	}
	return ff.polyLeafOf(v)
}

var _ = fmt.Sprintf
