package core

import (
	"go/types"
	"strings"

	"golang.org/x/tools/go/ssa"
)

// Effect kinds recognised on primitive (foreign) calls — DESIGN §1.4.
const (
	EffStoreWrite = "store-write"
	EffBankSend   = "bank-send"
	EffMint       = "mint"
	EffBurn       = "burn"
	EffEmit       = "emit"
	EffForeign    = "foreign-write" // state-changing method of an SDK/IBC keeper
	EffCacheFork  = "cache-fork"
)

var bankSendNames = map[string]bool{
	"SendCoins": true, "SendCoinsFromModuleToAccount": true, "SendCoinsFromAccountToModule": true,
	"SendCoinsFromModuleToModule": true, "DelegateCoinsFromAccountToModule": true,
	"UndelegateCoinsFromModuleToAccount": true, "DelegateCoins": true, "UndelegateCoins": true, "InputOutputCoins": true,
}

// readOnlyPrefixes lists method-name shapes of SDK keepers that do not change state.
var readOnlyPrefixes = []string{"Get", "Has", "Is", "Iterate", "Validate", "Spendable", "Locked", "Blocked", "Bonded", "NotBonded",
	"TotalBonded", "Validator", "Delegation", "BondDenom", "Logger", "String", "Unmarshal", "Marshal", "Must", "Lookup",
	"ValidatorAddressCodec", "ConsensusAddressCodec", "AddressCodec", "TokensFromConsensusPower", "PowerReduction", "Authenticate",
	"StakingTokenSupply", "MaxValidators", "UnbondingTime", "Last", "Calculate", "Codec", "Query", "Params", "Balance", "AllBalances",
	"Denom", "Supply", "Verify", "Historical", "Export", "Hooks", "Read"}

// receiverTypeName describes the static receiver of a call: (package path, type name).
func receiverTypeName(cc *ssa.CallCommon) (string, string) {
	var t types.Type
	if cc.IsInvoke() {
		t = cc.Value.Type()
	} else if sc := cc.StaticCallee(); sc != nil && sc.Signature.Recv() != nil {
		t = sc.Signature.Recv().Type()
	} else {
		return "", ""
	}
	n := AsNamed(t)
	if n == nil || n.Obj().Pkg() == nil {
		return "", ""
	}
	return n.Obj().Pkg().Path(), n.Obj().Name()
}

// EffectOf classifies a call to a function outside the Elys module. "" = no effect known.
func (P *Program) EffectOf(c ssa.CallInstruction) string {
	cc := c.Common()
	name := calleeName(cc)
	if name == "" {
		return ""
	}
	pkg, typ := receiverTypeName(cc)
	if !cc.IsInvoke() {
		if sc := cc.StaticCallee(); sc != nil && InModule(unwrap(sc)) {
			return "" // Elys functions are analysed through the call graph
		}
	} else if len(P.Callees(c)) > 0 && !strings.Contains(typ, "BankKeeper") {
		return "" // interface with Elys implementers: follow the call graph
	}
	isStore := (typ == "KVStore" || typ == "Store" || typ == "BasicKVStore") &&
		(strings.HasPrefix(pkg, "cosmossdk.io/store") || strings.HasPrefix(pkg, "cosmossdk.io/core/store"))
	switch {
	case isStore && (name == "Set" || name == "Delete"):
		return EffStoreWrite
	case isStore:
		return ""
	case pkg == "cosmossdk.io/collections" && (name == "Set" || name == "Remove" || name == "Clear"):
		return EffStoreWrite
	case typ == "MsgServer" && !strings.HasPrefix(pkg, Module):
		return EffForeign
	case name == "MintCoins":
		return EffMint
	case name == "BurnCoins":
		return EffBurn
	case bankSendNames[name] && (strings.Contains(typ, "BankKeeper") || strings.Contains(pkg, "x/bank")):
		return EffBankSend
	case typ == "EventManager" && strings.HasPrefix(name, "Emit"):
		return EffEmit
	case typ == "Context" && name == "CacheContext":
		return EffCacheFork
	}
	// methods of SDK / IBC keepers reached through expected-keeper interfaces or embedded keepers
	if cc.IsInvoke() || strings.Contains(pkg, "/keeper") {
		if strings.HasSuffix(typ, "Keeper") || strings.Contains(pkg, "/keeper") || strings.HasSuffix(typ, "Wrapper") || typ == "ICS4Wrapper" {
			for _, p := range readOnlyPrefixes {
				if strings.HasPrefix(name, p) {
					return ""
				}
			}
			return EffForeign
		}
	}
	return ""
}

// IsWriteEffect tells whether the effect changes consensus state (emit counts: events are
// part of the transaction result).
func IsWriteEffect(e string) bool {
	switch e {
	case EffStoreWrite, EffBankSend, EffMint, EffBurn, EffForeign:
		return true
	}
	return false
}

// Summary computes (memoised, fixpoint over the call graph) the set of functions that may
// directly or transitively perform an effect selected by pred.
func (P *Program) Summary(name string, direct func(fn *ssa.Function) bool) map[*ssa.Function]bool {
	if s, ok := P.summ[name]; ok {
		return s
	}
	g := P.CG()
	s := map[*ssa.Function]bool{}
	var work []*ssa.Function
	for _, fn := range P.Funcs {
		if direct(fn) {
			s[fn] = true
			work = append(work, fn)
		}
	}
	for len(work) > 0 {
		f := work[len(work)-1]
		work = work[:len(work)-1]
		for _, e := range g.In[f] {
			if !s[e.Caller] {
				s[e.Caller] = true
				work = append(work, e.Caller)
			}
		}
	}
	P.summ[name] = s
	return s
}

// MayWrite: functions that may change state (store, bank, foreign keeper).
func (P *Program) MayWrite() map[*ssa.Function]bool {
	return P.Summary("mayWrite", func(fn *ssa.Function) bool {
		for _, b := range fn.Blocks {
			for _, in := range b.Instrs {
				if c, ok := in.(ssa.CallInstruction); ok && IsWriteEffect(P.EffectOf(c)) {
					return true
				}
			}
		}
		return false
	})
}

// SiteMayWrite reports whether executing the call instruction may change state, and why.
func (P *Program) SiteMayWrite(c ssa.CallInstruction) (bool, string) {
	if e := P.EffectOf(c); IsWriteEffect(e) {
		return true, e + ":" + P.CalleeKey(c.Common())
	}
	mw := P.MayWrite()
	for _, t := range P.Callees(c) {
		if mw[t] {
			return true, "calls " + P.Key(t)
		}
	}
	return false, ""
}

// Calls lists the call instructions of fn in block order.
func Calls(fn *ssa.Function) []ssa.CallInstruction {
	var out []ssa.CallInstruction
	for _, b := range fn.Blocks {
		for _, in := range b.Instrs {
			if c, ok := in.(ssa.CallInstruction); ok {
				out = append(out, c)
			}
		}
	}
	return out
}
