package core

import (
	"go/token"

	"golang.org/x/tools/go/ssa"
)

// Path is one acyclic block path from function entry to a target instruction, with the
// edge atoms collected along it. Loads of the same (base, field path) that are not
// separated by a store to it or by a call receiving the base pointer are unified, so a
// discriminator tested twice (`if mtp.Position == LONG … switch mtp.Position`) yields
// atoms over one value and contradictory paths can be pruned (DESIGN §2 R3).
type Path struct {
	Blocks []*ssa.BasicBlock
	Atoms  []*Atom
}

const MaxPaths = 4096

// PathsTo enumerates the acyclic paths from entry to the block of target, dropping paths
// whose atoms contradict each other. ok=false when the bound was hit (→ undecided).
func (ff *FuncFacts) PathsTo(target ssa.Instruction) (paths []*Path, ok bool) {
	fn := ff.Fn
	tb := target.Block()
	if tb == nil {
		return nil, false
	}
	// blocks from which tb is reachable (prune the DFS)
	canReach := map[*ssa.BasicBlock]bool{tb: true}
	for changed := true; changed; {
		changed = false
		for _, b := range fn.Blocks {
			if canReach[b] {
				continue
			}
			for _, s := range b.Succs {
				if canReach[s] {
					canReach[b] = true
					changed = true
					break
				}
			}
		}
	}
	var cur []*ssa.BasicBlock
	onPath := map[*ssa.BasicBlock]bool{}
	count := 0
	ok = true
	var dfs func(b *ssa.BasicBlock)
	dfs = func(b *ssa.BasicBlock) {
		if !ok || !canReach[b] || onPath[b] {
			return
		}
		cur = append(cur, b)
		onPath[b] = true
		if b == tb {
			count++
			if count > MaxPaths {
				ok = false
			} else {
				p := &Path{Blocks: append([]*ssa.BasicBlock(nil), cur...)}
				p.Atoms = ff.pathAtoms(p.Blocks, target)
				if !contradictory(ff, p.Atoms) {
					paths = append(paths, p)
				}
			}
		} else {
			for _, s := range b.Succs {
				dfs(s)
			}
		}
		onPath[b] = false
		cur = cur[:len(cur)-1]
	}
	dfs(fn.Blocks[0])
	return paths, ok
}

type loadKey struct {
	base    ssa.Value
	path    string
	version int
}

// pathAtoms walks the path, versions memory locations and rewrites atom operands to the
// representative load of their (location, version).
func (ff *FuncFacts) pathAtoms(blocks []*ssa.BasicBlock, target ssa.Instruction) []*Atom {
	version := map[ssa.Value]int{}     // base → version (bumped by stores / calls)
	rep := map[loadKey]ssa.Value{}     // representative load
	canon := map[ssa.Value]ssa.Value{} // load → representative
	var atoms []*Atom
	rewrite := func(v ssa.Value) ssa.Value {
		if v == nil {
			return nil
		}
		v = ff.Fwd(v)
		if r, ok := canon[v]; ok {
			return r
		}
		return v
	}
	for bi, b := range blocks {
		for _, in := range b.Instrs {
			if in == target {
				break
			}
			switch x := in.(type) {
			case *ssa.UnOp:
				if x.Op == token.MUL {
					base, path := addrPath(x.X)
					if _, isParam := base.(*ssa.Parameter); isParam || isLoadOfParamLike(base) {
						k := loadKey{base, pathKey(path), version[base]}
						if r, ok := rep[k]; ok {
							canon[x] = r
						} else {
							rep[k] = x
						}
					}
				}
			case *ssa.Store:
				base, _ := addrPath(x.Addr)
				version[base]++
			case ssa.CallInstruction:
				var rands []*ssa.Value
				for _, r := range in.Operands(rands) {
					if *r == nil {
						continue
					}
					base, _ := addrPath(*r)
					if _, ok := version[base]; ok || isPointerLike(base) {
						version[base]++
					}
				}
			}
		}
		if bi+1 < len(blocks) {
			for _, a := range ff.edgeFacts(b, blocks[bi+1], 0) {
				atoms = append(atoms, &Atom{Rel: a.Rel, A: rewrite(a.A), B: rewrite(a.B), Src: a.Src})
			}
		}
	}
	// must-hold facts of the target block are valid on every path as well
	for _, a := range ff.At(target) {
		atoms = append(atoms, &Atom{Rel: a.Rel, A: rewrite(a.A), B: rewrite(a.B), Src: a.Src})
	}
	return atoms
}

func isPointerLike(v ssa.Value) bool {
	if v == nil || v.Type() == nil {
		return false
	}
	switch v.(type) {
	case *ssa.Parameter, *ssa.Alloc, *ssa.FreeVar:
		return true
	}
	return false
}

func isLoadOfParamLike(v ssa.Value) bool {
	switch v.(type) {
	case *ssa.Alloc, *ssa.FreeVar:
		return true
	}
	return false
}

// contradictory reports whether a set of atoms cannot hold together (syntactic check on
// identical operands; constants compare by value).
func contradictory(ff *FuncFacts, atoms []*Atom) bool {
	eq := map[int][]ssa.Value{} // value id → constants it equals
	set := map[string]bool{}
	for _, a := range atoms {
		set[ff.key(a)] = true
	}
	for _, a := range atoms {
		n := negRel(a)
		if set[ff.key(n)] {
			return true
		}
		switch a.Rel {
		case EQ:
			if set[ff.key(&Atom{Rel: NE, A: a.B, B: a.A})] {
				return true
			}
			if set[ff.key(&Atom{Rel: LT, A: a.A, B: a.B})] || set[ff.key(&Atom{Rel: LT, A: a.B, B: a.A})] {
				return true
			}
			if c, ok := a.B.(*ssa.Const); ok {
				eq[ff.id(a.A)] = append(eq[ff.id(a.A)], c)
			}
			if c, ok := a.A.(*ssa.Const); ok {
				eq[ff.id(a.B)] = append(eq[ff.id(a.B)], c)
			}
		case LT:
			if set[ff.key(&Atom{Rel: LT, A: a.B, B: a.A})] || set[ff.key(&Atom{Rel: LE, A: a.B, B: a.A})] {
				return true
			}
		}
	}
	for _, cs := range eq {
		for i := 0; i < len(cs); i++ {
			for j := i + 1; j < len(cs); j++ {
				ci, cj := cs[i].(*ssa.Const), cs[j].(*ssa.Const)
				if !constEq(ci, cj) {
					return true
				}
			}
		}
	}
	return false
}

// ConstEq exposes constant comparison for rules.
func ConstEq(a, b *ssa.Const) bool { return constEq(a, b) }
