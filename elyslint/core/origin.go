package core

import (
	"go/token"
	"go/types"
	"strings"

	"golang.org/x/tools/go/ssa"
)

// Origin is one endpoint of a backward value slice.
type Origin struct {
	Kind string // param | call | const | global | freevar | local | expr | zero
	Name string // parameter name / callee key / constant text / global name
	Path string // field path applied to the origin, outermost first: ".Params.SafetyFactor"
	Val  ssa.Value
}

func (o Origin) String() string { return o.Kind + ":" + o.Name + o.Path }

// Is matches kind, a name suffix and a path suffix (empty strings match anything).
func (o Origin) Is(kind, nameSuffix, pathSuffix string) bool {
	return (kind == "" || o.Kind == kind) && strings.HasSuffix(o.Name, nameSuffix) && strings.HasSuffix(o.Path, pathSuffix)
}

// CalleeKey names the callee of a call: Elys functions by their key, foreign ones as
// "pkgpath.Recv.Name", interface methods as "pkgrel.Iface.Method".
func (P *Program) CalleeKey(cc *ssa.CallCommon) string {
	if cc.IsInvoke() {
		recv := cc.Value.Type()
		if n := AsNamed(recv); n != nil && n.Obj().Pkg() != nil {
			return RelPath(n.Obj().Pkg().Path()) + "." + n.Obj().Name() + "." + cc.Method.Name()
		}
		return "iface." + cc.Method.Name()
	}
	if sc := cc.StaticCallee(); sc != nil {
		sc = unwrap(sc)
		if InModule(sc) {
			return P.Key(sc)
		}
		pkg := ""
		if p := fnPkg(sc); p != nil {
			pkg = p.Path()
		}
		recv := ""
		if sc.Signature.Recv() != nil {
			recv = NamedName(sc.Signature.Recv().Type()) + "."
		}
		return pkg + "." + recv + sc.Name()
	}
	if b, ok := cc.Value.(*ssa.Builtin); ok {
		return "builtin." + b.Name()
	}
	return "dynamic"
}

// CalleeName is the bare method / function name of a call.
func CalleeName(cc *ssa.CallCommon) string { return calleeName(cc) }

// Transparent decides which calls a slice passes through: it returns the operands to
// continue with (nil = the call is an origin).
type Transparent func(c *ssa.Call) []ssa.Value

// Origins computes the backward slice of v inside its function.
func (ff *FuncFacts) Origins(v ssa.Value) []Origin { return ff.OriginsT(v, nil) }

func (ff *FuncFacts) OriginsT(v ssa.Value, tr Transparent) []Origin { return ff.OriginsAt(v, "", tr) }

// OriginsAt is OriginsT for the component of v selected by the field path start
// (".Sender", "#0.Sender", …).
func (ff *FuncFacts) OriginsAt(v ssa.Value, start string, tr Transparent) []Origin {
	var out []Origin
	seen := map[ssa.Value]bool{}
	var walk func(v ssa.Value, path string, depth int)
	emit := func(o Origin) {
		for _, x := range out {
			if x.Kind == o.Kind && x.Name == o.Name && x.Path == o.Path && x.Val == o.Val {
				return
			}
		}
		out = append(out, o)
	}
	walk = func(v ssa.Value, path string, depth int) {
		if v == nil || depth > 40 {
			return
		}
		if v == ZeroMarker {
			emit(Origin{Kind: "zero", Name: "0", Val: v})
			return
		}
		if v == NilMarker {
			emit(Origin{Kind: "const", Name: "nil", Val: v})
			return
		}
		if _, isPhi := v.(*ssa.Phi); isPhi {
			if seen[v] {
				return
			}
			seen[v] = true
		}
		switch x := v.(type) {
		case *ssa.Parameter:
			emit(Origin{"param", x.Name(), path, x})
		case *ssa.FreeVar:
			emit(Origin{"freevar", x.Name(), path, x})
		case *ssa.Const:
			s := "nil"
			if x.Value != nil {
				s = x.Value.ExactString()
			}
			emit(Origin{"const", s, path, x})
		case *ssa.Global:
			emit(Origin{"global", globalName(x), path, x})
		case *ssa.Function:
			emit(Origin{"func", ff.P.Key(x), path, x})
		case *ssa.Phi:
			for _, e := range x.Edges {
				walk(e, path, depth+1)
			}
		case *ssa.Extract:
			walk(x.Tuple, "#"+itoa(x.Index)+path, depth+1)
		case *ssa.Field:
			walk(x.X, "."+fieldName(x.X.Type(), x.Field)+path, depth+1)
		case *ssa.FieldAddr:
			walk(x.X, "."+fieldName(x.X.Type(), x.Field)+path, depth+1)
		case *ssa.IndexAddr:
			walk(x.X, "[]"+path, depth+1)
		case *ssa.Index:
			walk(x.X, "[]"+path, depth+1)
		case *ssa.Lookup:
			walk(x.X, "[]"+path, depth+1)
		case *ssa.Slice:
			walk(x.X, path, depth+1)
		case *ssa.ChangeType:
			walk(x.X, path, depth+1)
		case *ssa.Convert:
			walk(x.X, path, depth+1)
		case *ssa.MakeInterface:
			walk(x.X, path, depth+1)
		case *ssa.ChangeInterface:
			walk(x.X, path, depth+1)
		case *ssa.TypeAssert:
			walk(x.X, path, depth+1)
		case *ssa.UnOp:
			if x.Op == token.MUL {
				if r, ok := ff.fwd[x]; ok {
					p := path
					t := r.V.Type()
					var names string
					for _, fi := range r.Rest {
						names += "." + fieldName(t, fi)
						t = fieldType(t, fi)
					}
					walk(r.V, names+p, depth+1)
					return
				}
				if m, ok := ff.agg[x]; ok && path != "" {
					best := ""
					for k := range m {
						if (path == k || strings.HasPrefix(path, k+".") || strings.HasPrefix(path, k+"#") || strings.HasPrefix(path, k+"[")) && len(k) > len(best) {
							best = k
						}
					}
					if best != "" {
						if m[best] == unknownValue {
							emit(Origin{"local", "?", path, x})
							return
						}
						walk(m[best], path[len(best):], depth+1)
						return
					}
				}
				if r, ok := ff.aggBase[x]; ok {
					t := r.V.Type()
					var names string
					for _, fi := range r.Rest {
						names += "." + fieldName(t, fi)
						t = fieldType(t, fi)
					}
					walk(r.V, names+path, depth+1)
					return
				}
				if g, ok := x.X.(*ssa.Global); ok {
					emit(Origin{"global", globalName(g), path, x})
					return
				}
				if a, ok := x.X.(*ssa.Alloc); ok {
					emit(Origin{"local", a.Comment, path, x})
					return
				}
				walk(x.X, path, depth+1)
				return
			}
			emit(Origin{"expr", x.Op.String(), path, x})
		case *ssa.Alloc:
			emit(Origin{"local", x.Comment, path, x})
		case *ssa.Call:
			if tr != nil {
				if next := tr(x); next != nil {
					// a transparent call maps its (first) result to its operands: drop the
					// tuple-extract marker of `v, err := f(x)`
					np := path
					if strings.HasPrefix(np, "#") {
						j := 1
						for j < len(np) && np[j] >= '0' && np[j] <= '9' {
							j++
						}
						np = np[j:]
					}
					for _, n := range next {
						walk(n, np, depth+1)
					}
					return
				}
			}
			if f, ok := ff.P.PBGetterField(x.Common()); ok {
				// a generated getter is the field it returns: m.GetX() ≡ m.X
				walk(x.Common().Args[0], "."+f+path, depth+1)
				return
			}
			emit(Origin{"call", ff.P.CalleeKey(x.Common()), path, x})
		case *ssa.BinOp:
			emit(Origin{"expr", x.Op.String(), path, x})
		case *ssa.MakeClosure:
			emit(Origin{"func", ff.P.Key(x.Fn.(*ssa.Function)), path, x})
		default:
			emit(Origin{"expr", "?", path, v})
		}
	}
	walk(v, start, 0)
	return out
}

// DeepOrigins expands call origins through the bodies of module functions: an origin
// "result (component p) of f(args)" is replaced by the origins, in the caller, of whatever f
// returns there — parameters of f mapped back to the arguments of the call.  A helper that
// merely repackages its inputs (msg.Parties() returning {Sender: decode(msg.Sender), …}) is
// thereby transparent, across packages.  depth bounds the nesting; what cannot be expanded
// stays a call origin.
func (P *Program) DeepOrigins(ff *FuncFacts, v ssa.Value, start string, tr Transparent, depth int) []Origin {
	var out []Origin
	for _, o := range ff.OriginsAt(v, start, tr) {
		call, isCall := o.Val.(*ssa.Call)
		if o.Kind != "call" || !isCall || depth <= 0 {
			out = append(out, o)
			continue
		}
		sc := call.Common().StaticCallee()
		if sc == nil || !InModule(sc) || len(sc.Blocks) == 0 || call.Common().IsInvoke() {
			out = append(out, o)
			continue
		}
		// result index and the path below it
		idx, sub := 0, o.Path
		if strings.HasPrefix(sub, "#") {
			j := 1
			for j < len(sub) && sub[j] >= '0' && sub[j] <= '9' {
				idx = idx*10 + int(sub[j]-'0')
				j++
			}
			sub = sub[j:]
		}
		cf := P.Facts(sc)
		expanded, okAll := []Origin{}, true
		nret := 0
		for _, ex := range cf.Exits() {
			ret, ok := ex.Instr.(*ssa.Return)
			if !ok || ex.Kind == ExitError || idx >= len(ret.Results) {
				continue
			}
			nret++
			for _, io := range P.DeepOrigins(cf, ret.Results[idx], sub, tr, depth-1) {
				if io.Kind == "param" {
					mapped := false
					for i, prm := range sc.Params {
						if ssa.Value(prm) == io.Val && i < len(call.Common().Args) {
							expanded = append(expanded, P.DeepOrigins(ff, call.Common().Args[i], io.Path, tr, depth-1)...)
							mapped = true
						}
					}
					if !mapped {
						okAll = false
					}
					continue
				}
				if io.Kind == "const" || io.Kind == "zero" {
					continue // zero values on fall-back paths carry nothing
				}
				okAll = false
			}
		}
		if okAll && nret > 0 && len(expanded) > 0 {
			out = append(out, expanded...)
		} else {
			out = append(out, o)
		}
	}
	return out
}

func itoa(i int) string {
	if i == 0 {
		return "0"
	}
	s := ""
	for i > 0 {
		s = string(rune('0'+i%10)) + s
		i /= 10
	}
	return s
}

func globalName(g *ssa.Global) string {
	if g.Pkg != nil {
		return RelPath(g.Pkg.Pkg.Path()) + "." + g.Name()
	}
	return g.Name()
}

func structOf(t types.Type) *types.Struct {
	t = types.Unalias(t)
	if p, ok := t.Underlying().(*types.Pointer); ok {
		t = p.Elem()
	}
	s, _ := t.Underlying().(*types.Struct)
	return s
}

func fieldName(t types.Type, i int) string {
	if s := structOf(t); s != nil && i < s.NumFields() {
		return s.Field(i).Name()
	}
	return "f" + itoa(i)
}

func fieldType(t types.Type, i int) types.Type {
	if s := structOf(t); s != nil && i < s.NumFields() {
		return s.Field(i).Type()
	}
	return t
}

// FieldName is exported for rule packages.
func FieldName(t types.Type, i int) string { return fieldName(t, i) }

// HasOrigin reports whether some origin of v satisfies pred.
func (ff *FuncFacts) HasOrigin(v ssa.Value, tr Transparent, pred func(Origin) bool) bool {
	for _, o := range ff.OriginsT(v, tr) {
		if pred(o) {
			return true
		}
	}
	return false
}

// AllOrigins reports whether every origin of v satisfies pred (and there is at least one).
func (ff *FuncFacts) AllOrigins(v ssa.Value, tr Transparent, pred func(Origin) bool) bool {
	os := ff.OriginsT(v, tr)
	if len(os) == 0 {
		return false
	}
	for _, o := range os {
		if !pred(o) {
			return false
		}
	}
	return true
}

// PBGetterField recognises a call of a protobuf-generated getter `func (m *T) GetX() F`
// (declared in a .pb.go file, no arguments, T has a field X of the returned type) and
// returns the field name: for every analysis the call is the field read m.X (the nil
// receiver default is the zero value, which a nil dereference would never deliver).
func (P *Program) PBGetterField(cc *ssa.CallCommon) (string, bool) {
	if cc.IsInvoke() || len(cc.Args) != 1 {
		return "", false
	}
	sc := cc.StaticCallee()
	if sc == nil || sc.Signature.Recv() == nil || !strings.HasPrefix(sc.Name(), "Get") || !InModule(sc) {
		return "", false
	}
	if !strings.HasSuffix(P.File(sc.Pos()), ".pb.go") {
		return "", false
	}
	name := strings.TrimPrefix(sc.Name(), "Get")
	n := AsNamed(sc.Signature.Recv().Type())
	if n == nil {
		return "", false
	}
	st, ok := n.Underlying().(*types.Struct)
	if !ok || sc.Signature.Results().Len() != 1 {
		return "", false
	}
	for i := 0; i < st.NumFields(); i++ {
		if st.Field(i).Name() == name && types.Identical(st.Field(i).Type(), sc.Signature.Results().At(0).Type()) {
			return name, true
		}
	}
	return "", false
}
