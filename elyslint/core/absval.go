package core

import (
	"fmt"
	"go/constant"
	"go/types"
	"math/big"
	"sort"
	"strings"

	"golang.org/x/tools/go/ssa"
)

// R10 — monotone bound (DESIGN §2): a small abstract interpretation over the SSA form of the
// fixed-point arithmetic (cosmossdk.io/math Int / LegacyDec).  Every numeric value gets
//
//	R  an interval for the value the code computes ("real"),
//	I  an interval for the "ideal" value: the same expression along the same path evaluated
//	   with exact arithmetic (Dec→Int conversions are identities) and with the declared
//	   perturbation parameters (fees) replaced by their ideal constant,
//	D  the must-relation real ? ideal  (EQ, LE, GE or unknown),
//	F  the must-relation value ? reference, for one designated reference SSA value.
//
// Guards are taken from the must-hold facts (facts.go) of the program point the value is
// asked for, including backward sign propagation (trunc(x) > 0 ⇒ x > 0 …).  LegacyDec's own
// 18-digit rounding inside Mul/Quo is not modelled.

type Dir int

const (
	DUnk Dir = iota
	DEq
	DLe // real ≤ ideal   /  value ≤ reference
	DGe
)

func (d Dir) String() string { return [...]string{"?", "=", "≤", "≥"}[d] }

func (d Dir) flip() Dir {
	switch d {
	case DLe:
		return DGe
	case DGe:
		return DLe
	}
	return d
}

// compose: x r1 y and y r2 z ⇒ x ? z
func compose(r1, r2 Dir) Dir {
	switch {
	case r1 == DEq:
		return r2
	case r2 == DEq:
		return r1
	case r1 == r2:
		return r1
	}
	return DUnk
}

func joinDir(a, b Dir) Dir {
	switch {
	case a == b:
		return a
	case a == DUnk || b == DUnk:
		return DUnk
	case a == DEq:
		return b
	case b == DEq:
		return a
	}
	return DUnk
}

type AV struct {
	R, I Itv
	D    Dir
	F    Dir  // relation to the reference value; HasF false = no relation known
	HasF bool
	Num  bool // a numeric (or coin-as-amount) value
}

func (a AV) String() string {
	s := fmt.Sprintf("R=%s D=%s", a.R, a.D)
	if a.D != DEq {
		s += fmt.Sprintf(" I=%s", a.I)
	}
	if a.HasF {
		s += " F=" + a.F.String()
	}
	return s
}

func topAV() AV             { return AV{R: Top(), I: Top(), D: DEq, Num: true} }
func leafAV(it Itv) AV      { return AV{R: it, I: it, D: DEq, Num: true} }
func constAV(r *big.Rat) AV { return leafAV(ConstItv(r)) }

// RangeSpec is the frozen table of range assumptions and declared primitives of one rule.
type RangeSpec struct {
	Fields  map[string]Itv      // "Type.Field" (named type, short) → range of every read
	Results map[string]Itv      // callee key or interface method name → range of result 0
	Params  map[string]Itv      // "funcKey:param" → range
	Ideal   map[string]*big.Rat // "funcKey:param" → value in the ideal run (perturbation)
	// MonoUp lists callee keys that are non-decreasing in argument 0 when argument 1 ≥ 0
	// and return a non-negative value (Pow).
	MonoUp map[string]bool
}

type Ranger struct {
	P    *Program
	Spec *RangeSpec
	Ref  ssa.Value // reference value of the F relation (forwarded), may be nil
	RefR Itv
	Used map[string]bool // assumptions actually consulted
	Why  []string        // reasons for unknown results (diagnostics)

	memo  map[string]AV
	busy  map[string]bool
	envs  map[string]*evalEnv
	envN  int
	stack []*ssa.Function
	sums  map[string][]AV
	quiet bool // evaluating comparison operands for an environment: no diagnostics
	steps int
	// soft budget of one guard-operand evaluation while an environment is built: when it
	// runs out that operand is simply unknown (no refinement); nothing computed meanwhile is cached
	soft    int
	softHit bool
	// Exhausted is set when the evaluation budget ran out: every later answer is ⊤ and the
	// rule that asked must report "undecided" rather than trust a relation.
	Exhausted bool
}

func NewRanger(P *Program, spec *RangeSpec) *Ranger {
	return &Ranger{P: P, Spec: spec, Used: map[string]bool{}, memo: map[string]AV{}, busy: map[string]bool{}, envs: map[string]*evalEnv{}}
}

type callCtx struct {
	fn     *ssa.Function
	params []AV
	key    string
	// rel[i][j]: must-ordering between two parameters that the call site establishes
	// structurally (argument i is argument j plus / minus a non-negative amount)
	rel map[int]map[int]Dir
}

type evalEnv struct {
	id  int
	ref map[ssa.Value]Itv
	rel map[ssa.Value]Dir // guard-derived relation value ? reference
}

func (E *Ranger) note(format string, a ...any) {
	if len(E.Why) < 40 {
		E.Why = append(E.Why, fmt.Sprintf(format, a...))
	}
}

func (E *Ranger) ctxFor(fn *ssa.Function, args []AV) *callCtx {
	return E.ctxForRel(fn, args, nil)
}

func (E *Ranger) ctxForRel(fn *ssa.Function, args []AV, rel map[int]map[int]Dir) *callCtx {
	// table assumptions about a parameter hold in every context
	for i, p := range fn.Params {
		if i >= len(args) {
			break
		}
		k := E.P.Key(fn) + ":" + p.Name()
		if it, ok := E.Spec.Params[k]; ok && args[i].Num {
			E.Used["param "+k+" ∈ "+it.String()] = true
			args[i].R = args[i].R.Meet(it)
			if args[i].D == DEq {
				args[i].I = args[i].I.Meet(it)
			}
		}
		if c, ok := E.Spec.Ideal[k]; ok && args[i].Num && args[i].D == DEq {
			if rc, isC := args[i].R.IsConst(); !isC || rc.Cmp(c) != 0 {
				E.Used["ideal run: "+k+" = "+c.RatString()] = true
				args[i].I = ConstItv(c)
				switch {
				case args[i].R.GEc(c):
					args[i].D = DGe
				case args[i].R.LEc(c):
					args[i].D = DLe
				default:
					args[i].D = DUnk
				}
			}
		}
	}
	var sb strings.Builder
	sb.WriteString(E.P.Key(fn))
	for _, a := range args {
		sb.WriteString("|" + a.String())
	}
	var is []int
	for i := range rel {
		is = append(is, i)
	}
	sort.Ints(is)
	for _, i := range is {
		var js []int
		for j := range rel[i] {
			js = append(js, j)
		}
		sort.Ints(js)
		for _, j := range js {
			fmt.Fprintf(&sb, "|p%d%sp%d", i, rel[i][j], j)
		}
	}
	return &callCtx{fn: fn, params: args, key: sb.String(), rel: rel}
}

// argRelations: structural orderings between the arguments of one call.
func (E *Ranger) argRelations(ctx *callCtx, env *evalEnv, args []ssa.Value, depth int) map[int]map[int]Dir {
	var rel map[int]map[int]Dir
	set := func(i, j int, d Dir) {
		if rel == nil {
			rel = map[int]map[int]Dir{}
		}
		if rel[i] == nil {
			rel[i] = map[int]Dir{}
		}
		rel[i][j] = d
	}
	for i, a := range args {
		c, ok := E.fwd(ctx, a).(*ssa.Call)
		if !ok || c.Common().IsInvoke() || c.Common().StaticCallee() == nil || len(c.Common().Args) != 2 {
			continue
		}
		mn := mathName(c.Common().StaticCallee())
		var d Dir
		switch mn {
		case "Dec.Add", "Int.Add":
			d = DGe
		case "Dec.Sub", "Int.Sub":
			d = DLe
		default:
			continue
		}
		x0, x1 := E.fwd(ctx, c.Common().Args[0]), E.fwd(ctx, c.Common().Args[1])
		for j, b := range args {
			if j == i {
				continue
			}
			bv := E.fwd(ctx, b)
			var other ssa.Value
			switch {
			case bv == x0:
				other = x1
			case bv == x1 && d == DGe:
				other = x0
			default:
				continue
			}
			o := E.eval(ctx, env, other, depth+1)
			if o.R.GE0() && o.I.GE0() {
				set(i, j, d)
				set(j, i, d.flip())
			}
		}
	}
	return rel
}

// TopCtx is the context of a function analysed as an entry: parameters take their
// table assumption (or Top) and their declared ideal value.
func (E *Ranger) TopCtx(fn *ssa.Function) *callCtx {
	args := make([]AV, len(fn.Params))
	for i, p := range fn.Params {
		args[i] = E.paramAV(fn, p)
	}
	return E.ctxFor(fn, args)
}

func (E *Ranger) paramAV(fn *ssa.Function, p *ssa.Parameter) AV {
	k := E.P.Key(fn) + ":" + p.Name()
	av := topAV()
	if !isNumericCarrier(p.Type()) {
		av.Num = false
		return av
	}
	if it, ok := E.Spec.Params[k]; ok {
		E.Used["param "+k+" ∈ "+it.String()] = true
		av = leafAV(it)
	}
	if c, ok := E.Spec.Ideal[k]; ok {
		E.Used["ideal run: "+k+" = "+c.RatString()] = true
		av.I = ConstItv(c)
		switch {
		case av.R.GEc(c):
			av.D = DGe
		case av.R.LEc(c):
			av.D = DLe
		default:
			av.D = DUnk
		}
	}
	return av
}

func isNumericCarrier(t types.Type) bool {
	if IsMathType(t) {
		return true
	}
	if b, ok := t.Underlying().(*types.Basic); ok {
		return b.Info()&types.IsNumeric != 0
	}
	return false
}

// ---- environments (facts of one program point) ----------------------------------------

// EnvAt builds the refinement environment of the program point of in.
func (E *Ranger) EnvAt(ctx *callCtx, in ssa.Instruction) *evalEnv {
	ff := E.P.Facts(ctx.fn)
	return E.envFrom(ctx, ff, ff.At(in))
}

func (E *Ranger) envFrom(ctx *callCtx, ff *FuncFacts, atoms []*Atom) *evalEnv {
	var ks []string
	for _, a := range atoms {
		ks = append(ks, ff.key(a))
	}
	sort.Strings(ks)
	key := ctx.key + "#" + strings.Join(ks, ",")
	if e, ok := E.envs[key]; ok {
		return e
	}
	E.envN++
	env := &evalEnv{id: E.envN, ref: map[ssa.Value]Itv{}, rel: map[ssa.Value]Dir{}}
	E.envs[key] = env
	base := &evalEnv{id: 0, ref: map[ssa.Value]Itv{}, rel: map[ssa.Value]Dir{}}
	tainted := false
	side := func(v ssa.Value) (Itv, bool) {
		if v == ZeroMarker {
			return ConstInt(0), true
		}
		if v == nil || v == NilMarker || !isNumericCarrier(v.Type()) {
			return Itv{}, false
		}
		q := E.quiet
		E.quiet = true
		start, savedSoft := E.steps, E.soft
		if E.soft == 0 || E.steps+SideBudget < E.soft {
			E.soft = E.steps + SideBudget
		}
		av := E.eval(ctx, base, v, 0)
		E.quiet = q
		E.soft = savedSoft
		if savedSoft == 0 && E.softHit {
			// outermost operand evaluation ran out of its budget: unknown, charged at the budget
			E.softHit = false
			E.steps = start + SideBudget
			tainted = true
			return Itv{}, false
		}
		if E.softHit {
			return Itv{}, false
		}
		return av.R, true
	}
	meet := func(v ssa.Value, f func(Itv) Itv) {
		if v == nil || v == ZeroMarker || v == NilMarker {
			return
		}
		if _, ok := v.(*ssa.Const); ok {
			return
		}
		cur, ok := env.ref[v]
		if !ok {
			cur = Top()
		}
		env.ref[v] = f(cur)
	}
	setRel := func(v ssa.Value, d Dir) {
		if old, ok := env.rel[v]; ok && old != d {
			if old == DEq {
				return
			}
			if d != DEq {
				return // LE and GE together: leave the first (they imply EQ, rare)
			}
		}
		env.rel[v] = d
	}
	for _, a := range atoms {
		if a.B == nil {
			continue
		}
		if E.Ref != nil {
			switch {
			case a.A == E.Ref && a.B != E.Ref:
				switch a.Rel {
				case LT, LE: // ref ≤ B
					setRel(a.B, DGe)
				case EQ:
					setRel(a.B, DEq)
				}
			case a.B == E.Ref && a.A != E.Ref:
				switch a.Rel {
				case LT, LE: // A ≤ ref
					setRel(a.A, DLe)
				case EQ:
					setRel(a.A, DEq)
				}
			}
		}
		ia, oka := side(a.A)
		ib, okb := side(a.B)
		switch a.Rel {
		case LT:
			if okb {
				meet(a.A, func(c Itv) Itv { return c.RefineLT(ib) })
			}
			if oka {
				meet(a.B, func(c Itv) Itv { return c.RefineGT(ia) })
			}
		case LE:
			if okb {
				meet(a.A, func(c Itv) Itv { return c.RefineLE(ib) })
			}
			if oka {
				meet(a.B, func(c Itv) Itv { return c.RefineGE(ia) })
			}
		case EQ:
			if okb {
				meet(a.A, func(c Itv) Itv { return c.Meet(ib) })
			}
			if oka {
				meet(a.B, func(c Itv) Itv { return c.Meet(ia) })
			}
		case NE:
			if a.B == ZeroMarker {
				meet(a.A, func(c Itv) Itv { return c.RefineNE0() })
			}
			if a.A == ZeroMarker {
				meet(a.B, func(c Itv) Itv { return c.RefineNE0() })
			}
		}
	}
	// backward sign propagation to a fixpoint (bounded)
	for round := 0; round < 8; round++ {
		changed := false
		var vs []ssa.Value
		for v := range env.ref {
			vs = append(vs, v)
		}
		for _, v := range vs {
			it := env.ref[v]
			c, ok := v.(*ssa.Call)
			if !ok || c.Common().IsInvoke() {
				continue
			}
			sc := c.Common().StaticCallee()
			if sc == nil {
				continue
			}
			args := c.Common().Args
			push := func(x ssa.Value, f func(Itv) Itv) {
				x = E.fwd(ctx, x)
				if _, ok := x.(*ssa.Const); ok {
					return
				}
				cur, ok := env.ref[x]
				if !ok {
					cur = Top()
				}
				n := f(cur)
				if !ok || !n.Eq(cur) {
					env.ref[x] = n
					changed = true
				}
			}
			pos := func(c Itv) Itv { return c.Meet(Pos()) }
			neg := func(c Itv) Itv { return c.Meet(Pos().Neg()) }
			nn := func(c Itv) Itv { return c.RefineNE0() }
			name := mathName(sc)
			switch name {
			case "Dec.TruncateInt", "Dec.TruncateDec", "Dec.Ceil", "LegacyNewDecFromInt", "Int.ToLegacyDec", "Dec.RoundInt", "NewCoin":
				idx := 0
				if name == "NewCoin" {
					idx = 1
				}
				if name == "Dec.Ceil" || name == "LegacyNewDecFromInt" || name == "Int.ToLegacyDec" || name == "NewCoin" {
					// sign-exact in both directions
					if it.GT0() {
						push(args[idx], pos)
					}
					if it.LT0() && name != "Dec.Ceil" {
						push(args[idx], neg)
					}
					if it.NonZero() && name != "Dec.Ceil" {
						push(args[idx], nn)
					}
				} else {
					if it.GT0() {
						push(args[idx], pos) // trunc/round(x) > 0 ⇒ x > 0
					}
					if it.LT0() {
						push(args[idx], neg)
					}
				}
			case "Dec.Neg", "Int.Neg":
				if it.GT0() {
					push(args[0], neg)
				}
				if it.LT0() {
					push(args[0], pos)
				}
			case "Dec.Mul", "Dec.Quo", "Int.Mul", "Int.Quo", "Dec.MulInt", "Dec.QuoInt", "Dec.MulTruncate", "Dec.QuoTruncate", "Dec.QuoRoundUp":
				if len(args) == 2 && it.GT0() {
					a0 := E.eval(ctx, env, args[0], 0).R
					a1 := E.eval(ctx, env, args[1], 0).R
					if a1.GE0() {
						push(args[0], pos)
					}
					if a0.GE0() {
						push(args[1], pos)
					}
					if a1.LE0() {
						push(args[0], neg)
					}
					if a0.LE0() {
						push(args[1], neg)
					}
				}
			}
		}
		if !changed {
			break
		}
		// memo entries of this env computed so far may be stale
		for k := range E.memo {
			if strings.HasPrefix(k, fmt.Sprintf("%d@", env.id)) {
				delete(E.memo, k)
			}
		}
	}
	_ = tainted
	if E.softHit {
		// built while an enclosing operand evaluation was out of budget: do not keep it
		delete(E.envs, key)
	}
	return env
}

func (E *Ranger) fwd(ctx *callCtx, v ssa.Value) ssa.Value {
	if v == nil {
		return nil
	}
	return E.P.Facts(ctx.fn).Fwd(v)
}

// mathName gives a short name for the arithmetic primitives of cosmossdk.io/math and the
// coin constructors, "" otherwise.
func mathName(fn *ssa.Function) string {
	p := fnPkg(fn)
	if p == nil {
		return ""
	}
	switch {
	case p.Path() == "cosmossdk.io/math":
		recv := ""
		if fn.Signature.Recv() != nil {
			switch NamedName(fn.Signature.Recv().Type()) {
			case "LegacyDec":
				recv = "Dec."
			case "Int":
				recv = "Int."
			case "Uint":
				recv = "Uint."
			default:
				return ""
			}
		}
		return recv + fn.Name()
	case strings.HasSuffix(p.Path(), "cosmos-sdk/types"):
		switch fn.Name() {
		case "NewCoin", "NewInt64Coin", "NewDecCoinFromDec":
			if fn.Signature.Recv() == nil {
				return fn.Name()
			}
		}
	}
	return ""
}

// ---- evaluation ---------------------------------------------------------------------------

// ValAt evaluates v as seen at the program point of in.
func (E *Ranger) ValAt(ctx *callCtx, v ssa.Value, in ssa.Instruction) AV {
	return E.eval(ctx, E.EnvAt(ctx, in), v, 0)
}

// MaxRangerSteps bounds one Ranger's work (value evaluations); SideBudget bounds the
// evaluation of one guard operand while an environment is built.
const MaxRangerSteps = 400000
const SideBudget = 15000

func (E *Ranger) eval(ctx *callCtx, env *evalEnv, v ssa.Value, depth int) AV {
	E.steps++
	if E.steps > MaxRangerSteps {
		E.Exhausted = true
		av := topAV()
		av.D = DUnk
		return av
	}
	if E.soft > 0 && E.steps > E.soft {
		E.softHit = true
		av := topAV()
		av.D = DUnk
		return av
	}
	v = E.fwd(ctx, v)
	if v == nil {
		return topAV()
	}
	key := fmt.Sprintf("%d@%s@%p", env.id, ctx.key, v)
	if av, ok := E.memo[key]; ok {
		return av
	}
	if E.busy[key] || depth > 60 {
		av := topAV() // loop-carried value or runaway depth
		av.D = DUnk
		return E.refine(ctx, env, v, av)
	}
	E.busy[key] = true
	av := E.eval1(ctx, env, v, depth)
	delete(E.busy, key)
	av = E.refine(ctx, env, v, av)
	if !E.softHit {
		E.memo[key] = av
	}
	return av
}

// refine applies the environment (guards) and the reference relation to a computed value.
func (E *Ranger) refine(ctx *callCtx, env *evalEnv, v ssa.Value, av AV) AV {
	if it, ok := env.ref[v]; ok {
		av.R = av.R.Meet(it)
	}
	// transfer what the real interval says to the ideal one through D
	switch av.D {
	case DEq:
		av.I = av.I.Meet(av.R)
		av.R = av.R.Meet(av.I)
	case DLe: // real ≤ ideal: ideal inherits real's lower bound
		av.I = av.I.Meet(Itv{lo: av.R.lo, hi: end{inf: 1, open: true}})
	case DGe:
		av.I = av.I.Meet(Itv{lo: end{inf: -1, open: true}, hi: av.R.hi})
	}
	if av.R.Bot || av.I.Bot {
		// contradictory guards: the point is unreachable; keep ⊥ (satisfies everything)
		av.R, av.I = Bottom(), Bottom()
	}
	if E.Ref != nil {
		if v == E.Ref {
			av.F, av.HasF = DEq, true
		}
		if d, ok := env.rel[v]; ok {
			if !av.HasF {
				av.F, av.HasF = d, true
			} else if av.F != d && d == DEq {
				av.F = DEq
			}
		}
		// re-derive a conversion's relation once the sign of its result is known
		if c, ok := v.(*ssa.Call); ok && !c.Common().IsInvoke() {
			if sc := c.Common().StaticCallee(); sc != nil {
				switch mathName(sc) {
				case "Dec.TruncateInt", "Dec.TruncateDec":
					x := E.eval(ctx, env, c.Common().Args[0], 1)
					av = truncRel(av, x, E.RefR)
				}
			}
		}
		if !av.HasF && av.Num && av.R.LE0() && E.RefR.GE0() {
			av.F, av.HasF = DLe, true // v ≤ 0 ≤ ref
		}
	} else if c, ok := v.(*ssa.Call); ok && !c.Common().IsInvoke() {
		if sc := c.Common().StaticCallee(); sc != nil {
			switch mathName(sc) {
			case "Dec.TruncateInt", "Dec.TruncateDec":
				x := E.eval(ctx, env, c.Common().Args[0], 1)
				av = truncRel(av, x, Itv{})
			}
		}
	}
	return av
}

// truncRel derives D (and F) of t = trunc(x) from the sign of t or x.
func truncRel(t AV, x AV, refR Itv) AV {
	var r1 Dir // trunc(x') ? x'
	switch {
	case x.R.Int:
		r1 = DEq
	case t.R.GE0() && x.R.GE0(), t.R.GT0():
		r1 = DLe
	case t.R.LE0() && x.R.LE0(), t.R.LT0():
		r1 = DGe
	default:
		r1 = DUnk
	}
	t.D = compose(r1, x.D)
	if x.HasF {
		f := compose(r1, x.F)
		if f == DUnk && (x.F == DLe || x.F == DEq) && refR.GE0() && !refR.Bot {
			// x ≤ ref, ref ≥ 0: trunc(x) ≤ max(x,0) ≤ ref
			f = DLe
		}
		if f != DUnk {
			t.F, t.HasF = f, true
		} else {
			t.HasF = false
		}
	}
	return t
}

func (E *Ranger) fieldKey(t types.Type, idx int) string {
	n := AsNamed(t)
	st, _ := t.Underlying().(*types.Struct)
	if p, ok := t.Underlying().(*types.Pointer); ok {
		st, _ = p.Elem().Underlying().(*types.Struct)
	}
	if n == nil || st == nil || idx >= st.NumFields() {
		return ""
	}
	return n.Obj().Name() + "." + st.Field(idx).Name()
}

func (E *Ranger) fieldAV(k string, t types.Type) AV {
	av := topAV()
	av.Num = isNumericCarrier(t)
	if it, ok := E.Spec.Fields[k]; ok {
		E.Used["field "+k+" ∈ "+it.String()] = true
		av = leafAV(it)
	}
	return av
}

func ratOfConst(c *ssa.Const) (*big.Rat, bool) {
	if c.Value == nil {
		return nil, false
	}
	switch c.Value.Kind() {
	case constant.Int:
		if bi, ok := new(big.Int).SetString(c.Value.ExactString(), 10); ok {
			return new(big.Rat).SetInt(bi), true
		}
	case constant.Float:
		if r, ok := new(big.Rat).SetString(c.Value.ExactString()); ok {
			return r, true
		}
	case constant.String:
		if r, ok := new(big.Rat).SetString(constant.StringVal(c.Value)); ok {
			return r, true
		}
	}
	return nil, false
}

func (E *Ranger) eval1(ctx *callCtx, env *evalEnv, v ssa.Value, depth int) AV {
	switch x := v.(type) {
	case *ssa.Const:
		if r, ok := ratOfConst(x); ok {
			return constAV(r)
		}
		av := topAV()
		av.Num = false
		return av
	case *ssa.Parameter:
		for i, p := range ctx.fn.Params {
			if p == x && i < len(ctx.params) {
				return ctx.params[i]
			}
		}
		return E.paramAV(ctx.fn, x)
	case *ssa.Phi:
		ff := E.P.Facts(ctx.fn)
		out := AV{R: Bottom(), I: Bottom(), D: DEq, Num: true}
		first := true
		blk := x.Block()
		for i, e := range x.Edges {
			pred := blk.Preds[i]
			if !ff.BlockReachable(pred) {
				continue
			}
			var atoms []*Atom
			atoms = append(atoms, ff.OutFacts(pred)...)
			atoms = append(atoms, ff.EdgeFacts(pred, blk)...)
			eenv := E.envFrom(ctx, ff, atoms)
			// keep what the asking point knows as well
			if len(env.ref) > 0 || len(env.rel) > 0 {
				eenv = E.mergeEnv(ctx, eenv, env)
			}
			ev := E.eval(ctx, eenv, e, depth+1)
			if ev.R.Bot {
				continue // infeasible edge
			}
			if first {
				out = ev
				first = false
				continue
			}
			out.R = out.R.Join(ev.R)
			out.I = out.I.Join(ev.I)
			out.D = joinDir(out.D, ev.D)
			if out.HasF && ev.HasF {
				out.F = joinDir(out.F, ev.F)
				if out.F == DUnk {
					out.HasF = false
				}
			} else {
				out.HasF = false
			}
			out.Num = out.Num && ev.Num
		}
		if first {
			return AV{R: Bottom(), I: Bottom(), D: DEq, Num: true}
		}
		return out
	case *ssa.Extract:
		if c, ok := x.Tuple.(*ssa.Call); ok {
			return E.callResult(ctx, env, c, x.Index, depth)
		}
	case *ssa.Call:
		return E.callResult(ctx, env, x, 0, depth)
	case *ssa.Field:
		k := E.fieldKey(x.X.Type(), x.Field)
		inner := E.eval(ctx, env, x.X, depth+1)
		fa := E.fieldAV(k, x.Type())
		if isCoinLike(x.X.Type()) && k == "Coin.Amount" && inner.Num {
			// a coin is carried as its amount
			inner.R = inner.R.Meet(fa.R)
			inner.I = inner.I.Meet(fa.I)
			return inner
		}
		return fa
	case *ssa.UnOp:
		if x.Op.String() == "*" {
			if g, ok := x.X.(*ssa.Global); ok {
				// a package-level variable initialised once (a named constant): its initialiser,
				// evaluated in the init function
				ff := E.P.Facts(ctx.fn)
				if iv := ff.GlobalInit(g); iv != nil && iv.Parent() != nil && len(E.stack) < 6 {
					ictx := E.ctxFor(iv.Parent(), nil)
					return E.eval(ictx, &evalEnv{id: 0, ref: map[ssa.Value]Itv{}, rel: map[ssa.Value]Dir{}}, iv, depth+1)
				}
			}
			if fa, ok := x.X.(*ssa.FieldAddr); ok {
				k := E.fieldKey(fa.X.Type(), fa.Field)
				return E.fieldAV(k, x.Type())
			}
			if ia, ok := x.X.(*ssa.IndexAddr); ok {
				_ = ia
				av := topAV()
				av.Num = isNumericCarrier(x.Type())
				return av
			}
		}
		if x.Op.String() == "-" {
			return avNeg(E.eval(ctx, env, x.X, depth+1))
		}
	case *ssa.BinOp:
		a := E.eval(ctx, env, x.X, depth+1)
		b := E.eval(ctx, env, x.Y, depth+1)
		switch x.Op.String() {
		case "+":
			return E.avAdd(a, b)
		case "-":
			return E.avAdd(a, avNeg(b))
		case "*":
			return E.avMul(a, b)
		}
	case *ssa.Convert:
		return E.eval(ctx, env, x.X, depth+1)
	case *ssa.ChangeType:
		return E.eval(ctx, env, x.X, depth+1)
	case *ssa.MakeInterface:
		return E.eval(ctx, env, x.X, depth+1)
	}
	av := topAV()
	av.Num = isNumericCarrier(v.Type()) || isCoinLike(v.Type())
	return av
}

func isCoinLike(t types.Type) bool {
	n := AsNamed(t)
	return n != nil && n.Obj().Pkg() != nil && strings.HasSuffix(n.Obj().Pkg().Path(), "cosmos-sdk/types") && (n.Obj().Name() == "Coin" || n.Obj().Name() == "DecCoin")
}

func (E *Ranger) mergeEnv(ctx *callCtx, a, b *evalEnv) *evalEnv {
	key := fmt.Sprintf("merge:%d+%d", a.id, b.id)
	if e, ok := E.envs[key]; ok {
		return e
	}
	E.envN++
	m := &evalEnv{id: E.envN, ref: map[ssa.Value]Itv{}, rel: map[ssa.Value]Dir{}}
	for k, v := range a.ref {
		m.ref[k] = v
	}
	for k, v := range b.ref {
		if o, ok := m.ref[k]; ok {
			m.ref[k] = o.Meet(v)
		} else {
			m.ref[k] = v
		}
	}
	for k, v := range a.rel {
		m.rel[k] = v
	}
	for k, v := range b.rel {
		if _, ok := m.rel[k]; !ok {
			m.rel[k] = v
		}
	}
	E.envs[key] = m
	return m
}

// ---- arithmetic on abstract values ----------------------------------------------------------

func avNeg(a AV) AV {
	r := AV{R: a.R.Neg(), I: a.I.Neg(), D: a.D.flip(), Num: true}
	return r
}

func (E *Ranger) avAdd(a, b AV) AV {
	r := AV{R: a.R.Add(b.R), I: a.I.Add(b.I), Num: true}
	switch {
	case a.D == DEq:
		r.D = b.D
	case b.D == DEq:
		r.D = a.D
	case a.D == b.D:
		r.D = a.D
	default:
		r.D = DUnk
	}
	// reference relation: x (F) + y (sign)
	f := func(x, y AV) (Dir, bool) {
		if !x.HasF {
			return 0, false
		}
		switch {
		case (x.F == DEq || x.F == DGe) && y.R.GE0():
			if x.F == DEq && y.R.LE0() {
				return DEq, true
			}
			return DGe, true
		case (x.F == DEq || x.F == DLe) && y.R.LE0():
			return DLe, true
		}
		return 0, false
	}
	if d, ok := f(a, b); ok && !b.HasF {
		r.F, r.HasF = d, true
	} else if d, ok := f(b, a); ok && !a.HasF {
		r.F, r.HasF = d, true
	}
	return r
}

// mulDir decides real-vs-ideal of a product.
func mulDir(a, b AV) Dir {
	if a.D == DEq && b.D == DEq {
		return DEq
	}
	if a.D == DUnk || b.D == DUnk {
		return DUnk
	}
	// decomposition 1: a'b' ? a b' ? a b
	step := func(d Dir, other Itv) Dir { // x' d x, multiplied by a value in `other`
		switch {
		case d == DEq:
			return DEq
		case other.GE0():
			return d
		case other.LE0():
			return d.flip()
		}
		return DUnk
	}
	try := func(s1, s2 Dir) Dir {
		if s1 == DUnk || s2 == DUnk {
			return DUnk
		}
		return compose(s1, s2)
	}
	// a'b' vs a b' (sign of real b), then a b' vs a b (sign of ideal a)
	if d := try(step(a.D, b.R), step(b.D, a.I)); d != DUnk {
		return d
	}
	// a'b' vs a' b (sign of real a), then a' b vs a b (sign of ideal b)
	if d := try(step(b.D, a.R), step(a.D, b.I)); d != DUnk {
		return d
	}
	return DUnk
}

func (E *Ranger) avMul(a, b AV) AV {
	r := AV{R: a.R.Mul(b.R), I: a.I.Mul(b.I), D: mulDir(a, b), Num: true}
	one := ratInt(1)
	f := func(x, y AV) (Dir, bool) { // x has F, y is a plain factor
		if !x.HasF || E.Ref == nil || !E.RefR.GE0() || E.RefR.Bot {
			return 0, false
		}
		switch {
		case (x.F == DEq || x.F == DLe) && y.R.In01():
			if x.F == DEq {
				if c, ok := y.R.IsConst(); ok && c.Cmp(one) == 0 {
					return DEq, true
				}
			}
			return DLe, true
		case (x.F == DEq || x.F == DGe) && y.R.GEc(one):
			return DGe, true
		}
		return 0, false
	}
	if d, ok := f(a, b); ok && !b.HasF {
		r.F, r.HasF = d, true
	} else if d, ok := f(b, a); ok && !a.HasF {
		r.F, r.HasF = d, true
	}
	return r
}

func (E *Ranger) avInv(b AV, what string) (AV, bool) {
	ri, ok1 := b.R.Inv()
	ii, ok2 := b.I.Inv()
	r := AV{R: ri, I: ii, Num: true}
	if !ok1 {
		return r, false
	}
	switch {
	case b.D == DEq:
		r.D = DEq
	case ok2 && ((b.R.GT0() && b.I.GT0()) || (b.R.LT0() && b.I.LT0())):
		r.D = b.D.flip()
	default:
		r.D = DUnk
	}
	return r, true
}

func (E *Ranger) avQuo(a, b AV, what string) AV {
	ib, ok := E.avInv(b, what)
	if !ok {
		if !E.quiet {
			E.note("%s: divisor %s may be zero", what, b.R)
		}
		r := topAV()
		r.D = DUnk
		return r
	}
	r := E.avMul(a, AV{R: ib.R, I: ib.I, D: ib.D, Num: true})
	r.R.Int, r.I.Int = false, false
	return r
}

func avIdent(a AV) AV { return a }

// ---- calls -----------------------------------------------------------------------------------

func (E *Ranger) args(ctx *callCtx, env *evalEnv, vs []ssa.Value, depth int) []AV {
	out := make([]AV, len(vs))
	for i, v := range vs {
		out[i] = E.eval(ctx, env, v, depth+1)
	}
	return out
}

func (E *Ranger) callResult(ctx *callCtx, env *evalEnv, c *ssa.Call, idx int, depth int) AV {
	cc := c.Common()
	resT := c.Type()
	if tup, ok := resT.(*types.Tuple); ok && idx < tup.Len() {
		resT = tup.At(idx).Type()
	}
	unknown := func() AV {
		av := topAV()
		av.Num = isNumericCarrier(resT) || isCoinLike(resT)
		return av
	}
	if cc.IsInvoke() {
		name := cc.Method.Name()
		k := NamedName(cc.Value.Type()) + "." + name
		if it, ok := E.Spec.Results[k]; ok && idx == 0 {
			E.Used["result "+k+" ∈ "+it.String()] = true
			return leafAV(it)
		}
		return unknown()
	}
	sc := cc.StaticCallee()
	if sc == nil {
		return unknown()
	}
	if mn := mathName(sc); mn != "" && idx == 0 {
		if av, ok := E.mathCall(ctx, env, c, mn, depth); ok {
			return av
		}
		return unknown()
	}
	key := E.P.Key(sc)
	if E.Spec.MonoUp[key] && idx == 0 && len(cc.Args) == 2 {
		as := E.args(ctx, env, cc.Args, depth)
		E.Used["declared primitive "+key+": result ≥ 0, non-decreasing in argument 0 when argument 1 ≥ 0"] = true
		r := AV{R: NonNeg(), I: NonNeg(), Num: true, D: DUnk}
		if as[1].D == DEq && as[1].R.GE0() {
			r.D = as[0].D
		}
		// base ≥ 1 ⇒ power ≥ 1 ; base ∈ [0,1] ⇒ power ∈ [0,1]   (exponent ≥ 0)
		one := ratInt(1)
		if as[1].R.GE0() {
			if as[0].R.GEc(one) {
				r.R = Range(one, nil, false, false)
			} else if as[0].R.In01() {
				r.R = Range(ratInt(0), one, false, false)
			}
		}
		if as[1].I.GE0() {
			if as[0].I.GEc(one) {
				r.I = Range(one, nil, false, false)
			} else if as[0].I.In01() {
				r.I = Range(ratInt(0), one, false, false)
			}
		}
		return r
	}
	if it, ok := E.Spec.Results[key]; ok && idx == 0 {
		E.Used["result "+key+" ∈ "+it.String()] = true
		return leafAV(it)
	}
	if sc.Blocks != nil && InModule(sc) && len(E.stack) < 6 {
		for _, f := range E.stack {
			if f == sc {
				return unknown()
			}
		}
		as := E.args(ctx, env, cc.Args, depth)
		res := E.summaryRel(sc, as, E.argRelations(ctx, env, cc.Args, depth))
		if idx < len(res) {
			return res[idx]
		}
	}
	return unknown()
}

// Summary evaluates the results of fn for the given argument values: the join over every
// return that is not a definite error exit.
func (E *Ranger) Summary(fn *ssa.Function, args []AV) []AV { return E.summaryRel(fn, args, nil) }

func (E *Ranger) summaryRel(fn *ssa.Function, args []AV, rel map[int]map[int]Dir) []AV {
	cctx := E.ctxForRel(fn, append([]AV{}, args...), rel)
	mk := "sum:" + cctx.key
	if _, ok := E.memo[mk]; ok {
		return E.sums[mk]
	}
	if E.sums == nil {
		E.sums = map[string][]AV{}
	}
	E.stack = append(E.stack, fn)
	defer func() { E.stack = E.stack[:len(E.stack)-1] }()
	ff := E.P.Facts(fn)
	n := fn.Signature.Results().Len()
	out := make([]AV, n)
	first := true
	for _, ex := range ff.Exits() {
		ret, ok := ex.Instr.(*ssa.Return)
		if !ok || ex.Kind == ExitError {
			continue
		}
		env := E.EnvAt(cctx, ret)
		for i := 0; i < n && i < len(ret.Results); i++ {
			ev := E.eval(cctx, env, ret.Results[i], 0)
			if first {
				out[i] = ev
				continue
			}
			o := out[i]
			if ev.R.Bot {
				continue
			}
			if o.R.Bot {
				out[i] = ev
				continue
			}
			o.R = o.R.Join(ev.R)
			o.I = o.I.Join(ev.I)
			o.D = joinDir(o.D, ev.D)
			if o.HasF && ev.HasF {
				o.F = joinDir(o.F, ev.F)
				o.HasF = o.F != DUnk
			} else {
				o.HasF = false
			}
			out[i] = o
		}
		first = false
	}
	if first {
		for i := range out {
			out[i] = topAV()
		}
	}
	E.memo[mk] = AV{}
	if !E.softHit {
		E.sums[mk] = out
	}
	return out
}

func (E *Ranger) mathCall(ctx *callCtx, env *evalEnv, c *ssa.Call, mn string, depth int) (AV, bool) {
	cc := c.Common()
	as := E.args(ctx, env, cc.Args, depth)
	what := E.P.Pos(c.Pos()) + " " + mn
	constArg := func(i int) (*big.Rat, bool) {
		if i >= len(cc.Args) {
			return nil, false
		}
		return as[i].R.IsConst()
	}
	switch mn {
	case "LegacyZeroDec", "ZeroInt", "ZeroUint":
		return constAV(ratInt(0)), true
	case "LegacyOneDec", "OneInt", "OneUint":
		return constAV(ratInt(1)), true
	case "LegacySmallestDec":
		return constAV(big.NewRat(1, 1_000_000_000_000_000_000)), true
	case "NewInt", "LegacyNewDec", "NewIntFromUint64", "NewUint", "LegacyNewDecFromInt", "Int.ToLegacyDec", "LegacyNewDecFromBigInt", "NewIntFromBigInt",
		"Dec.TruncateDec0":
		return avIdent(as[0]), true
	case "LegacyNewDecWithPrec":
		if v, ok := constArg(0); ok {
			if p, ok := constArg(1); ok && p.IsInt() {
				den := new(big.Int).Exp(big.NewInt(10), p.Num(), nil)
				return constAV(new(big.Rat).Quo(v, new(big.Rat).SetInt(den))), true
			}
		}
		return topAV(), true
	case "LegacyMustNewDecFromStr":
		if v, ok := constArg(0); ok {
			return constAV(v), true
		}
		return topAV(), true
	case "Dec.Add", "Int.Add", "Int.AddRaw", "Uint.Add":
		return E.avAdd(as[0], as[1]), true
	case "Dec.Sub", "Int.Sub", "Int.SubRaw", "Uint.Sub":
		return E.avAdd(as[0], avNeg(as[1])), true
	case "Dec.Mul", "Dec.MulInt", "Dec.MulInt64", "Int.Mul", "Int.MulRaw", "Dec.MulTruncate", "Dec.MulRoundUp", "Uint.Mul":
		return E.avMul(as[0], as[1]), true
	case "Dec.Quo", "Dec.QuoInt", "Dec.QuoInt64", "Dec.QuoTruncate", "Dec.QuoRoundUp":
		q := E.avQuo(as[0], as[1], what)
		if pi, pj := E.paramIndex(ctx, cc.Args[0]), E.paramIndex(ctx, cc.Args[1]); pi >= 0 && pj >= 0 && ctx.rel != nil {
			one := ratInt(1)
			switch ctx.rel[pi][pj] {
			case DGe: // numerator ≥ denominator > 0
				if as[1].R.GT0() && as[1].I.GT0() {
					q.R = q.R.Meet(Range(one, nil, false, false))
					q.I = q.I.Meet(Range(one, nil, false, false))
				}
			case DLe: // 0 ≤ numerator ≤ denominator
				if as[1].R.GT0() && as[1].I.GT0() && as[0].R.GE0() && as[0].I.GE0() {
					q.R = q.R.Meet(Range(ratInt(0), one, false, false))
					q.I = q.I.Meet(Range(ratInt(0), one, false, false))
				}
			}
		}
		return q, true
	case "Int.Quo", "Int.QuoRaw", "Uint.Quo":
		q := E.avQuo(as[0], as[1], what)
		t := AV{R: q.R.Trunc(), I: q.I, D: DUnk, Num: true}
		return truncRel(t, q, E.RefR), true
	case "Dec.Neg", "Int.Neg":
		return avNeg(as[0]), true
	case "Dec.Abs", "Int.Abs":
		a := as[0]
		if a.R.GE0() && a.I.GE0() {
			return a, true
		}
		return AV{R: a.R.Abs(), I: a.I.Abs(), D: DUnk, Num: true}, true
	case "Dec.TruncateInt", "Dec.TruncateDec", "Dec.TruncateInt64":
		a := as[0]
		t := AV{R: a.R.Trunc(), I: a.I, D: DUnk, Num: true}
		return truncRel(t, a, E.RefR), true
	case "Dec.Ceil":
		a := as[0]
		r := AV{R: a.R.Ceil(), I: a.I, D: compose(DGe, a.D), Num: true}
		if a.R.Int {
			r.D = a.D
		}
		if a.HasF && (a.F == DEq || a.F == DGe) {
			r.F, r.HasF = DGe, true
		}
		return r, true
	case "Dec.RoundInt", "Dec.RoundInt64":
		a := as[0]
		r := AV{R: Itv{lo: a.R.Trunc().lo, hi: a.R.Ceil().hi, Int: true}, I: a.I, D: DUnk, Num: true}
		if a.R.Bot {
			r.R = a.R
		}
		if a.R.Int {
			r.D, r.F, r.HasF = a.D, a.F, a.HasF
		}
		return r, true
	case "LegacyMinDec", "MinInt":
		a, b := as[0], as[1]
		r := AV{R: Itv{lo: minLo(a.R.lo, b.R.lo), hi: minHi(a.R.hi, b.R.hi), Int: a.R.Int && b.R.Int}, I: Itv{lo: minLo(a.I.lo, b.I.lo), hi: minHi(a.I.hi, b.I.hi)}, Num: true}
		r.D = DUnk
		if a.D == b.D {
			r.D = a.D
		}
		if (a.HasF && (a.F == DEq || a.F == DLe)) || (b.HasF && (b.F == DEq || b.F == DLe)) {
			r.F, r.HasF = DLe, true
		}
		return r, true
	case "LegacyMaxDec", "MaxInt":
		a, b := as[0], as[1]
		r := AV{R: Itv{lo: maxLo(a.R.lo, b.R.lo), hi: maxHi(a.R.hi, b.R.hi), Int: a.R.Int && b.R.Int}, I: Itv{lo: maxLo(a.I.lo, b.I.lo), hi: maxHi(a.I.hi, b.I.hi)}, Num: true}
		r.D = DUnk
		if a.D == b.D {
			r.D = a.D
		}
		if (a.HasF && (a.F == DEq || a.F == DGe)) || (b.HasF && (b.F == DEq || b.F == DGe)) {
			r.F, r.HasF = DGe, true
		}
		return r, true
	case "NewCoin", "NewInt64Coin":
		a := as[1]
		// NewCoin panics on a negative amount: what it returns is non-negative
		a.R = a.R.Meet(NonNeg())
		return a, true
	}
	return AV{}, false
}

// SetRef designates the reference value of the F relation (evaluated in ctx at in).
func (E *Ranger) SetRef(ctx *callCtx, v ssa.Value, in ssa.Instruction) {
	E.Ref = nil
	r := E.ValAt(ctx, v, in)
	E.Ref = E.fwd(ctx, v)
	E.RefR = r.R
	// memoised values were computed without the relation
	E.memo = map[string]AV{}
	E.sums = nil
}

// ClearRef removes the reference value.
func (E *Ranger) ClearRef() {
	E.Ref = nil
	E.memo = map[string]AV{}
	E.sums = nil
}

func (E *Ranger) paramIndex(ctx *callCtx, v ssa.Value) int {
	fv := E.fwd(ctx, v)
	for i, p := range ctx.fn.Params {
		if ssa.Value(p) == fv {
			return i
		}
	}
	return -1
}
