package core

import (
	"fmt"
	"os"
	"sort"
	"strings"

	"golang.org/x/tools/go/callgraph"
	"golang.org/x/tools/go/callgraph/cha"
	"golang.org/x/tools/go/callgraph/vta"
	"golang.org/x/tools/go/packages"
	"golang.org/x/tools/go/ssa"
	"golang.org/x/tools/go/ssa/ssautil"
)

// VTAEdges loads the whole program (all dependencies from source), builds the VTA call
// graph and returns the edges between two functions of the Elys module as
// "callerKey → calleeKey" strings (DESIGN §1.2, thorough tier).
func VTAEdges(dir string) (map[string]bool, int, error) {
	e, _, n, err := VTAEdgesExt(dir)
	return e, n, err
}

// VTAEdgesExt additionally returns the Elys functions that have an incoming VTA edge from
// a caller outside the module (framework entry points), keyed as "calleeKey" with one
// sample external caller as value.
func VTAEdgesExt(dir string) (map[string]bool, map[string]string, int, error) {
	os.Unsetenv("GOWORK")
	env := append(os.Environ(), "GOFLAGS=-mod=mod", "GOPROXY=off", "GOSUMDB=off", "GOTOOLCHAIN=local", "GOWORK=off")
	cfg := &packages.Config{Mode: packages.LoadAllSyntax, Dir: dir, Env: env}
	pkgs, err := packages.Load(cfg, "./x/...", "./app/...", "./cmd/...")
	if err != nil {
		return nil, nil, 0, err
	}
	if packages.PrintErrors(pkgs) > 0 {
		return nil, nil, 0, fmt.Errorf("package errors in whole-program load")
	}
	prog, _ := ssautil.AllPackages(pkgs, ssa.InstantiateGenerics)
	prog.Build()
	all := ssautil.AllFunctions(prog)
	g := vta.CallGraph(all, cha.CallGraph(prog))
	edges := map[string]bool{}
	ext := map[string]string{}
	callgraph.GraphVisitEdges(g, func(e *callgraph.Edge) error {
		c, t := e.Caller.Func, e.Callee.Func
		if c == nil || t == nil || !InModule(t) || t.Blocks == nil {
			return nil
		}
		if !InModule(c) {
			if c.Pkg != nil || c.Synthetic == "" {
				k := funcKey(unwrap(t))
				if _, ok := ext[k]; !ok {
					ext[k] = c.String()
				}
			}
			return nil
		}
		c, t = unwrap(c), unwrap(t)
		if c == t {
			return nil // method wrapper calling the method it wraps
		}
		if c.Synthetic != "" && (strings.Contains(c.Synthetic, "wrapper") || strings.Contains(c.Synthetic, "thunk")) {
			return nil
		}
		edges[funcKey(c)+" → "+funcKey(t)] = true
		return nil
	})
	return edges, ext, len(all), nil
}

// CHAEdgeSet renders the repo-CHA edges in the same form.
func (P *Program) CHAEdgeSet() map[string]bool {
	out := map[string]bool{}
	for c, es := range P.CG().Out {
		for _, e := range es {
			out[P.Key(c)+" → "+P.Key(e.Callee)] = true
		}
	}
	return out
}

// SortedKeys is a small helper for deterministic output.
func SortedKeys(m map[string]bool) []string {
	var ks []string
	for k := range m {
		ks = append(ks, k)
	}
	sort.Strings(ks)
	return ks
}
