package core

import (
	"fmt"
	"go/constant"
	"go/token"
	"go/types"
	"sort"
	"strings"

	"golang.org/x/tools/go/ssa"
)

// Lin is a linear form Σ coeff·term over canonical term keys (DESIGN §1.6 / D4).
type Lin map[string]int

func (l Lin) add(o Lin, k int) {
	for t, c := range o {
		l[t] += c * k
		if l[t] == 0 {
			delete(l, t)
		}
	}
}

// Plus returns l + k·o.
func (l Lin) Plus(o Lin, k int) Lin {
	r := Lin{}
	r.add(l, 1)
	r.add(o, k)
	return r
}

func (l Lin) IsZero() bool { return len(l) == 0 }

func (l Lin) Equal(o Lin) bool { return l.Plus(o, -1).IsZero() }

func (l Lin) String() string {
	if len(l) == 0 {
		return "0"
	}
	var ks []string
	for k := range l {
		ks = append(ks, k)
	}
	sort.Strings(ks)
	var sb strings.Builder
	for i, k := range ks {
		c := l[k]
		switch {
		case c == 1 && i == 0:
		case c == 1:
			sb.WriteString(" + ")
		case c == -1:
			sb.WriteString(" - ")
		case c > 0 && i > 0:
			fmt.Fprintf(&sb, " + %d·", c)
		default:
			fmt.Fprintf(&sb, " %d·", c)
		}
		sb.WriteString(k)
	}
	return strings.TrimSpace(sb.String())
}

// LinOf computes the linear normal form of an amount-carrying value (math.Int, LegacyDec,
// sdk.Coin, sdk.Coins, DecCoins). Coins are projected to their amounts: NewCoin(d,a) ↦ a,
// Coins{c…} ↦ Σ c, c.Amount ↦ c.
func (ff *FuncFacts) LinOf(v ssa.Value) Lin {
	return ff.lin(v, 0)
}

func single(k string) Lin { return Lin{k: 1} }

func (ff *FuncFacts) lin(v ssa.Value, depth int) Lin {
	if v == nil {
		return single("?nil")
	}
	if depth > 30 {
		return single(ff.termKey(v))
	}
	if ff.LeafKey != nil {
		if k, ok := ff.LeafKey(v); ok {
			return single(k)
		}
	}
	v = ff.Fwd(v)
	switch x := v.(type) {
	case *ssa.Const:
		if x.Value != nil && x.Value.Kind() == constant.Int {
			if n, ok := constant.Int64Val(x.Value); ok && n == 0 {
				return Lin{}
			}
		}
		if x.Value == nil {
			return Lin{} // nil Coins slice
		}
	case *ssa.Call:
		cc := x.Common()
		if cc.IsInvoke() {
			break
		}
		sc := cc.StaticCallee()
		if sc == nil {
			break
		}
		name := sc.Name()
		pkg := ""
		if p := fnPkg(sc); p != nil {
			pkg = p.Path()
		}
		recvMath := sc.Signature.Recv() != nil && IsMathType(sc.Signature.Recv().Type())
		switch {
		case recvMath && (name == "Add" || name == "Sub") && len(cc.Args) == 2:
			k := 1
			if name == "Sub" {
				k = -1
			}
			return ff.lin(cc.Args[0], depth+1).Plus(ff.linArgs(cc.Args[1], depth+1), k)
		case recvMath && (name == "AddAmount" || name == "SubAmount" || name == "AddRaw" || name == "SubRaw") && len(cc.Args) == 2:
			k := 1
			if strings.HasPrefix(name, "Sub") {
				k = -1
			}
			return ff.lin(cc.Args[0], depth+1).Plus(ff.lin(cc.Args[1], depth+1), k)
		case recvMath && name == "Neg" && len(cc.Args) == 1:
			return Lin{}.Plus(ff.lin(cc.Args[0], depth+1), -1)
		case recvMath && (name == "AmountOf") && len(cc.Args) == 2:
			// coins.AmountOf(denom): projection; keep the denom in the key when coins is not a singleton
			inner := ff.lin(cc.Args[0], depth+1)
			if len(inner) <= 1 {
				return inner
			}
		case (pkg == "cosmossdk.io/math" && (name == "ZeroInt" || name == "LegacyZeroDec")) && len(cc.Args) == 0:
			return Lin{}
		case strings.HasSuffix(pkg, "cosmos-sdk/types") && name == "NewCoin" && len(cc.Args) == 2:
			return ff.lin(cc.Args[1], depth+1)
		case strings.HasSuffix(pkg, "cosmos-sdk/types") && name == "NewCoins" && len(cc.Args) == 1:
			return ff.linArgs(cc.Args[0], depth+1)
		case strings.HasSuffix(pkg, "cosmos-sdk/types") && name == "NewDecCoinsFromCoins" && len(cc.Args) == 1:
			return ff.linArgs(cc.Args[0], depth+1)
		}
	case *ssa.Slice:
		return ff.linArgs(x, depth+1)
	case *ssa.Extract:
		if x.Index == 0 && ff.IdentityCalls != nil {
			if c, ok := x.Tuple.(*ssa.Call); ok && ff.IdentityCalls[CalleeName(c.Common())] && len(c.Common().Args) >= 1 {
				return ff.lin(c.Common().Args[0], depth+1)
			}
		}
	case *ssa.Field:
		// coin.Amount ↦ coin
		if fieldName(x.X.Type(), x.Field) == "Amount" && isCoinType(x.X.Type()) {
			return ff.lin(x.X, depth+1)
		}
	case *ssa.UnOp:
		if x.Op == token.MUL {
			if fa, ok := x.X.(*ssa.FieldAddr); ok && fieldName(fa.X.Type(), fa.Field) == "Amount" && isCoinType(fa.X.Type()) {
				// load of coin.Amount through memory: the coin itself
				if ld := ff.loadOfAddr(fa.X); ld != nil {
					return ff.lin(ld, depth+1)
				}
				return single(ff.termKey(fa.X))
			}
			if r, ok := ff.fwd[x]; ok && len(r.Rest) == 1 {
				if fieldName(r.V.Type(), r.Rest[0]) == "Amount" && isCoinType(r.V.Type()) {
					return ff.lin(r.V, depth+1)
				}
			}
		}
	}
	return single(ff.termKey(v))
}

// loadOfAddr: the value stored at a forwardable alloc (whole), if unique.
func (ff *FuncFacts) loadOfAddr(addr ssa.Value) ssa.Value {
	a, ok := addr.(*ssa.Alloc)
	if !ok || a.Referrers() == nil {
		return nil
	}
	var val ssa.Value
	n := 0
	for _, r := range *a.Referrers() {
		if st, ok := r.(*ssa.Store); ok && st.Addr == a {
			val = st.Val
			n++
		}
	}
	if n == 1 {
		return val
	}
	return nil
}

func isCoinType(t types.Type) bool {
	n := AsNamed(t)
	return n != nil && n.Obj().Pkg() != nil && strings.HasSuffix(n.Obj().Pkg().Path(), "cosmos-sdk/types") &&
		(n.Obj().Name() == "Coin" || n.Obj().Name() == "DecCoin")
}

// linArgs handles a variadic / slice-literal argument: Σ of the stored elements, or the
// linear form of the slice value itself.
func (ff *FuncFacts) linArgs(v ssa.Value, depth int) Lin {
	v = ff.Fwd(v)
	if els, ok := SliceLiteral(v); ok {
		r := Lin{}
		for _, e := range els {
			r.add(ff.lin(e, depth+1), 1)
		}
		return r
	}
	if c, ok := v.(*ssa.Const); ok && c.Value == nil {
		return Lin{}
	}
	return ff.lin(v, depth+1)
}

// SliceLiteral recognises `new [n]T; &t[i] = e_i; slice t[:]` and returns the elements.
func SliceLiteral(v ssa.Value) ([]ssa.Value, bool) {
	sl, ok := v.(*ssa.Slice)
	if !ok {
		return nil, false
	}
	a, ok := sl.X.(*ssa.Alloc)
	if !ok || a.Referrers() == nil {
		return nil, false
	}
	byIdx := map[int64]ssa.Value{}
	for _, r := range *a.Referrers() {
		ia, ok := r.(*ssa.IndexAddr)
		if !ok {
			continue
		}
		c, ok := ia.Index.(*ssa.Const)
		if !ok || ia.Referrers() == nil {
			return nil, false
		}
		i, _ := constant.Int64Val(c.Value)
		for _, rr := range *ia.Referrers() {
			if st, ok := rr.(*ssa.Store); ok && st.Addr == ia {
				if _, dup := byIdx[i]; dup {
					return nil, false
				}
				byIdx[i] = st.Val
			}
		}
	}
	if len(byIdx) == 0 {
		return nil, false
	}
	out := make([]ssa.Value, 0, len(byIdx))
	for i := int64(0); i < int64(len(byIdx)); i++ {
		e, ok := byIdx[i]
		if !ok {
			return nil, false
		}
		out = append(out, e)
	}
	return out, true
}

// termKey gives a canonical structural key for an opaque term: equal keys ⇒ equal values.
func (ff *FuncFacts) termKey(v ssa.Value) string { return ff.tkey(v, 0) }

// TermKey exposes the canonical structural key (equal keys ⇒ equal values).
func (ff *FuncFacts) TermKey(v ssa.Value) string { return ff.tkey(v, 0) }

func (ff *FuncFacts) tkey(v ssa.Value, depth int) string {
	if v == nil {
		return "nil"
	}
	if depth > 12 {
		return fmt.Sprintf("v%d", ff.id(v))
	}
	v = ff.Fwd(v)
	switch x := v.(type) {
	case *ssa.Parameter:
		return x.Name()
	case *ssa.FreeVar:
		return "free:" + x.Name()
	case *ssa.Const:
		if x.Value == nil {
			return "nil"
		}
		return x.Value.ExactString()
	case *ssa.Field:
		return ff.tkey(x.X, depth+1) + "." + fieldName(x.X.Type(), x.Field)
	case *ssa.Extract:
		return fmt.Sprintf("%s#%d", ff.tkey(x.Tuple, depth+1), x.Index)
	case *ssa.Call:
		cc := x.Common()
		if f, ok := ff.P.PBGetterField(cc); ok {
			k := ff.tkey(cc.Args[0], depth+1) + "." + f
			if _, isPtr := cc.Args[0].Type().Underlying().(*types.Pointer); isPtr {
				k = "*" + k
			}
			return k
		}
		if !cc.IsInvoke() {
			if sc := cc.StaticCallee(); sc != nil && isPure(sc) {
				var as []string
				for _, a := range cc.Args {
					as = append(as, ff.tkey(a, depth+1))
				}
				return sc.Name() + "(" + strings.Join(as, ",") + ")"
			}
		}
		// an impure call result is identified by the call instruction itself
		return fmt.Sprintf("%s@%d", CalleeName(cc), ff.id(x))
	case *ssa.UnOp:
		if x.Op == token.MUL {
			if r, ok := ff.fwd[x]; ok {
				k := ff.tkey(r.V, depth+1)
				t := r.V.Type()
				for _, fi := range r.Rest {
					k += "." + fieldName(t, fi)
					t = fieldType(t, fi)
				}
				return k
			}
			// memory load: unify loads of a location that is never stored to in this function
			base, path := addrPath(x.X)
			if ff.neverStored(base, path) {
				k := ff.tkey(base, depth+1)
				t := base.Type()
				for _, fi := range path {
					k += "." + fieldName(t, fi)
					t = fieldType(t, fi)
				}
				return "*" + k
			}
			return fmt.Sprintf("load@%d", ff.id(ff.loadRep(x)))
		}
	case *ssa.Alloc:
		return fmt.Sprintf("alloc@%d", ff.id(x))
	case *ssa.Phi:
		return fmt.Sprintf("phi@%d", ff.id(x))
	case *ssa.Slice:
		if els, ok := SliceLiteral(x); ok {
			var as []string
			for _, e := range els {
				as = append(as, ff.tkey(e, depth+1))
			}
			return "[" + strings.Join(as, ",") + "]"
		}
	}
	return fmt.Sprintf("v%d", ff.id(v))
}

// neverStored: no instruction of the function stores to (base, path) or a prefix/extension
// of it, and base is a pointer parameter or forwardable alloc not handed to calls.
func (ff *FuncFacts) neverStored(base ssa.Value, path []int) bool {
	switch base.(type) {
	case *ssa.Parameter, *ssa.Alloc, *ssa.FreeVar:
	default:
		return false
	}
	pk := pathKey(path)
	for _, b := range ff.Fn.Blocks {
		for _, in := range b.Instrs {
			switch x := in.(type) {
			case *ssa.Store:
				sb, sp := addrPath(x.Addr)
				if sb == base {
					sk := pathKey(sp)
					if sk == pk || strings.HasPrefix(sk, pk+".") || strings.HasPrefix(pk, sk+".") || sk == "" {
						if _, isParamSpill := base.(*ssa.Alloc); isParamSpill && sk == "" && in.Block().Index == 0 {
							continue // initial spill of a parameter into its alloc
						}
						return false
					}
				}
			case ssa.CallInstruction:
				var rands []*ssa.Value
				for _, r := range in.Operands(rands) {
					if *r != nil && *r == base {
						if _, isParam := base.(*ssa.Parameter); isParam {
							return false // pointer handed to a callee that may write through it
						}
					}
				}
			}
		}
	}
	return true
}

var pureNames = map[string]bool{
	"Add": true, "Sub": true, "Mul": true, "Quo": true, "Neg": true, "ToLegacyDec": true, "TruncateInt": true, "RoundInt": true,
	"Ceil": true, "MulInt": true, "QuoInt": true, "MulTruncate": true, "QuoTruncate": true, "AmountOf": true, "TruncateDecimal": true,
	"MulDecTruncate": true, "MulDec": true, "QuoDec": true, "Abs": true, "NewCoin": true, "NewCoins": true, "NewDecCoinsFromCoins": true,
	"NewInt": true, "LegacyNewDec": true, "ZeroInt": true, "LegacyZeroDec": true, "OneInt": true, "LegacyOneDec": true, "MinInt": true,
	"MaxInt": true, "LegacyMinDec": true, "LegacyMaxDec": true, "NewDecCoinFromDec": true, "NewDecCoins": true, "LegacyNewDecFromInt": true,
	"String": true, "GetShareDenom": true, "GetPoolShareDenom": true, "MulRaw": true, "QuoRaw": true, "AddRaw": true, "SubRaw": true,
	"LegacyNewDecWithPrec": true, "LegacyMustNewDecFromStr": true, "NewIntFromUint64": true, "Uint64": true, "Int64": true,
}

func isPure(fn *ssa.Function) bool {
	if !pureNames[fn.Name()] {
		return false
	}
	p := fnPkg(fn)
	if p == nil {
		return false
	}
	path := p.Path()
	if strings.HasPrefix(path, Module) {
		return fn.Name() == "GetShareDenom" || fn.Name() == "GetPoolShareDenom"
	}
	return path == "cosmossdk.io/math" || strings.HasSuffix(path, "cosmos-sdk/types")
}

// ---- value numbering of memory loads ---------------------------------------------------------

// loadRep returns the representative of a memory load: an earlier load of the structurally
// same address that dominates it with no possibly-aliasing store and no impure call on any
// path in between (so both read the same value).  `x.f` read twice in a row is one term.
func (ff *FuncFacts) loadRep(x *ssa.UnOp) *ssa.UnOp {
	if ff.loadReps == nil {
		ff.loadReps = map[*ssa.UnOp]*ssa.UnOp{}
		ff.loadsByAddr = map[string][]*ssa.UnOp{}
		n := 0
		for _, b := range ff.Fn.Blocks {
			n += len(b.Instrs)
		}
		if n <= 4000 {
			for _, b := range ff.Fn.Blocks {
				for _, in := range b.Instrs {
					if u, ok := in.(*ssa.UnOp); ok && u.Op == token.MUL {
						if k := ff.addrKey(u.X, 0); k != "" {
							ff.loadsByAddr[k] = append(ff.loadsByAddr[k], u)
						}
					}
				}
			}
		}
	}
	if r, ok := ff.loadReps[x]; ok {
		return r
	}
	ff.loadReps[x] = x // cycle guard
	k := ff.addrKey(x.X, 0)
	rep := x
	if k != "" {
		var best *ssa.UnOp
		for _, c := range ff.loadsByAddr[k] {
			if c == x || !Dominates(c, x) {
				continue
			}
			if best != nil && !Dominates(best, c) {
				continue // keep the nearest dominating candidate
			}
			best = c
		}
		if best != nil && !ff.killedBetween(best, x) {
			rep = ff.loadRep(best)
		}
	}
	ff.loadReps[x] = rep
	return rep
}

func (ff *FuncFacts) addrKey(a ssa.Value, depth int) string {
	if depth > 8 {
		return ""
	}
	switch x := a.(type) {
	case *ssa.FieldAddr:
		if k := ff.addrKey(x.X, depth+1); k != "" {
			return k + "." + fieldName(x.X.Type(), x.Field)
		}
	case *ssa.IndexAddr:
		if k := ff.addrKey(x.X, depth+1); k != "" {
			return fmt.Sprintf("%s[v%d]", k, ff.id(ff.Fwd(x.Index)))
		}
	case *ssa.UnOp:
		if x.Op == token.MUL {
			if _, ok := ff.fwd[x]; ok {
				return fmt.Sprintf("v%d", ff.id(ff.Fwd(x)))
			}
			return fmt.Sprintf("L%d", ff.id(ff.loadRep(x)))
		}
	case *ssa.Parameter, *ssa.FreeVar, *ssa.Global:
		return fmt.Sprintf("v%d", ff.id(a))
	case *ssa.Alloc:
		return "" // locals are handled by store forwarding
	case *ssa.Extract, *ssa.Call, *ssa.Phi:
		return fmt.Sprintf("v%d", ff.id(a))
	}
	return ""
}

// killedBetween: may the value at c's address change on some path from c to x?
func (ff *FuncFacts) killedBetween(c, x *ssa.UnOp) bool {
	t := x.Type()
	_, hit := ReachesWithout(ff.Fn, c, func(in ssa.Instruction) bool {
		switch y := in.(type) {
		case *ssa.Store:
			if _, isAlloc := y.Addr.(*ssa.Alloc); isAlloc {
				return false // a local variable cannot alias a heap location
			}
			return types.Identical(y.Val.Type(), t) || !isBasicOrMath(t)
		case ssa.CallInstruction:
			cc := y.Common()
			if cc.IsInvoke() {
				return true
			}
			if _, isBuiltin := cc.Value.(*ssa.Builtin); isBuiltin {
				return cc.Value.Name() == "copy" || cc.Value.Name() == "append" || cc.Value.Name() == "delete" || cc.Value.Name() == "clear"
			}
			sc := cc.StaticCallee()
			if sc == nil {
				return true
			}
			if p := fnPkg(sc); p != nil && (p.Path() == "cosmossdk.io/math" || (strings.HasSuffix(p.Path(), "cosmos-sdk/types") && sc.Signature.Recv() != nil && IsMathType(sc.Signature.Recv().Type()))) {
				return false // value-semantics arithmetic and comparisons
			}
			return true
		}
		return false
	}, func(in ssa.Instruction) bool { return in == ssa.Instruction(x) })
	return hit
}

func isBasicOrMath(t types.Type) bool {
	if IsMathType(t) {
		return true
	}
	_, ok := t.Underlying().(*types.Basic)
	return ok
}
