package core

import (
	"go/token"
	"go/types"
	"sort"
	"strings"

	"golang.org/x/tools/go/ssa"
)

// Edge is one resolved call (or function-value hand-over) inside the Elys module.
type Edge struct {
	Caller *ssa.Function
	Site   ssa.Instruction
	Callee *ssa.Function
	Kind   string // static | iface | funcvalue
}

// CallGraph is the "repo CHA" graph of DESIGN §1.2.
type CallGraph struct {
	Out        map[*ssa.Function][]*Edge
	In         map[*ssa.Function][]*Edge
	BySite     map[ssa.Instruction][]*ssa.Function
	Unresolved int // dynamic calls through func values that could not be resolved
	IfaceSites int
	Edges      int
}

type ifaceKey struct {
	iface  *types.Interface
	method string
}

// CG builds (once) and returns the call graph.
func (P *Program) CG() *CallGraph {
	if P.cg != nil {
		return P.cg
	}
	g := &CallGraph{Out: map[*ssa.Function][]*Edge{}, In: map[*ssa.Function][]*Edge{}, BySite: map[ssa.Instruction][]*ssa.Function{}}
	cache := map[ifaceKey][]*ssa.Function{}
	inSet := map[*ssa.Function]bool{}
	for _, f := range P.Funcs {
		inSet[f] = true
	}
	add := func(caller *ssa.Function, site ssa.Instruction, callee *ssa.Function, kind string) {
		if callee == nil {
			return
		}
		if callee.Blocks == nil || !InModule(callee) {
			return
		}
		for _, e := range g.Out[caller] {
			if e.Site == site && e.Callee == callee {
				return
			}
		}
		e := &Edge{caller, site, callee, kind}
		g.Out[caller] = append(g.Out[caller], e)
		g.In[callee] = append(g.In[callee], e)
		g.BySite[site] = append(g.BySite[site], callee)
		g.Edges++
	}
	for _, fn := range P.Funcs {
		for _, b := range fn.Blocks {
			for _, in := range b.Instrs {
				if c, ok := in.(ssa.CallInstruction); ok {
					cc := c.Common()
					if cc.IsInvoke() {
						g.IfaceSites++
						for _, t := range P.resolveInvoke(cc, cache) {
							add(fn, in, t, "iface")
						}
					} else if sc := cc.StaticCallee(); sc != nil {
						add(fn, in, unwrap(sc), "static")
					} else if _, isBuiltin := cc.Value.(*ssa.Builtin); !isBuiltin {
						// dynamic call through a func value: try local closure flow
						if t := localFuncValue(cc.Value); t != nil {
							add(fn, in, t, "static")
						} else if ts := globalTableFuncs(cc.Value); len(ts) > 0 {
							// a dispatch table: package-level map/slice of functions filled once
							for _, t := range ts {
								add(fn, in, unwrap(t), "funcvalue")
							}
						} else {
							g.Unresolved++
						}
					}
				}
				// function values handed over as operands (closures passed to iterators,
				// deferred closures, upgrade handlers …)
				var rands []*ssa.Value
				for i, r := range in.Operands(rands) {
					if *r == nil {
						continue
					}
					if c, ok := in.(ssa.CallInstruction); ok && i == 0 && !c.Common().IsInvoke() {
						// operand 0 of a non-invoke call is the callee itself
						if _, isMC := (*r).(*ssa.MakeClosure); !isMC {
							continue
						}
						if c.Common().StaticCallee() != nil {
							continue
						}
					}
					switch v := (*r).(type) {
					case *ssa.MakeClosure:
						if f, ok := v.Fn.(*ssa.Function); ok {
							add(fn, in, unwrap(f), "funcvalue")
						}
					case *ssa.Function:
						add(fn, in, unwrap(v), "funcvalue")
					}
				}
			}
		}
	}
	P.cg = g
	return g
}

// unwrap maps synthetic method wrappers / bound-method closures to the declared method.
func unwrap(f *ssa.Function) *ssa.Function {
	if f == nil {
		return nil
	}
	if f.Synthetic != "" && f.Blocks != nil && (strings.Contains(f.Synthetic, "wrapper") || strings.Contains(f.Synthetic, "thunk")) {
		if o, ok := f.Object().(*types.Func); ok && f.Prog != nil {
			if d := f.Prog.FuncValue(o); d != nil && d != f {
				return d
			}
		}
	}
	return f
}

func localFuncValue(v ssa.Value) *ssa.Function {
	switch x := v.(type) {
	case *ssa.MakeClosure:
		if f, ok := x.Fn.(*ssa.Function); ok {
			return f
		}
	case *ssa.Function:
		return x
	}
	return nil
}

func (P *Program) resolveInvoke(cc *ssa.CallCommon, cache map[ifaceKey][]*ssa.Function) []*ssa.Function {
	iface, ok := cc.Value.Type().Underlying().(*types.Interface)
	if !ok {
		return nil
	}
	// wiring-aware refinement: a call through a keeper field that app/ wires to known
	// concrete types can only reach those types
	if concrete, wired := P.wiredTypes(cc.Value); wired {
		all := P.resolveInvokeCHA(cc, iface, cache)
		var out []*ssa.Function
		for _, f := range all {
			rt := AsNamed(f.Signature.Recv().Type())
			for _, ct := range concrete {
				if rt != nil && AsNamed(ct) == rt {
					out = append(out, f)
				}
			}
		}
		return out
	}
	return P.resolveInvokeCHA(cc, iface, cache)
}

func (P *Program) resolveInvokeCHA(cc *ssa.CallCommon, iface *types.Interface, cache map[ifaceKey][]*ssa.Function) []*ssa.Function {
	k := ifaceKey{iface, cc.Method.Name()}
	if r, ok := cache[k]; ok {
		return r
	}
	var out []*ssa.Function
	seen := map[*ssa.Function]bool{}
	for _, nt := range P.named {
		if _, isIface := nt.Underlying().(*types.Interface); isIface {
			continue
		}
		if nt.TypeParams().Len() > 0 {
			continue
		}
		var T types.Type = nt
		if !types.Implements(T, iface) {
			T = types.NewPointer(nt)
			if !types.Implements(T, iface) {
				continue
			}
		}
		sel := P.SSA.MethodSets.MethodSet(T).Lookup(cc.Method.Pkg(), cc.Method.Name())
		if sel == nil {
			continue
		}
		mf, ok := sel.Obj().(*types.Func)
		if !ok {
			continue
		}
		f := P.SSA.FuncValue(mf)
		if f == nil || f.Blocks == nil || seen[f] {
			continue
		}
		seen[f] = true
		out = append(out, f)
	}
	sort.Slice(out, func(i, j int) bool { return P.Key(out[i]) < P.Key(out[j]) })
	cache[k] = out
	return out
}

// Callees returns the Elys functions a call site may reach.
func (P *Program) Callees(site ssa.Instruction) []*ssa.Function { return P.CG().BySite[site] }

// Reach computes the set of functions reachable from the given roots.
func (P *Program) Reach(roots []*ssa.Function) map[*ssa.Function]bool {
	g := P.CG()
	seen := map[*ssa.Function]bool{}
	var stack []*ssa.Function
	for _, r := range roots {
		if r != nil && !seen[r] {
			seen[r] = true
			stack = append(stack, r)
		}
	}
	for len(stack) > 0 {
		f := stack[len(stack)-1]
		stack = stack[:len(stack)-1]
		for _, e := range g.Out[f] {
			if !seen[e.Callee] {
				seen[e.Callee] = true
				stack = append(stack, e.Callee)
			}
		}
	}
	return seen
}

// PathTo returns one call chain root→…→target (keys) for diagnostics.
func (P *Program) PathTo(roots []*ssa.Function, target *ssa.Function) []string {
	g := P.CG()
	prev := map[*ssa.Function]*ssa.Function{}
	seen := map[*ssa.Function]bool{}
	var q []*ssa.Function
	for _, r := range roots {
		if r != nil && !seen[r] {
			seen[r] = true
			q = append(q, r)
		}
	}
	for len(q) > 0 {
		f := q[0]
		q = q[1:]
		if f == target {
			var p []string
			for x := f; x != nil; x = prev[x] {
				p = append([]string{P.Key(x)}, p...)
			}
			return p
		}
		for _, e := range g.Out[f] {
			if !seen[e.Callee] {
				seen[e.Callee] = true
				prev[e.Callee] = f
				q = append(q, e.Callee)
			}
		}
	}
	return nil
}

// ---------------------------------------------------------------------------------
// Roots (DESIGN §1.3) — discovered from types.

type Roots struct {
	Msg     []*ssa.Function // MsgServer methods of hand-written implementers
	Block   []*ssa.Function // BeginBlock/EndBlock/PreBlock of AppModules
	Hook    []*ssa.Function // hook interface implementations, IBC callbacks, ante, InitGenesis
	Upgrade []*ssa.Function // Migrator methods, upgrade handler closures
}

func (r *Roots) Consensus() []*ssa.Function {
	var out []*ssa.Function
	out = append(out, r.Msg...)
	out = append(out, r.Block...)
	out = append(out, r.Hook...)
	return out
}

func (r *Roots) All() []*ssa.Function { return append(r.Consensus(), r.Upgrade...) }

func (P *Program) isGeneratedType(nt *types.Named) bool {
	return IsGeneratedOrAux(P.File(nt.Obj().Pos()))
}

// methodsImplementing returns, for every hand-written Elys named type implementing iface,
// the declared functions for iface's methods.
func (P *Program) methodsImplementing(iface *types.Interface) []*ssa.Function {
	var out []*ssa.Function
	for _, nt := range P.named {
		if _, isIface := nt.Underlying().(*types.Interface); isIface || P.isGeneratedType(nt) {
			continue
		}
		var T types.Type = nt
		if !types.Implements(T, iface) {
			T = types.NewPointer(nt)
			if !types.Implements(T, iface) {
				continue
			}
		}
		ms := P.SSA.MethodSets.MethodSet(T)
		for i := 0; i < iface.NumMethods(); i++ {
			m := iface.Method(i)
			sel := ms.Lookup(m.Pkg(), m.Name())
			if sel == nil {
				continue
			}
			if mf, ok := sel.Obj().(*types.Func); ok {
				if f := P.SSA.FuncValue(mf); f != nil && f.Blocks != nil && InModule(f) {
					out = append(out, f)
				}
			}
		}
	}
	return out
}

// MsgServerIfaces lists the MsgServer interfaces declared in Elys types packages.
func (P *Program) MsgServerIfaces() map[string]*types.Interface {
	out := map[string]*types.Interface{}
	for _, nt := range P.named {
		if nt.Obj().Name() != "MsgServer" {
			continue
		}
		if it, ok := nt.Underlying().(*types.Interface); ok {
			out[RelPath(nt.Obj().Pkg().Path())] = it
		}
	}
	return out
}

// FindRoots enumerates the analysis roots.
func (P *Program) FindRoots() *Roots {
	r := &Roots{}
	uniq := func(fs []*ssa.Function) []*ssa.Function {
		seen := map[*ssa.Function]bool{}
		var out []*ssa.Function
		for _, f := range fs {
			if f != nil && !seen[f] {
				seen[f] = true
				out = append(out, f)
			}
		}
		sort.Slice(out, func(i, j int) bool { return P.Key(out[i]) < P.Key(out[j]) })
		return out
	}
	for _, it := range P.MsgServerIfaces() {
		r.Msg = append(r.Msg, P.methodsImplementing(it)...)
	}
	// hook interfaces declared in Elys + StakingHooks + IBCModule + AnteDecorator
	for _, nt := range P.named {
		it, ok := nt.Underlying().(*types.Interface)
		if !ok || it.NumMethods() == 0 {
			continue
		}
		if strings.HasSuffix(nt.Obj().Name(), "Hooks") {
			r.Hook = append(r.Hook, P.methodsImplementing(it)...)
		}
	}
	for _, fn := range P.Funcs {
		if fn.Parent() != nil || fn.Synthetic != "" {
			continue
		}
		file := P.File(fn.Pos())
		if IsGeneratedOrAux(file) {
			continue
		}
		name := fn.Name()
		recv := ""
		if fn.Signature.Recv() != nil {
			recv = NamedName(fn.Signature.Recv().Type())
		}
		switch {
		case recv == "AppModule" && (name == "BeginBlock" || name == "EndBlock" || name == "PreBlock"):
			r.Block = append(r.Block, fn)
		case recv == "ElysApp" && (name == "BeginBlocker" || name == "EndBlocker" || name == "PreBlocker"):
			r.Block = append(r.Block, fn)
		case name == "InitGenesis" || name == "InitChainer":
			r.Hook = append(r.Hook, fn)
		case recv == "Migrator":
			r.Upgrade = append(r.Upgrade, fn)
		case name == "AnteHandle" || name == "PostHandle":
			r.Hook = append(r.Hook, fn)
		case recv == "IBCModule" || recv == "IBCMiddleware":
			if strings.HasPrefix(name, "On") {
				r.Hook = append(r.Hook, fn)
			}
		case strings.HasPrefix(file, "app/") && (strings.Contains(strings.ToLower(name), "upgrade") || strings.Contains(file, "setup_handlers")):
			r.Upgrade = append(r.Upgrade, fn)
		}
		// staking hooks implemented by Elys types (AfterDelegationModified …)
		if fn.Signature.Recv() != nil && recv == "Hooks" {
			r.Hook = append(r.Hook, fn)
		}
	}
	// Elys values handed to code outside the module as an interface (the commitment keeper
	// wired into the SDK distribution keeper as its bank keeper, IBC middleware …): the
	// framework may call every method of that interface on them
	for _, fn := range P.Funcs {
		if !strings.HasPrefix(PkgRel(fn), "app") || IsGeneratedOrAux(P.File(fn.Pos())) {
			continue
		}
		for _, b := range fn.Blocks {
			for _, in := range b.Instrs {
				c, ok := in.(ssa.CallInstruction)
				if !ok || c.Common().IsInvoke() {
					continue
				}
				sc := c.Common().StaticCallee()
				if sc == nil || InModule(sc) {
					continue
				}
				for _, a := range c.Common().Args {
					mi, ok := a.(*ssa.MakeInterface)
					if !ok {
						continue
					}
					nt := AsNamed(mi.X.Type())
					it, isI := mi.Type().Underlying().(*types.Interface)
					if nt == nil || !isI || nt.Obj().Pkg() == nil || !strings.HasPrefix(nt.Obj().Pkg().Path(), Module) || it.NumMethods() == 0 {
						continue
					}
					if strings.HasSuffix(nt.Obj().Name(), "AppModule") || strings.HasSuffix(nt.Obj().Name(), "AppModuleBasic") {
						continue // module plumbing is covered by the block / genesis roots
					}
					ms := P.SSA.MethodSets.MethodSet(mi.X.Type())
					for i := 0; i < it.NumMethods(); i++ {
						sel := ms.Lookup(it.Method(i).Pkg(), it.Method(i).Name())
						if sel == nil {
							continue
						}
						if mf, ok := sel.Obj().(*types.Func); ok {
							if f := P.SSA.FuncValue(mf); f != nil && f.Blocks != nil && InModule(f) {
								r.Hook = append(r.Hook, unwrap(f))
							}
						}
					}
				}
			}
		}
	}
	r.Msg, r.Block, r.Hook, r.Upgrade = uniq(r.Msg), uniq(r.Block), uniq(r.Hook), uniq(r.Upgrade)
	return r
}

// ---- keeper wiring ---------------------------------------------------------------------

type wireKey struct {
	typ   *types.Named
	field string
}

// wiredTypes: v is a read of field f of a struct S for which every assignment of f in the
// module stores a constructor/setter parameter and every call site of those constructors
// passes a value of known concrete type (app/keepers wiring).  Returns those types.
func (P *Program) wiredTypes(v ssa.Value) ([]types.Type, bool) {
	w := P.keeperWiring()
	var S *types.Named
	var f string
	switch x := v.(type) {
	case *ssa.Field:
		S, f = AsNamed(x.X.Type()), fieldName(x.X.Type(), x.Field)
	case *ssa.UnOp:
		if fa, ok := x.X.(*ssa.FieldAddr); ok && x.Op == token.MUL {
			S, f = AsNamed(fa.X.Type()), fieldName(fa.X.Type(), fa.Field)
		}
	}
	if S == nil {
		return nil, false
	}
	ts, ok := w[wireKey{S, f}]
	if !ok || ts == nil {
		return nil, false
	}
	return ts, true
}

func (P *Program) keeperWiring() map[wireKey][]types.Type {
	if P.wiring != nil {
		return P.wiring
	}
	w := map[wireKey][]types.Type{}
	unknown := map[wireKey]bool{}
	type pf struct {
		fn  *ssa.Function
		idx int
	}
	paramField := map[pf][]wireKey{}
	for _, fn := range P.Funcs {
		if IsGeneratedOrAux(P.File(fn.Pos())) {
			continue
		}
		for _, b := range fn.Blocks {
			for _, in := range b.Instrs {
				st, ok := in.(*ssa.Store)
				if !ok {
					continue
				}
				fa, ok := st.Addr.(*ssa.FieldAddr)
				if !ok {
					continue
				}
				if _, isIface := st.Val.Type().Underlying().(*types.Interface); !isIface {
					continue
				}
				S := AsNamed(fa.X.Type())
				if S == nil || S.Obj().Pkg() == nil || !strings.HasPrefix(S.Obj().Pkg().Path(), Module) {
					continue
				}
				k := wireKey{S, fieldName(fa.X.Type(), fa.Field)}
				val := st.Val
				for {
					if ci, ok := val.(*ssa.ChangeInterface); ok {
						val = ci.X
						continue
					}
					break
				}
				switch x := val.(type) {
				case *ssa.Parameter:
					for i, p := range fn.Params {
						if p == x {
							paramField[pf{fn, i}] = append(paramField[pf{fn, i}], k)
						}
					}
				case *ssa.MakeInterface:
					w[k] = append(w[k], x.X.Type())
				default:
					unknown[k] = true
				}
			}
		}
	}
	// call sites of the constructors / setters
	called := map[pf]bool{}
	var flows [][2]wireKey // dst ← src
	for _, fn := range P.Funcs {
		for _, b := range fn.Blocks {
			for _, in := range b.Instrs {
				c, ok := in.(ssa.CallInstruction)
				if !ok || c.Common().IsInvoke() {
					continue
				}
				sc := c.Common().StaticCallee()
				if sc == nil {
					continue
				}
				sc = unwrap(sc)
				for i, a := range c.Common().Args {
					ks := paramField[pf{sc, i}]
					if len(ks) == 0 {
						continue
					}
					if IsGeneratedOrAux(P.File(fn.Pos())) {
						continue // test set-ups wire mocks
					}
					called[pf{sc, i}] = true
					val := a
					for {
						if ci, ok := val.(*ssa.ChangeInterface); ok {
							val = ci.X
							continue
						}
						break
					}
					if mi, ok := val.(*ssa.MakeInterface); ok {
						for _, k := range ks {
							w[k] = append(w[k], mi.X.Type())
						}
					} else if cst, ok := val.(*ssa.Const); ok && cst.Value == nil {
						// nil wiring: nothing reachable through it
					} else if sk, ok := fieldReadKey(val); ok {
						// wired from another wired field (app.BankKeeper → keeper.bankKeeper)
						for _, k := range ks {
							flows = append(flows, [2]wireKey{k, sk})
						}
					} else {
						for _, k := range ks {
							unknown[k] = true
						}
					}
				}
			}
		}
	}
	for p, ks := range paramField {
		if !called[p] {
			for _, k := range ks {
				if len(w[k]) == 0 {
					unknown[k] = true
				}
			}
		}
	}
	// propagate field-to-field wiring to a fixpoint
	for changed := true; changed; {
		changed = false
		for _, fl := range flows {
			dst, src := fl[0], fl[1]
			for _, t := range w[src] {
				have := false
				for _, x := range w[dst] {
					if types.Identical(x, t) {
						have = true
					}
				}
				if !have {
					w[dst] = append(w[dst], t)
					changed = true
				}
			}
		}
	}
	for changed := true; changed; {
		changed = false
		for _, fl := range flows {
			dst, src := fl[0], fl[1]
			if (unknown[src] || len(w[src]) == 0) && !unknown[dst] {
				unknown[dst] = true
				changed = true
			}
		}
	}
	for k := range unknown {
		delete(w, k)
	}
	P.wiring = w
	return w
}

func fieldReadKey(v ssa.Value) (wireKey, bool) {
	switch x := v.(type) {
	case *ssa.Field:
		if S := AsNamed(x.X.Type()); S != nil {
			return wireKey{S, fieldName(x.X.Type(), x.Field)}, true
		}
	case *ssa.UnOp:
		if fa, ok := x.X.(*ssa.FieldAddr); ok && x.Op == token.MUL {
			if S := AsNamed(fa.X.Type()); S != nil {
				return wireKey{S, fieldName(fa.X.Type(), fa.Field)}, true
			}
		}
	}
	return wireKey{}, false
}

// globalTableFuncs: v is an element of a package-level map (or slice/array) that the package
// init function fills with function values and nothing else writes: the functions.
func globalTableFuncs(v ssa.Value) []*ssa.Function {
	if e, ok := v.(*ssa.Extract); ok {
		v = e.Tuple
	}
	var container ssa.Value
	switch x := v.(type) {
	case *ssa.Lookup:
		container = x.X
	case *ssa.Index:
		container = x.X
	case *ssa.UnOp:
		if ia, ok := x.X.(*ssa.IndexAddr); ok && x.Op == token.MUL {
			container = ia.X
		}
	}
	ld, ok := container.(*ssa.UnOp)
	if !ok || ld.Op != token.MUL {
		return nil
	}
	g, ok := ld.X.(*ssa.Global)
	if !ok || g.Pkg == nil {
		return nil
	}
	// the value stored into the global in init, and the updates of that value
	var out []*ssa.Function
	var stored ssa.Value
	for _, m := range g.Pkg.Members {
		fn, ok := m.(*ssa.Function)
		if !ok {
			continue
		}
		for _, b := range fn.Blocks {
			for _, in := range b.Instrs {
				if st, ok := in.(*ssa.Store); ok && st.Addr == ssa.Value(g) {
					if fn.Name() != "init" || stored != nil {
						return nil
					}
					stored = st.Val
				}
			}
		}
	}
	if stored == nil || stored.Referrers() == nil {
		return nil
	}
	for _, r := range *stored.Referrers() {
		switch x := r.(type) {
		case *ssa.MapUpdate:
			val := x.Value
			for {
				if ct, ok := val.(*ssa.ChangeType); ok {
					val = ct.X
					continue
				}
				break
			}
			f := localFuncValue(val)
			if f == nil {
				return nil
			}
			out = append(out, f)
		case *ssa.Store:
		default:
			// any other use (besides being stored in the global) is fine for a make(map) value
		}
	}
	return out
}
