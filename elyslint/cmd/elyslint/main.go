// elyslint decides the Elys properties by static analysis of /repo's working tree.
package main

import (
	"runtime/pprof"
	"flag"
	"fmt"
	"os"
	"sort"
	"strings"

	"elyslint/core"
	"elyslint/rules"

	"golang.org/x/tools/go/ssa"
)

func main() {
	if f := os.Getenv("ELYSLINT_CPUPROF"); f != "" {
		if w, err := os.Create(f); err == nil {
			_ = pprof.StartCPUProfile(w)
			defer pprof.StopCPUProfile()
		}
	}
	if len(os.Args) < 2 {
		fmt.Fprintln(os.Stderr, "usage: elyslint check|dump|roots|funcs ...")
		os.Exit(2)
	}
	switch os.Args[1] {
	case "check":
		code := check(os.Args[2:])
		pprof.StopCPUProfile()
		os.Exit(code)
	case "dump":
		dump(os.Args[2:])
	case "roots":
		roots()
	case "funcs":
		funcs(os.Args[2:])
	case "effects":
		effects()
	case "matrix":
		matrix()
	case "vta":
		vtaCmd()
	case "inline":
		inlineCmd(os.Args[2:])
	case "baseline-funcs":
		P := mustLoad()
		for _, k := range P.DeclaredFuncKeys() {
			fmt.Println(k)
		}
		cc := P.DeclaredClosureCounts()
		var ks []string
		for k := range cc {
			ks = append(ks, k)
		}
		sort.Strings(ks)
		for _, k := range ks {
			fmt.Printf("CLOSURES %s %d\n", k, cc[k])
		}
	case "range":
		rangeCmd(os.Args[2:])
	case "nfdebug":
		nfdebug(os.Args[2:])
	case "omatrix":
		omatrix(os.Args[2:])
	default:
		fmt.Fprintln(os.Stderr, "unknown command", os.Args[1])
		os.Exit(2)
	}
}

func check(args []string) int {
	fs := flag.NewFlagSet("check", flag.ExitOnError)
	prop := fs.String("property", "", "property id")
	tier := fs.String("tier", "quick", "quick|thorough")
	only := fs.String("only", "", "print only the obligation with this key (replay)")
	fs.Parse(args)
	if t := os.Getenv("VERIF_TIER"); t != "" && *tier == "" {
		*tier = t
	}
	c := rules.Get(*prop)
	if c == nil {
		fmt.Fprintf(os.Stderr, "no checker for %q (have %v)\n", *prop, rules.IDs())
		return 2
	}
	P, err := core.Load(core.RepoDir(), nil)
	if err != nil {
		return core.Fail(*prop, *tier, err.Error())
	}
	R, PV := rules.Decide(*prop, *tier, P, nil)
	if *tier == "thorough" {
		func() {
			defer func() {
				if e := recover(); e != nil {
					R.Undecided("analyser-panic", "-", fmt.Sprint(e), "-", "the analyser panicked in the thorough tier; no verdict")
				}
			}()
			rules.Thorough(*prop, PV, R)
		}()
	}
	if *only != "" {
		for _, o := range R.Obls {
			if o.Key() == *only {
				fmt.Printf("%s: [%s] %s — %s\n", o.Pos, o.Status, o.Key(), o.Detail)
			}
		}
	}
	return R.Finish(PV)
}

func mustLoad() *core.Program {
	var ov map[string][]byte
	if pf := os.Getenv("ELYSLINT_PATCH"); pf != "" {
		// debugging aid: analyse /repo with a patch applied in memory
		o, err := rules.OverlayFor(core.RepoDir(), pf, os.Getenv("ELYSLINT_PATCH_REVERSE") != "")
		if err != nil {
			fmt.Fprintln(os.Stderr, "patch:", err)
			os.Exit(2)
		}
		ov = o
	}
	P, err := core.Load(core.RepoDir(), ov)
	if err != nil {
		fmt.Fprintln(os.Stderr, err)
		os.Exit(2)
	}
	return P
}

func roots() {
	P := mustLoad()
	r := P.FindRoots()
	pr := func(name string, fs []*ssa.Function) {
		fmt.Printf("== %s (%d)\n", name, len(fs))
		for _, f := range fs {
			fmt.Println("  ", P.Key(f))
		}
	}
	pr("msg", r.Msg)
	pr("block", r.Block)
	pr("hook", r.Hook)
	pr("upgrade", r.Upgrade)
	g := P.CG()
	fmt.Printf("load %.1fs funcs=%d edges=%d ifaceSites=%d unresolved=%d reach(consensus)=%d\n", P.LoadSecs, len(P.Funcs), g.Edges, g.IfaceSites, g.Unresolved, len(P.Reach(r.Consensus())))
}

func funcs(args []string) {
	P := mustLoad()
	for _, f := range P.Funcs {
		k := P.Key(f)
		if len(args) == 0 || strings.Contains(k, args[0]) {
			fmt.Println(k, P.Pos(f.Pos()))
		}
	}
}

func dump(args []string) {
	P := mustLoad()
	for _, key := range args {
		fn := P.Fn(key)
		if fn == nil {
			fmt.Println("no such function:", key)
			continue
		}
		ff := P.Facts(fn)
		fmt.Println("=====", key, P.Pos(fn.Pos()))
		for _, b := range fn.Blocks {
			if os.Getenv("ELYSLINT_DUMP_BLOCKS") != "" && len(b.Instrs) > 0 {
				var fs []string
				for _, a := range ff.At(b.Instrs[len(b.Instrs)-1]) {
					fs = append(fs, ff.AtomString(a))
				}
				sort.Strings(fs)
				var ps, ss []string
				for _, p := range b.Preds {
					ps = append(ps, fmt.Sprint("b", p.Index))
				}
				for _, p := range b.Succs {
					ss = append(ss, fmt.Sprint("b", p.Index))
				}
				fmt.Printf("BLOCK b%d preds=%v succs=%v last=%s\n      facts at end: %s\n", b.Index, ps, ss, b.Instrs[len(b.Instrs)-1], strings.Join(fs, " ; "))
			}
			for _, in := range b.Instrs {
				c, ok := in.(ssa.CallInstruction)
				if !ok {
					continue
				}
				var fs []string
				for _, a := range ff.At(in) {
					fs = append(fs, ff.AtomString(a))
				}
				sort.Strings(fs)
				var cal []string
				for _, t := range P.Callees(in) {
					cal = append(cal, P.Key(t))
				}
				fmt.Printf("b%d %s  call %s -> %v\n      facts: %s\n", b.Index, P.Pos(P.InstrPos(in)), P.CalleeKey(c.Common()), cal, strings.Join(fs, " ; "))
			}
		}
		for _, e := range ff.Exits() {
			var fs []string
			for _, a := range ff.At(e.Instr) {
				fs = append(fs, ff.AtomString(a))
			}
			fmt.Printf("exit b%d %s kind=%d facts: %s\n", e.Instr.Block().Index, P.Pos(P.InstrPos(e.Instr)), e.Kind, strings.Join(fs, " ; "))
		}
	}
}

func effects() {
	P := mustLoad()
	r := P.FindRoots()
	reach := P.Reach(r.All())
	cnt := map[string]int{}
	for _, fn := range P.Funcs {
		if !reach[fn] {
			continue
		}
		for _, c := range core.Calls(fn) {
			cc := c.Common()
			if sc := cc.StaticCallee(); sc != nil && core.InModule(sc) {
				continue
			}
			if cc.IsInvoke() && len(P.Callees(c)) > 0 {
				continue
			}
			e := P.EffectOf(c)
			cnt[fmt.Sprintf("%-14s %s", e, P.CalleeKey(cc))]++
		}
	}
	var ks []string
	for k := range cnt {
		ks = append(ks, k)
	}
	sort.Strings(ks)
	for _, k := range ks {
		fmt.Printf("%4d %s\n", cnt[k], k)
	}
}

// matrix runs every registered checker on one load and prints the violated obligations
// per property (no evidence is written). Used to record which checks catch a seeded change.
// omatrix applies a diff as an in-memory overlay of the current tree (never touching
// /repo) and runs every checker on the variant: `elyslint omatrix [-R] [-v] patch.diff`.
func omatrix(args []string) {
	rev, verbose := false, false
	for len(args) > 0 && strings.HasPrefix(args[0], "-") {
		if args[0] == "-R" {
			rev = true
		}
		if args[0] == "-v" {
			verbose = true
		}
		args = args[1:]
	}
	ov, err := rules.OverlayFor(core.RepoDir(), args[0], rev)
	if err != nil {
		fmt.Println("APPLY-ERROR", err)
		os.Exit(3)
	}
	P, err := core.Load(core.RepoDir(), ov)
	if err != nil {
		fmt.Println("LOAD-ERROR", err)
		os.Exit(3)
	}
	runMatrix(P, verbose)
}

func matrix() {
	P, err := core.Load(core.RepoDir(), nil)
	if err != nil {
		fmt.Println("LOAD-ERROR", err)
		os.Exit(3)
	}
	runMatrix(P, false)
}

func runMatrix(P *core.Program, verbose bool) {
	nf := &rules.NFCache{}
	only := os.Getenv("ELYSLINT_ONLY")
	for _, id := range rules.IDs() {
		if only != "" && !strings.Contains(","+only+",", ","+id+",") {
			continue
		}
		R, _ := rules.Decide(id, "quick", P, nf)
		v := R.Violations()
		var ks []string
		for _, o := range v {
			ks = append(ks, o.Rule)
		}
		sort.Strings(ks)
		fmt.Printf("%s %d %s\n", id, len(v), strings.Join(uniq(ks), ","))
		if os.Getenv("ELYSLINT_ALL") == id {
			for _, o := range R.Obls {
				fmt.Printf("    ALL %s: [%s] %s — %s\n", o.Pos, o.Status, o.Key(), o.Detail)
			}
		}
		if verbose {
			for _, o := range v {
				fmt.Printf("    %s: [%s] %s — %s\n", o.Pos, o.Status, o.Key(), o.Detail)
			}
		}
	}
}

func uniq(xs []string) []string {
	var out []string
	for i, x := range xs {
		if i == 0 || x != xs[i-1] {
			out = append(out, x)
		}
	}
	return out
}

func vtaCmd() {
	P := mustLoad()
	edges, ext, nf, err := core.VTAEdgesExt(core.RepoDir())
	if err != nil {
		fmt.Println(err)
		os.Exit(2)
	}
	chaSet := P.CHAEdgeSet()
	r := P.FindRoots()
	reach := P.Reach(r.All())
	reachKey := map[string]bool{}
	for f := range reach {
		reachKey[P.Key(f)] = true
	}
	missing := 0
	for _, e := range core.SortedKeys(edges) {
		if chaSet[e] {
			continue
		}
		caller := strings.SplitN(e, " → ", 2)[0]
		if !reachKey[caller] {
			continue
		}
		missing++
		fmt.Println("MISSING", e)
	}
	mw := P.MayWrite()
	byKey := map[string]*ssa.Function{}
	for _, f := range P.Funcs {
		byKey[P.Key(f)] = f
	}
	var eks []string
	for k := range ext {
		eks = append(eks, k)
	}
	sort.Strings(eks)
	for _, k := range eks {
		f := byKey[k]
		if f == nil || reachKey[k] {
			continue
		}
		if !mw[f] {
			continue
		}
		fmt.Println("EXT-UNROOTED", k, "←", ext[k])
	}
	fmt.Printf("vta: %d functions, %d Elys→Elys edges, repo-CHA %d edges, missing (caller root-reachable) %d\n", nf, len(edges), len(chaSet), missing)
}

// rangeCmd prints the abstract values (R10) of every result at every non-error return of a
// function: `elyslint range <table.json> <funcKey>`.
func rangeCmd(args []string) {
	P := mustLoad()
	spec, err := rules.LoadRangeSpec(args[0])
	if err != nil {
		fmt.Println(err)
		os.Exit(2)
	}
	fn := P.ByKey[args[1]]
	if fn == nil {
		fmt.Println("no such function")
		os.Exit(2)
	}
	E := core.NewRanger(P, spec)
	ctx := E.TopCtx(fn)
	for _, ex := range P.Facts(fn).Exits() {
		ret, ok := ex.Instr.(*ssa.Return)
		if !ok || ex.Kind == core.ExitError {
			continue
		}
		fmt.Println("return at", P.Pos(ret.Pos()))
		for i, r := range ret.Results {
			fmt.Printf("   #%d %s\n", i, E.ValAt(ctx, r, ret))
		}
	}
	for _, w := range E.Why {
		fmt.Println("note:", w)
	}
	for _, u := range core.SortedKeys(E.Used) {
		fmt.Println("used:", u)
	}
}

// inlineCmd builds the inlined normal form and runs every checker on it:
// `elyslint inline [-v] [-dump file] [patch.diff]`.
func inlineCmd(args []string) {
	verbose, dump := false, ""
	for len(args) > 0 && strings.HasPrefix(args[0], "-") {
		switch args[0] {
		case "-v":
			verbose = true
		case "-dump":
			dump = args[1]
			args = args[1:]
		}
		args = args[1:]
	}
	var base map[string][]byte
	if len(args) > 0 {
		ov, err := rules.OverlayFor(core.RepoDir(), args[0], false)
		if err != nil {
			fmt.Println("APPLY-ERROR", err)
			os.Exit(3)
		}
		base = ov
	}
	P0, err := core.Load(core.RepoDir(), base)
	if err != nil {
		fmt.Println("LOAD-ERROR", err)
		os.Exit(3)
	}
	P, n, log, err := core.InlinedNormalForm(core.RepoDir(), base, P0, 4)
	if err != nil {
		fmt.Println(err)
		os.Exit(3)
	}
	fmt.Printf("inlined %d calls\n", n)
	for _, l := range log {
		if verbose || strings.Contains(l, "discarded") {
			fmt.Println("  ", l)
		}
	}
	if dump != "" {
		for f, b := range P.Overlay {
			if strings.HasSuffix(f, dump) {
				os.Stdout.Write(b)
			}
		}
		return
	}
	runMatrix(P, verbose)
}

// nfdebug <patch> <PROP> [dumpFileSuffix]: applies the patch as overlay, builds the
// baseline-relative normal form, prints the inlining log and the property's violations there.
func nfdebug(args []string) {
	ov, err := rules.OverlayFor(core.RepoDir(), args[0], false)
	if err != nil {
		fmt.Println("APPLY-ERROR", err)
		os.Exit(3)
	}
	P, err := core.Load(core.RepoDir(), ov)
	if err != nil {
		fmt.Println("LOAD-ERROR", err)
		os.Exit(3)
	}
	P2, n, log := rules.NormalForm(P)
	fmt.Println("inlined", n)
	for _, l := range log {
		fmt.Println("  ", l)
	}
	if len(args) > 2 {
		for f, b := range P2.Overlay {
			if strings.HasSuffix(f, args[2]) {
				os.Stdout.Write(b)
			}
		}
		return
	}
	for _, view := range []*core.Program{P, P2} {
		R := core.NewReport(args[1], "quick")
		rules.Get(args[1])(view, R)
		fmt.Println("--- view")
		for _, o := range R.Violations() {
			fmt.Printf("    %s: [%s] %s — %s\n", o.Pos, o.Status, o.Key(), o.Detail)
		}
	}
}
