package rules

import (
	"fmt"
	"sort"
	"math/big"
	"go/token"
	"strings"

	"elyslint/core"

	"golang.org/x/tools/go/ssa"
)

func init() { register("C09", checkC09) }

func checkC09(P *core.Program, R *core.Report) {
	R.Explanation = "For each of Custody, Liabilities and Collateral the equation perpetual Pool aggregate − Σ MTP field = 0 is a linear invariant: in every consensus-reachable function the read-modify-write updates of MTP.<field> and the calls of Pool.Update<Field>(denom, amount, isIncrease, position) " +
		"(sign resolved from the constant bool argument; helper body shape checked separately) that lie on the same success paths must cancel symbolically; initialising assignments on a fresh MTP (Borrow) count as +, the merged-away MTP of OpenConsolidateMergeMtp as −. " +
		"Helper bodies: each Update* helper applies field.Add(amount) on the isIncrease edge and field.Sub(amount) on the other. Counter: only SetMTP's new-id branch and DestroyMTP write OpenMTPCount, on the same paths as the store write/delete. " +
		"Minimum custody: after every custody-increasing step in Open/OpenConsolidate and on every success path of the three perpetual AmmHooks, CheckLowPoolHealthAndMinimumCustody (which calls CheckMinimumCustodyAmt) is passed and its error propagates. " +
		"Error discipline: a non-nil error of a pairing primitive never becomes a nil return (one frozen latent instance in Borrow). Not decided: truncation drift between separately truncated deltas, actual bank backing."
	subjects := P.Reach(P.FindRoots().Consensus())
	markFrozenErrorToNil(P)
	checkAssetKeys(P, R, subjects)
	for _, f := range []struct {
		field, upd string
		signArg    int
	}{{"Custody", "UpdateCustody", 3}, {"Liabilities", "UpdateLiabilities", 3}, {"Collateral", "UpdateCollateral", 3}} {
		mtpL, poolL := "MTP."+f.field, "Pool."+f.field
		spec := &LedgerSpec{
			Property: "C09", Rule: "C09-" + strings.ToLower(f.field),
			Fields:  []FieldLedger{{Pkg: "x/perpetual/types", Type: "MTP", Field: f.field, Ledger: mtpL}},
			Calls:   []CallLedger{{Callee: "x/perpetual/types.Pool." + f.upd, Ledger: poolL, Sign: 0, SignArg: f.signArg, AmtArg: 2, AmtRes: -1}},
			Coeff:   map[string]int{poolL: 1, mtpL: -1},
			Helpers: map[string]string{},
			AssignOK: map[string]string{
				"x/perpetual/keeper.Keeper.Borrow " + mtpL: "+",
			},
			Exempt:   map[string]string{},
			Subjects: subjects,
			Scratch: map[string]string{
				"x/perpetual/keeper.Keeper.HandleOpenEstimation": "open estimation builds a hypothetical MTP that is never stored",
				"x/perpetual/keeper.Keeper.fillMTPData":          "query decoration of a loaded MTP copy (adds unpaid interest for display), never stored",
			},
			NoPersist: []string{"x/perpetual/keeper.Keeper.SetMTP", "x/perpetual/keeper.Keeper.SetPool", "x/perpetual/keeper.Keeper.DestroyMTP"},
			Extra: func(P *core.Program, ff *core.FuncFacts, fn *ssa.Function) []Delta {
				// the MTP merged away: DestroyMTP(newMtp…) in OpenConsolidateMergeMtp counts as −newMtp.<field>
				if P.Key(fn) != "x/perpetual/keeper.Keeper.OpenConsolidateMergeMtp" {
					return nil
				}
				var out []Delta
				for _, c := range core.Calls(fn) {
					if !calleeMatches(P, c, "x/perpetual/keeper.Keeper.DestroyMTP") {
						continue
					}
					args := c.Common().Args
					for _, o := range ff.Origins(args[len(args)-1]) {
						if o.Kind == "param" && o.Path == ".Id" {
							out = append(out, Delta{Ledger: mtpL, Sign: -1, Amt: core.Lin{"*" + o.Name + "." + f.field: 1}, Instr: c, Desc: "destroyed record " + o.Name})
						}
					}
				}
				return out
			},
		}
		CheckLedgers(P, R, spec)
	}
	checkUpdateHelpers(P, R)
	checkModifiedPersistedX(P, R, modPersistSpec{Rule: "C09-pool-persisted", TypePkg: "x/perpetual/types", TypeName: "Pool",
		Store: "x/perpetual/keeper.Keeper.SetPool", Subjects: subjects,
		Scratch: map[string]string{
			"x/perpetual/keeper.Keeper.HandleOpenEstimation": "open estimation works on a hypothetical position and pool copy, nothing is stored",
			"x/perpetual/keeper.Keeper.fillMTPData":          "query decoration of a loaded MTP: funding and interest are previewed on copies for display, nothing is stored (C09-*-scratch checks it cannot reach SetMTP/SetPool)",
		}})
	checkModifiedPersistedX(P, R, modPersistSpec{Rule: "C09-mtp-persisted", TypePkg: "x/perpetual/types", TypeName: "MTP",
		Store: "x/perpetual/keeper.Keeper.SetMTP", Alt: []string{"x/perpetual/keeper.Keeper.DestroyMTP"}, Subjects: subjects, Scratch: map[string]string{"x/perpetual/keeper.Keeper.fillMTPData": "query decoration on a copy, never stored", "x/perpetual/keeper.Keeper.HandleOpenEstimation": "estimation on a hypothetical position"}})
	checkMTPCounter(P, R, subjects)
	checkRecordFreshness(P, R, freshSpec{
		Rule: "C09-mtp-fresh", Load: "x/perpetual/keeper.Keeper.GetMTP", Store: "x/perpetual/keeper.Keeper.SetMTP", Subjects: subjects,
		Tolerated: map[string]string{},
		Sinks: map[string][]int{
			"x/perpetual/keeper.Keeper.CheckAndLiquidateUnhealthyPosition": {2},
			"x/perpetual/keeper.Keeper.CheckAndCloseAtStopLoss":            {2},
			"x/perpetual/keeper.Keeper.CheckAndCloseAtTakeProfit":          {2},
		},
	})
	checkIdCounterMonotone(P, R, "C09-id-monotone", "x/perpetual/keeper.Keeper.SetMTPCount", "Keeper.GetMTPCount", subjects)
	checkMinCustody(P, R)
	checkErrorToNil(P, R, subjects)
}

// checkUpdateHelpers: body shape of perpetual types.Pool.Update{Custody,Liabilities,Collateral}.
func checkUpdateHelpers(P *core.Program, R *core.Report) {
	for _, h := range []struct{ fn, field string }{{"UpdateCustody", "Custody"}, {"UpdateLiabilities", "Liabilities"}, {"UpdateCollateral", "Collateral"}} {
		key := "x/perpetual/types.Pool." + h.fn
		fn := P.Fn(key)
		if fn == nil {
			R.Add("C09-helper-shape", key, "function", "-", false, "unresolved anchor")
			continue
		}
		ff := P.Facts(fn)
		if len(fn.Params) < 5 {
			R.Add("C09-helper-shape", key, "signature", P.Pos(fn.Pos()), false, "expected (p, assetDenom, amount, isIncrease, position)")
			continue
		}
		amount, isInc := fn.Params[2], fn.Params[3]
		nAdd, nSub, bad := 0, 0, ""
		for _, b := range fn.Blocks {
			for _, in := range b.Instrs {
				st, ok := in.(*ssa.Store)
				if !ok {
					continue
				}
				fa, ok := st.Addr.(*ssa.FieldAddr)
				if !ok {
					continue
				}
				fname := core.FieldName(fa.X.Type(), fa.Field)
				if core.NamedName(fa.X.Type()) != "PoolAsset" {
					continue
				}
				if fname != h.field {
					bad = "writes PoolAsset." + fname
					continue
				}
				// delta = stored value − old value of the same field, per way the value can
				// come about (the Add/Sub branches, or one Add of a sign-selected amount)
				ff.LeafKey = func(v ssa.Value) (string, bool) {
					if ld, ok := v.(*ssa.UnOp); ok && ld.Op == token.MUL && sameLocation(ff, ld.X, fa) {
						return "@OLD", true
					}
					return "", false
				}
				whole := ff.PolyOf(st.Val)
				ff.LeafKey = nil
				delta := whole.Sub(core.ParsePoly("@OLD"))
				type dcase struct {
					p     *core.Poly
					facts []*core.Atom
				}
				var cases []dcase
				if len(delta.T) == 1 {
					for m, c := range delta.T {
						if lv := delta.Leaf[m]; lv != nil && c.Cmp(big.NewRat(1, 1)) == 0 {
							if _, isPhi := ff.Fwd(lv).(*ssa.Phi); isPhi {
								for _, vc := range ff.CasesOf(lv, in, 3) {
									cases = append(cases, dcase{ff.PolyOf(vc.Val), vc.Facts})
								}
							}
						}
					}
				}
				if cases == nil {
					cases = []dcase{{delta, ff.At(in)}}
				}
				amtP := ff.PolyOf(amount)
				for _, dc := range cases {
					want := core.Rel(-1)
					switch {
					case dc.p.Equal(amtP):
						want = core.TRUE
						nAdd++
					case dc.p.Equal(amtP.Neg()):
						want = core.FALSE
						nSub++
					default:
						bad = "update is not old ± amount (delta " + dc.p.String() + ")"
						continue
					}
					okPol := false
					for _, a := range dc.facts {
						if a.Rel == want && ff.Fwd(a.A) == ssa.Value(isInc) {
							okPol = true
						}
					}
					if !okPol {
						bad = "±amount is not on the matching isIncrease edge"
					}
				}
			}
		}
		// the asset is selected by (position, assetDenom)
		sel := false
		for _, c := range core.Calls(fn) {
			if calleeMatches(P, c, "x/perpetual/types.Pool.GetPoolAsset") {
				args := c.Common().Args
				if len(args) == 3 && ff.Fwd(args[1]) == ssa.Value(fn.Params[4]) && ff.Fwd(args[2]) == ssa.Value(fn.Params[1]) {
					sel = true
				}
			}
		}
		ok := bad == "" && nAdd == 1 && nSub == 1 && sel
		R.Add("C09-helper-shape", key, "±amount on PoolAsset."+h.field, P.Pos(fn.Pos()), ok,
			"helper must add amount on the isIncrease edge and subtract it otherwise, on the asset selected by (position, assetDenom). "+bad)
	}
}

func checkMTPCounter(P *core.Program, R *core.Report, subjects map[*ssa.Function]bool) {
	const setCount = "x/perpetual/keeper.Keeper.SetOpenMTPCount"
	sc := P.Fn(setCount)
	if sc == nil {
		R.Add("C09-counter", setCount, "function", "-", false, "unresolved anchor")
		return
	}
	allowed := map[string]bool{"x/perpetual/keeper.Keeper.SetMTP": true, "x/perpetual/keeper.Keeper.DestroyMTP": true}
	for _, e := range P.CG().In[sc] {
		ck := P.Key(e.Caller)
		if !subjects[e.Caller] || strings.HasSuffix(ck, ".InitGenesis") {
			continue
		}
		R.Add("C09-counter", ck, "writes open-MTP counter", P.Pos(P.InstrPos(e.Site)), allowed[ck], "only SetMTP (new id) and DestroyMTP may write the counter")
	}
	if fn := P.Fn("x/perpetual/keeper.Keeper.DestroyMTP"); fn != nil {
		ff := P.Facts(fn)
		var del, set ssa.Instruction
		for _, c := range core.Calls(fn) {
			if P.EffectOf(c) == core.EffStoreWrite && core.CalleeName(c.Common()) == "Delete" {
				del = c
			}
			if calleeMatches(P, c, setCount) {
				set = c
			}
		}
		R.Add("C09-counter", "x/perpetual/keeper.Keeper.DestroyMTP", "delete ↔ counter − 1", P.Pos(fn.Pos()), del != nil && set != nil && sameControl(ff, del, set),
			"the store delete and the counter decrement lie on the same success paths")
	} else {
		R.Add("C09-counter", "x/perpetual/keeper.Keeper.DestroyMTP", "function", "-", false, "unresolved anchor")
	}
	if fn := P.Fn("x/perpetual/keeper.Keeper.SetMTP"); fn != nil {
		ff := P.Facts(fn)
		// the counter increment is on the Id == 0 edge and every such success path stores the record
		ok := false
		for _, c := range core.Calls(fn) {
			if !calleeMatches(P, c, setCount) {
				continue
			}
			for _, a := range ff.At(c) {
				if a.Rel == core.EQ && fieldOfRecord(ff, a.A, "Id") {
					if k, isK := a.B.(*ssa.Const); isK && k.Value != nil && k.Value.ExactString() == "0" {
						ok = true
					}
				}
			}
			_, escapes := ff.SuccessExitReachableWithout(c, func(in ssa.Instruction) bool {
				cc, isC := in.(ssa.CallInstruction)
				return isC && P.EffectOf(cc) == core.EffStoreWrite && core.CalleeName(cc.Common()) == "Set"
			})
			if escapes {
				ok = false
			}
		}
		R.Add("C09-counter", "x/perpetual/keeper.Keeper.SetMTP", "new id ↔ counter + 1 ↔ store", P.Pos(fn.Pos()), ok, "counter is incremented exactly on the Id == 0 edge and the record is stored on every success path after it")
	} else {
		R.Add("C09-counter", "x/perpetual/keeper.Keeper.SetMTP", "function", "-", false, "unresolved anchor")
	}
}

// checkMinCustody: the minimum-custody check must be passed after custody grew and on AMM
// balance changes, and its error must propagate.
func checkMinCustody(P *core.Program, R *core.Report) {
	checkMinCustodyBody(P, R)
	const chk = "x/perpetual/keeper.Keeper.CheckLowPoolHealthAndMinimumCustody"
	const inner = "x/perpetual/keeper.Keeper.CheckMinimumCustodyAmt"
	isCheck := func(in ssa.Instruction) bool {
		c, ok := in.(ssa.CallInstruction)
		// OpenConsolidate passes the check on every success path itself (own obligation below)
		return ok && (calleeMatches(P, c, chk) || calleeMatches(P, c, inner) || calleeMatches(P, c, "x/perpetual/keeper.Keeper.OpenConsolidate"))
	}
	// the wrapper calls the inner check on every success path and returns its error
	if fn := P.Fn(chk); fn != nil {
		ff := P.Facts(fn)
		_, escapes := ff.SuccessExitReachableWithout(nil, func(in ssa.Instruction) bool {
			c, ok := in.(ssa.CallInstruction)
			return ok && calleeMatches(P, c, inner)
		})
		R.Add("C09-min-custody", chk, "calls CheckMinimumCustodyAmt", P.Pos(fn.Pos()), !escapes, "the wrapper must run the minimum-custody check on every success path")
	} else {
		R.Add("C09-min-custody", chk, "function", "-", false, "unresolved anchor")
	}
	custodyUp := P.Summary("mayIncreaseCustody", func(fn *ssa.Function) bool {
		for _, c := range core.Calls(fn) {
			if calleeMatches(P, c, "x/perpetual/types.Pool.UpdateCustody") {
				args := c.Common().Args
				if k, ok := args[3].(*ssa.Const); !ok || k.Value == nil || k.Value.String() == "true" {
					return true
				}
			}
		}
		return false
	})
	for _, key := range []string{"x/perpetual/keeper.Keeper.Open", "x/perpetual/keeper.Keeper.OpenConsolidate"} {
		fn := P.Fn(key)
		if fn == nil {
			R.Add("C09-min-custody", key, "function", "-", false, "unresolved anchor")
			continue
		}
		ff := P.Facts(fn)
		n := 0
		for _, c := range core.Calls(fn) {
			inc := false
			if sc := c.Common().StaticCallee(); sc != nil && !c.Common().IsInvoke() && custodyUp[sc] {
				inc = true // only static perpetual-keeper steps; hook fan-out is not a custody step
			}
			if !inc || isCheck(c) {
				continue
			}
			n++
			at, escapes := ff.SuccessExitReachableWithout(c, isCheck)
			d := ""
			if escapes {
				d = "success exit at " + P.Pos(P.InstrPos(at)) + " is reachable without the check"
			}
			R.Add("C09-min-custody", key, "after "+P.CalleeKey(c.Common()), P.Pos(P.InstrPos(c)), !escapes,
				"after a step that can increase pool custody every success path must pass the minimum-custody check. "+d)
		}
		if n == 0 && key == "x/perpetual/keeper.Keeper.Open" {
			R.Add("C09-min-custody", key, "custody-increasing step", P.Pos(fn.Pos()), false, "no custody-increasing call found (anchor changed)")
		}
		if key == "x/perpetual/keeper.Keeper.OpenConsolidate" {
			isInner := func(in ssa.Instruction) bool {
				c, ok := in.(ssa.CallInstruction)
				return ok && (calleeMatches(P, c, chk) || calleeMatches(P, c, inner))
			}
			isCheck := isInner
			// custody was increased by the caller (Open → ProcessOpen) before consolidation: require the check on all success paths
			_, escapes := ff.SuccessExitReachableWithout(nil, isCheck)
			R.Add("C09-min-custody", key, "every success path", P.Pos(fn.Pos()), !escapes, "OpenConsolidate must pass the minimum-custody check on every success path")
		}
	}
	for _, m := range []string{"AfterSwap", "AfterJoinPool", "AfterExitPool"} {
		key := "x/perpetual/keeper.AmmHooks." + m
		fn := P.Fn(key)
		if fn == nil {
			R.Add("C09-min-custody", key, "function", "-", false, "unresolved anchor")
			continue
		}
		ff := P.Facts(fn)
		// allowed bypass: the perpetual pool does not exist (found == false)
		bad := ""
		for _, ex := range ff.Exits() {
			if ex.Kind != core.ExitSuccess && ex.Kind != core.ExitBoth {
				continue
			}
			passes := false
			if _, reach := core.ReachesWithout(fn, nil, func(in ssa.Instruction) bool { return in == ex.Instr }, isCheck); !reach {
				passes = true
			}
			notFound := false
			for _, a := range ff.At(ex.Instr) {
				if a.Rel == core.FALSE {
					for _, o := range ff.Origins(a.A) {
						if o.Kind == "call" && strings.HasSuffix(o.Name, "Keeper.GetPool") && o.Path == "#1" {
							notFound = true
						}
					}
				}
			}
			if !passes && !notFound {
				bad = "success exit at " + P.Pos(P.InstrPos(ex.Instr)) + " bypasses the check"
			}
		}
		R.Add("C09-min-custody", key, "check on every success path", P.Pos(fn.Pos()), bad == "", "every liquidity-pool balance change re-checks minimum custody unless the pool has no perpetual pool. "+bad)
	}
	// error propagation: the result of the check reaches the caller's error result
	for _, fnKey := range []string{"x/perpetual/keeper.Keeper.Open", "x/perpetual/keeper.Keeper.OpenConsolidate", "x/perpetual/keeper.AmmHooks.AfterSwap", "x/perpetual/keeper.AmmHooks.AfterJoinPool", "x/perpetual/keeper.AmmHooks.AfterExitPool"} {
		fn := P.Fn(fnKey)
		if fn == nil {
			continue
		}
		ff := P.Facts(fn)
		for _, c := range core.Calls(fn) {
			if !isCheck(c) {
				continue
			}
			// on the paths where the check's error is non-nil there must be no success exit
			// (path-sensitive: `if err != nil && !errors.Is(err, X)` lets X through)
			v := c.(ssa.Value)
			bad := ""
			e, discarded := core.ErrValueOf(c)
			if e != nil && !discarded {
				if r := ff.ErrNonNilReaches(c, e, nil, true); r != nil {
					bad = "success exit at " + P.Pos(P.InstrPos(r.Instr)) + " under a failed check"
				}
			}
			used := v.Referrers() != nil && len(*v.Referrers()) > 0 && !discarded
			R.Add("C09-min-custody-error", fnKey, "error of the check", P.Pos(P.InstrPos(c)), used && bad == "", "the check's error must be examined and must not lead to a success return. "+bad)
		}
	}
}

// checkErrorToNil: `if err != nil { return nil }` — success exit under a must-hold err != nil.
func checkErrorToNil(P *core.Program, R *core.Report, subjects map[*ssa.Function]bool) {
	frozen := frozenErrorToNil
	seen := map[string]bool{}
	for _, fn := range P.Funcs {
		if !subjects[fn] || !strings.HasPrefix(core.PkgRel(fn), "x/perpetual/keeper") {
			continue
		}
		if core.ErrResultIndex(fn.Signature) < 0 {
			continue
		}
		key := P.Key(fn)
		ff := P.Facts(fn)
		for _, ex := range ff.Exits() {
			if ex.Kind != core.ExitSuccess && !ff.ErrExit[ex.Instr] {
				continue
			}
			for _, a := range ff.At(ex.Instr) {
				if a.Rel != core.NE || a.B != core.NilMarker || a.A == nil || a.A.Type() == nil || a.A.Type().String() != "error" {
					continue
				}
				call := false
				for _, o := range ff.Origins(a.A) {
					if o.Kind == "call" {
						call = true
					}
				}
				if !call {
					continue
				}
				why, ok := frozen[key]
				seen[key] = true
				R.Add("C09-error-to-nil", key, "nil return under err != nil", P.Pos(P.InstrPos(ex.Instr)), ok, "a failed step must not be reported as success. "+why)
			}
		}
	}
	for k := range frozen {
		if !seen[k] {
			R.Add("C09-error-to-nil", k, "frozen instance", "-", true, "frozen latent instance no longer present (repaired)")
		}
	}
}

var frozenErrorToNil = map[string]string{
	"x/perpetual/keeper.Keeper.Borrow": "latent: UpdateCustody can only fail for an unknown asset denom, which the preceding pool setup excludes (DESIGN §6 triage)",
}

// markFrozenErrorToNil reclassifies the frozen `if err != nil { return nil }` exits as
// error exits so that the pairing rule does not count the aborted path as a success path.
func markFrozenErrorToNil(P *core.Program) {
	for key := range frozenErrorToNil {
		fn := P.Fn(key)
		if fn == nil {
			continue
		}
		ff := P.Facts(fn)
		if ff.ErrExit == nil {
			ff.ErrExit = map[ssa.Instruction]bool{}
		}
		for _, ex := range ff.Exits() {
			if ex.Kind != core.ExitSuccess {
				continue
			}
			for _, a := range ff.At(ex.Instr) {
				if a.Rel == core.NE && a.B == core.NilMarker && a.A != nil && a.A.Type() != nil && a.A.Type().String() == "error" {
					ff.ErrExit[ex.Instr] = true
				}
			}
		}
	}
}

// tupleFieldRoles: the record fields the idx-th result of fn is made of, followed through
// module callees that hand the value on as one of their own results (sums of several
// reads give several names).  It names a tuple slot by what it carries, not by position.
func tupleFieldRoles(P *core.Program, fn *ssa.Function, idx int, depth int) map[string]bool {
	out := map[string]bool{}
	if fn == nil || fn.Blocks == nil || depth > 3 {
		return out
	}
	ff := P.Facts(fn)
	for _, ex := range ff.Exits() {
		ret, ok := ex.Instr.(*ssa.Return)
		if !ok || idx >= len(ret.Results) {
			continue
		}
		for _, o := range ff.OriginsT(ret.Results[idx], func(c *ssa.Call) []ssa.Value {
			switch core.CalleeName(c.Common()) {
			case "Add", "Sub":
				if sc := c.Common().StaticCallee(); sc != nil && sc.Signature.Recv() != nil && core.IsMathType(sc.Signature.Recv().Type()) {
					return c.Common().Args
				}
			}
			return nil
		}) {
			if o.Kind == "call" {
				if call, ok := o.Val.(*ssa.Call); ok {
					if sc := call.Common().StaticCallee(); sc != nil && core.InModule(sc) && strings.HasPrefix(o.Path, "#") {
						j := 0
						k := 1
						for k < len(o.Path) && o.Path[k] >= '0' && o.Path[k] <= '9' {
							j = j*10 + int(o.Path[k]-'0')
							k++
						}
						if k == len(o.Path) {
							for r := range tupleFieldRoles(P, sc, j, depth+1) {
								out[r] = true
							}
							continue
						}
					}
				}
			}
			if i := strings.LastIndex(o.Path, "."); i >= 0 {
				out[o.Path[i+1:]] = true
			} else {
				out["?"+o.Kind] = true
			}
		}
	}
	return out
}

// checkMinCustodyBody: the guard itself.  CheckMinimumCustodyAmt must let an asset pass
// only when its amm pool balance is not below the perpetual pool's *custody* of that denom:
// the loop continues only under custody ≤ balance, with `custody` a tuple slot of the
// perpetual balances that carries the Custody fields (not liabilities or collateral) and
// `balance` the asset's own Token.Amount of the loaded amm pool.
func checkMinCustodyBody(P *core.Program, R *core.Report) {
	const key = "x/perpetual/keeper.Keeper.CheckMinimumCustodyAmt"
	fn := P.Fn(key)
	if fn == nil {
		R.Add("C09-min-custody-guard", key, "function", "-", false, "unresolved anchor")
		return
	}
	ff := P.Facts(fn)
	isCustody := func(v ssa.Value) bool {
		os := ff.Origins(v)
		if len(os) == 0 {
			return false
		}
		for _, o := range os {
			call, ok := o.Val.(*ssa.Call)
			if o.Kind != "call" || !ok || call.Common().StaticCallee() == nil || !strings.HasPrefix(o.Path, "#") {
				return false
			}
			j, k := 0, 1
			for k < len(o.Path) && o.Path[k] >= '0' && o.Path[k] <= '9' {
				j = j*10 + int(o.Path[k]-'0')
				k++
			}
			roles := tupleFieldRoles(P, call.Common().StaticCallee(), j, 0)
			if len(roles) != 1 || !roles["Custody"] {
				return false
			}
		}
		return true
	}
	isAmmBalance := func(v ssa.Value) bool {
		return ff.AllOrigins(v, nil, func(o core.Origin) bool {
			return o.Kind == "call" && strings.HasSuffix(o.Name, "Keeper.GetAmmPool") && strings.Contains(o.Path, "PoolAssets") && strings.HasSuffix(o.Path, ".Token.Amount")
		})
	}
	guarded := func(atoms []*core.Atom) bool {
		for _, a := range atoms {
			if a.Rel == core.LE && a.A != nil && a.B != nil && a.A != core.ZeroMarker && a.B != core.ZeroMarker && a.B != core.NilMarker && isCustody(a.A) && isAmmBalance(a.B) {
				return true
			}
		}
		return false
	}
	n, ok := 0, true
	for _, b := range fn.Blocks {
		for _, sb := range b.Succs {
			if !sb.Dominates(b) || len(b.Instrs) == 0 {
				continue
			}
			n++
			atoms := append(append([]*core.Atom{}, ff.OutFacts(b)...), ff.EdgeFacts(b, sb)...)
			if !guarded(atoms) {
				ok = false
			}
		}
	}
	R.Add("C09-min-custody-guard", key, "next asset only under custody ≤ amm balance", P.Pos(fn.Pos()), ok && n > 0,
		"the per-asset loop goes on (and the check succeeds) only when the amm pool balance of the asset is not below the perpetual pool's custody of that denom")
}

// checkAssetKeys (C09-asset-key): the pool's aggregates are kept per (side, asset); an
// update is booked under the right key only if the asset argument of Pool.Update<X> is the
// position's own <X>Asset field (custody under CustodyAsset, liabilities under
// LiabilitiesAsset, collateral under CollateralAsset, the take-profit twins likewise) and
// the side argument is the position's Position.  A denom of the same type taken from
// elsewhere (the base currency, say) coincides for most positions and books the others
// under the wrong asset: the aggregate of one asset keeps the closed position, the other
// goes negative.
func checkAssetKeys(P *core.Program, R *core.Report, subjects map[*ssa.Function]bool) {
	const rule = "C09-asset-key"
	want := map[string]string{
		"UpdateCustody":               ".CustodyAsset",
		"UpdateLiabilities":           ".LiabilitiesAsset",
		"UpdateCollateral":            ".CollateralAsset",
		"UpdateTakeProfitLiabilities": ".LiabilitiesAsset",
		"UpdateTakeProfitCustody":     ".CustodyAsset",
	}
	var fns []*ssa.Function
	for fn := range subjects {
		if fn.Blocks != nil && !core.IsGeneratedOrAux(P.File(fn.Pos())) {
			fns = append(fns, fn)
		}
	}
	sort.Slice(fns, func(i, j int) bool { return P.Key(fns[i]) < P.Key(fns[j]) })
	n := 0
	for _, fn := range fns {
		var ff *core.FuncFacts
		for _, c := range core.Calls(fn) {
			sc := c.Common().StaticCallee()
			if sc == nil || sc.Signature.Recv() == nil || !strings.HasSuffix(P.Key(sc), "x/perpetual/types.Pool."+sc.Name()) {
				continue
			}
			field, ok := want[sc.Name()]
			if !ok {
				continue
			}
			args := c.Common().Args
			if len(args) < 5 {
				continue
			}
			if ff == nil {
				ff = P.Facts(fn)
			}
			n++
			isMTPField := func(v ssa.Value, path string) bool {
				os := ff.Origins(v)
				if len(os) == 0 {
					return false
				}
				for _, o := range os {
					if !strings.HasSuffix(o.Path, path) {
						return false
					}
				}
				return true
			}
			assetOK := isMTPField(args[1], field)
			sideOK := isMTPField(args[len(args)-1], ".Position")
			R.Add(rule, P.Key(fn), sc.Name()+" keyed by the position's"+field+" and .Position", P.Pos(P.InstrPos(c.(ssa.Instruction))), assetOK && sideOK,
				fmt.Sprintf("the aggregate is booked under the asset the position itself records for it (asset ok: %v, side ok: %v)", assetOK, sideOK))
		}
	}
	if n < 10 {
		R.Add(rule, "-", "Pool.Update* call sites", "-", false, fmt.Sprintf("only %d call sites found (anchor changed)", n))
	}
}
