package rules

import (
	"go/token"
	"go/types"
	"os"
	"fmt"
	"strings"

	"elyslint/core"

	"golang.org/x/tools/go/ssa"
)

func init() { register("C11", checkC11) }

// hookWiring reads app/keepers NewAppKeeper: for every X.SetHooks(NewMulti…Hooks(a, b, …))
// the ordered list of providers "x/<module>/keeper.<HooksType>".
func hookWiring(P *core.Program) map[string][]string {
	out := map[string][]string{}
	var fn *ssa.Function
	for _, f := range P.Funcs {
		if core.PkgRel(f) == "app/keepers" && f.Name() == "NewAppKeeper" {
			fn = f
		}
	}
	if fn == nil {
		return out
	}
	ff := P.Facts(fn)
	for _, c := range core.Calls(fn) {
		if core.CalleeName(c.Common()) != "SetHooks" {
			continue
		}
		sc := c.Common().StaticCallee()
		if sc == nil || !core.InModule(sc) {
			continue
		}
		owner := core.PkgRel(sc)
		args := c.Common().Args
		multi, ok := ff.Fwd(args[len(args)-1]).(*ssa.Call)
		if !ok {
			if mi, isMI := ff.Fwd(args[len(args)-1]).(*ssa.MakeInterface); isMI {
				multi, ok = ff.Fwd(mi.X).(*ssa.Call)
			}
			if !ok {
				continue
			}
		}
		if len(multi.Common().Args) != 1 {
			continue
		}
		els, ok := core.SliceLiteral(ff.Fwd(multi.Common().Args[0]))
		if !ok {
			continue
		}
		for _, e := range els {
			v := ff.Fwd(e)
			if mi, isMI := v.(*ssa.MakeInterface); isMI {
				v = ff.Fwd(mi.X)
			}
			if hc, isC := v.(*ssa.Call); isC && hc.Common().StaticCallee() != nil {
				h := hc.Common().StaticCallee()
				res := h.Signature.Results()
				tn := ""
				if res.Len() == 1 {
					tn = core.NamedName(res.At(0).Type())
				}
				out[owner] = append(out[owner], core.PkgRel(h)+"."+tn)
			}
		}
	}
	return out
}

func indexOf(xs []string, x string) int {
	for i, v := range xs {
		if v == x {
			return i
		}
	}
	return -1
}

func checkC11(P *core.Program, R *core.Report) {
	R.Explanation = "Accounted pool = reserve + liabilities − custody, decided structurally: (wiring) accountedpool's AmmHooks and PerpetualHooks are registered in app/keepers and its AmmHooks precedes perpetual's; (formula) PerpetualUpdates stores into accountedPool.TotalTokens[i] the amount ammBalance + L − C (plus TPC − TPL only on the flag edge) with the operands taken from GetAmmPoolBalance / GetPerpetualPoolBalances of its own arguments, stores total − ammBalance into the NonAmmPoolTokens element of the record itself (not a range copy) and persists the record on every success path; UpdateAccountedPoolOnAmmChange stores amm + recorded non-amm part into TotalTokens[j]; " +
		"(F1 freshness) every amm pool handed to a perpetual hook call is a parameter, or a load after which no callee stores the amm pool through its own load (this rule reported F-11a); (F2 coverage) from every call that can change perpetual custody/liabilities or move AMM balances through the perpetual back door, every success path of the enclosing function — or, failing that, of every caller up to the consensus roots — passes a perpetual hook call (this rule reported F-11b). Take-profit terms when the parameter is enabled are covered only by the formula shape."
	subjects := P.Reach(P.FindRoots().Consensus())
	checkNonAmmEntries(P, R)
	// wiring
	w := hookWiring(P)
	amm := w["x/amm/keeper"]
	ia, ip := indexOf(amm, "x/accountedpool/keeper.AmmHooks"), indexOf(amm, "x/perpetual/keeper.AmmHooks")
	R.Add("C11-wiring", "app/keepers.NewAppKeeper", "AmmKeeper.SetHooks", "app/keepers/keepers.go", ia >= 0 && ip >= 0 && ia < ip, "accountedpool AmmHooks registered before perpetual AmmHooks: "+strings.Join(amm, ", "))
	perp := w["x/perpetual/keeper"]
	R.Add("C11-wiring", "app/keepers.NewAppKeeper", "PerpetualKeeper.SetHooks", "app/keepers/keepers.go", indexOf(perp, "x/accountedpool/keeper.PerpetualHooks") >= 0, "accountedpool PerpetualHooks registered: "+strings.Join(perp, ", "))
	// every accountedpool hook method forwards to the update function
	for _, hk := range []struct{ typ, upd string }{{"PerpetualHooks", "x/accountedpool/keeper.Keeper.PerpetualUpdates"}, {"AmmHooks", "x/accountedpool/keeper.Keeper.UpdateAccountedPoolOnAmmChange"}} {
		n := 0
		for _, fn := range P.Funcs {
			if core.PkgRel(fn) != "x/accountedpool/keeper" || fn.Signature.Recv() == nil || core.NamedName(fn.Signature.Recv().Type()) != hk.typ {
				continue
			}
			if fn.Name() == "AfterPoolCreated" {
				continue
			}
			n++
			ff := P.Facts(fn)
			_, escapes := ff.SuccessExitReachableWithout(nil, func(in ssa.Instruction) bool {
				c, ok := in.(ssa.CallInstruction)
				return ok && calleeMatches(P, c, hk.upd)
			})
			R.Add("C11-wiring", P.Key(fn), "forwards to "+hk.upd, P.Pos(fn.Pos()), !escapes, "each accountedpool hook refreshes the accounted pool on every success path")
		}
		if n < 3 {
			R.Add("C11-wiring", "x/accountedpool/keeper."+hk.typ, "hook methods", "-", false, "expected ≥ 3 hook methods (anchor changed)")
		}
	}
	checkAccountedFormula(P, R)
	checkHookFreshness(P, R, subjects)
	checkHookCoverage(P, R, subjects)
	checkAmmHookCoverage(P, R)
}

func checkAccountedFormula(P *core.Program, R *core.Report) {
	const key = "x/accountedpool/keeper.Keeper.PerpetualUpdates"
	fn := P.Fn(key)
	if fn == nil {
		R.Add("C11-formula", key, "function", "-", false, "unresolved anchor")
	} else {
		ff := P.Facts(fn)
		isOp := func(v ssa.Value, callee, path string, recvParam int) bool {
			return originsAll(ff, v, func(o core.Origin) bool {
				if !(o.Kind == "call" && strings.HasSuffix(o.Name, callee) && o.Path == path) {
					return false
				}
				call, _ := o.Val.(*ssa.Call)
				if call == nil {
					return false
				}
				for _, ro := range recordOrigins(ff, call.Common().Args[0]) {
					if ro.Val == ssa.Value(fn.Params[recvParam]) {
						return true
					}
				}
				return false
			})
		}
		isAmm := func(v ssa.Value) bool { return isOp(v, "amm/types.Pool.GetAmmPoolBalance", "#0", 2) }
		isBal := func(v ssa.Value, i int) bool {
			return isOp(v, "perpetual/types.Pool.GetPerpetualPoolBalances", fmt.Sprintf("#%d", i), 3)
		}
		// base = amm.Add(L).Sub(C)
		isBase := func(v ssa.Value) bool {
			s, _, ok := mathCall(ff, v, "Sub")
			if !ok || len(s) != 2 || !isBal(s[1], 1) {
				return false
			}
			a, _, ok := mathCall(ff, s[0], "Add")
			return ok && len(a) == 2 && isAmm(a[0]) && isBal(a[1], 0)
		}
		isTP := func(v ssa.Value) bool { // base.Add(TPC).Sub(TPL)
			s, _, ok := mathCall(ff, v, "Sub")
			if !ok || len(s) != 2 || !isBal(s[1], 3) {
				return false
			}
			a, _, ok := mathCall(ff, s[0], "Add")
			return ok && len(a) == 2 && isBase(a[0]) && isBal(a[1], 2)
		}
		var total ssa.Value
		totalOK, nonAmmOK := false, false
		for _, b := range fn.Blocks {
			for _, in := range b.Instrs {
				st, ok := in.(*ssa.Store)
				if !ok {
					continue
				}
				switch addr := st.Addr.(type) {
				case *ssa.IndexAddr:
					if _, isF := fieldLoad(ff, addr.X, "TotalTokens"); !isF {
						continue
					}
					nc, isC := ff.Fwd(st.Val).(*ssa.Call)
					if !isC || core.CalleeName(nc.Common()) != "NewCoin" {
						continue
					}
					amt := ff.Fwd(nc.Common().Args[1])
					total = amt
					if phi, isPhi := amt.(*ssa.Phi); isPhi && len(phi.Edges) == 2 {
						base, tp := false, false
						for i, e := range phi.Edges {
							if isBase(e) {
								base = true
								continue
							}
							if isTP(e) {
								// only on the flag edge
								pred := phi.Block().Preds[i]
								for _, a := range edgeOrBlockAtoms(ff, pred, phi.Block()) {
									if a.Rel == core.TRUE && ff.Fwd(a.A) == ssa.Value(fn.Params[4]) {
										tp = true
									}
								}
							}
						}
						totalOK = base && tp
					} else {
						totalOK = isBase(amt)
					}
				case *ssa.FieldAddr:
					if core.FieldName(addr.X.Type(), addr.Field) != "Amount" {
						continue
					}
					// target must be an element of accountedPool.NonAmmPoolTokens (IndexAddr), not a local copy
					ia, isIA := addr.X.(*ssa.IndexAddr)
					if !isIA {
						if al, isAlloc := addr.X.(*ssa.Alloc); isAlloc && al.Comment != "complit" {
							// a write into a by-value copy of an element (range variable) is lost;
							// a coin literal being assembled (to be appended) is not that
							nonAmmOK = false
							total = nil
						}
						continue
					}
					if _, isF := fieldLoad(ff, ia.X, "NonAmmPoolTokens"); !isF {
						continue
					}
					s, _, ok := mathCall(ff, st.Val, "Sub")
					if ok && len(s) == 2 && total != nil && ff.Fwd(s[0]) == total && isAmm(s[1]) {
						nonAmmOK = true
					}
				}
			}
		}
		R.Add("C11-formula", key, "TotalTokens[i] = amm + L − C (+TPC − TPL on the flag)", P.Pos(fn.Pos()), totalOK, "accounted total is the amm reserve plus perpetual liabilities minus custody of the same denom")
		R.Add("C11-formula", key, "NonAmmPoolTokens[j].Amount = total − amm", P.Pos(fn.Pos()), nonAmmOK, "the recorded non-pool part is written into the record's own element and equals total − amm reserve")
		_, escapes := ff.SuccessExitReachableWithout(nil, func(in ssa.Instruction) bool {
			c, ok := in.(ssa.CallInstruction)
			return ok && calleeMatches(P, c, "x/accountedpool/keeper.Keeper.SetAccountedPool")
		})
		R.Add("C11-formula", key, "SetAccountedPool on every success path", P.Pos(fn.Pos()), !escapes, "the refreshed record is stored")
	}
	const key2 = "x/accountedpool/keeper.Keeper.UpdateAccountedPoolOnAmmChange"
	fn2 := P.Fn(key2)
	if fn2 == nil {
		R.Add("C11-formula", key2, "function", "-", false, "unresolved anchor")
		return
	}
	ff := P.Facts(fn2)
	// the coin written into TotalTokens[j] (whole, or through its Amount field) must carry
	// amm reserve + recorded non-amm part of the same record, however the sum is spelled
	role := func(_ string, v ssa.Value) (string, bool) {
		if v == nil {
			return "", false
		}
		amm, non, other := false, false, false
		for _, o := range ff.Origins(v) {
			switch {
			case strings.Contains(o.Path, "PoolAssets") && (strings.HasSuffix(o.Path, ".Amount") || strings.HasSuffix(o.Path, ".Token")):
				amm = true
			case strings.Contains(o.Path, "NonAmmPoolTokens") && (strings.HasSuffix(o.Path, ".Amount") || strings.HasSuffix(o.Path, "[]")):
				non = true
			case o.Kind == "call" && strings.HasSuffix(o.Name, "AccountedPool.GetNonAmmTokenBalance") && strings.HasPrefix(o.Path, "#0"):
				non = true // the record's own accessor for the same element
			case o.Kind == "zero" || (o.Kind == "call" && strings.HasSuffix(o.Name, "math.ZeroInt")):
				// the default when the denom has no recorded non-amm part
			default:
				other = true
			}
		}
		switch {
		case other:
			return "", false
		case amm && !non:
			return "AMM", true
		case non && !amm:
			return "NONAMM", true
		}
		return "", false
	}
	want := core.ParsePoly("AMM + NONAMM")
	ok2, stored := false, false
	for _, b := range fn2.Blocks {
		for _, in := range b.Instrs {
			st, ok := in.(*ssa.Store)
			if !ok {
				continue
			}
			ia, isIA := st.Addr.(*ssa.IndexAddr)
			if !isIA {
				continue
			}
			if _, isF := fieldLoad(ff, ia.X, "TotalTokens"); !isF {
				continue
			}
			stored = true
			if p, okR := ff.PolyOf(st.Val).Rename(role); okR && p.Equal(want) {
				ok2 = true
				// the recorded part is used whenever the denom matches — it is legitimately
				// negative (custody above liabilities) and must not be dropped by a sign test
				raw := ff.PolyOf(st.Val)
				for k, lv := range raw.Leaf {
					if r, _ := role(k, lv); r != "NONAMM" || lv == nil {
						continue
					}
					for _, vc := range ff.CasesOf(lv, in, 3) {
						isRec := false
						for _, o := range ff.Origins(vc.Val) {
							if strings.Contains(o.Path, "NonAmmPoolTokens") || (o.Kind == "call" && strings.HasSuffix(o.Name, "GetNonAmmTokenBalance")) {
								isRec = true
							}
						}
						if !isRec {
							continue
						}
						for _, a := range vc.Facts {
							for _, side := range []ssa.Value{a.A, a.B} {
								if side == nil || side == core.ZeroMarker || side == core.NilMarker {
									continue
								}
								other := a.B
								if side == a.B {
									other = a.A
								}
								if other != core.ZeroMarker {
									continue
								}
								for _, o := range ff.Origins(side) {
									if strings.Contains(o.Path, "NonAmmPoolTokens") && strings.HasSuffix(o.Path, ".Amount") {
										ok2 = false
									}
								}
							}
						}
					}
				}
			} else if os.Getenv("ELYSLINT_POLY_DEBUG") != "" {
				fmt.Fprintf(os.Stderr, "c11 ammchange: %s => %s ok=%v\n", ff.PolyOf(st.Val), p, okR)
			}
		}
	}
	R.Add("C11-formula", key2, "TotalTokens[j] = amm + recorded non-amm", P.Pos(fn2.Pos()), ok2 && stored, "after an AMM change the total is the new reserve plus the recorded non-pool part")
}

func isPerpHookCall(P *core.Program, c ssa.CallInstruction) bool {
	return strings.HasPrefix(P.CalleeKey(c.Common()), "x/perpetual/types.PerpetualHooks.After")
}

// checkHookFreshness (F1)
func checkHookFreshness(P *core.Program, R *core.Report, subjects map[*ssa.Function]bool) {
	ammSet := P.Fn("x/amm/keeper.Keeper.SetPool")
	if ammSet == nil {
		R.Add("C11-hook-fresh", "x/amm/keeper.Keeper.SetPool", "function", "-", false, "unresolved anchor")
		return
	}
	mayStore := P.Summary("mayCall:x/amm/keeper.Keeper.SetPool", func(fn *ssa.Function) bool { return fn == ammSet })
	n := 0
	for _, fn := range P.Funcs {
		if !subjects[fn] || core.PkgRel(fn) != "x/perpetual/keeper" {
			continue
		}
		ff := P.Facts(fn)
		calls := core.Calls(fn)
		for _, use := range calls {
			if !isPerpHookCall(P, use) {
				continue
			}
			n++
			arg := use.Common().Args[1] // ctx, ammPool, perpetualPool, …
			bad := ""
			for _, o := range recordOrigins(ff, arg) {
				if o.Kind == "param" {
					continue
				}
				ld, _ := o.Val.(*ssa.Call)
				if o.Kind != "call" || ld == nil {
					bad = "amm pool argument has untracked provenance (" + o.String() + ")"
					continue
				}
				for _, mid := range calls {
					if mid == use || ssa.Instruction(mid) == ssa.Instruction(ld) {
						continue
					}
					if !reachesInstr(fn, ld, mid) {
						continue
					}
					if _, ok := core.ReachesWithout(fn, mid, func(in ssa.Instruction) bool { return in == ssa.Instruction(use) }, func(in ssa.Instruction) bool { return in == ssa.Instruction(ld) }); !ok {
						continue
					}
					sibling := false
					for _, ma := range mid.Common().Args {
						for _, mo := range recordOrigins(ff, ma) {
							if mo.Val == o.Val {
								sibling = true
							}
						}
					}
					if sibling {
						continue
					}
					for _, t := range P.Callees(mid) {
						if mayStore[t] {
							bad = "loaded at " + P.Pos(P.InstrPos(ld)) + " before " + P.CalleeKey(mid.Common()) + " (" + P.Pos(P.InstrPos(mid)) + "), which can store the amm pool through its own load"
						}
					}
				}
			}
			R.Add("C11-hook-fresh", P.Key(fn), "amm pool of "+P.CalleeKey(use.Common()), P.Pos(P.InstrPos(use)), bad == "", "the amm pool handed to a perpetual hook reflects the handler's own transfers. "+bad)
		}
	}
	if n < 7 {
		R.Add("C11-hook-fresh", "x/perpetual/keeper", "hook call sites", "-", false, fmt.Sprintf("expected ≥ 7 perpetual hook call sites, found %d (anchor changed)", n))
	}
}

// checkHookCoverage (F2)
func checkHookCoverage(P *core.Program, R *core.Report, subjects map[*ssa.Function]bool) {
	isChange := func(c ssa.CallInstruction) bool {
		for _, k := range []string{"x/perpetual/types.Pool.UpdateCustody", "x/perpetual/types.Pool.UpdateLiabilities", "x/perpetual/keeper.Keeper.SendToAmmPool", "x/perpetual/keeper.Keeper.SendFromAmmPool"} {
			if calleeMatches(P, c, k) {
				return true
			}
		}
		return false
	}
	persistFns := []*ssa.Function{P.Fn("x/perpetual/keeper.Keeper.SetPool"), P.Fn("x/perpetual/keeper.Keeper.SetMTP"), P.Fn("x/perpetual/keeper.Keeper.DestroyMTP"), P.Fn("x/amm/keeper.Keeper.SetPool")}
	canPersist := func(fn *ssa.Function) bool {
		r := P.Reach([]*ssa.Function{fn})
		for _, pf := range persistFns {
			if pf != nil && r[pf] {
				return true
			}
		}
		return false
	}
	_ = canPersist
	scratchFns := map[string]bool{"x/perpetual/keeper.Keeper.HandleOpenEstimation": true, "x/perpetual/keeper.Keeper.fillMTPData": true}
	g := P.CG()
	// alwaysHooks: functions whose every success path passes a perpetual hook (directly or
	// through a callee with the same property). Edges taken under `k.hooks == nil` are
	// infeasible in the wired application (C11-wiring) and are pruned.
	always := map[*ssa.Function]bool{}
	hookPass := func(x ssa.Instruction) bool {
		c, ok := x.(ssa.CallInstruction)
		if !ok {
			return false
		}
		if isPerpHookCall(P, c) {
			return true
		}
		ts := P.Callees(c)
		if len(ts) == 0 || c.Common().IsInvoke() {
			return false
		}
		for _, t := range ts {
			if !always[t] {
				return false
			}
		}
		return true
	}
	escapesFrom := func(fn *ssa.Function, from ssa.Instruction) bool {
		ff := P.Facts(fn)
		kinds := map[ssa.Instruction]core.ExitKind{}
		for _, e := range ff.Exits() {
			kinds[e.Instr] = e.Kind
		}
		_, reach := reachesPruned(ff, from, func(in ssa.Instruction) bool {
			k, ok := kinds[in]
			return ok && (k == core.ExitSuccess || k == core.ExitBoth)
		}, hookPass, func(a *core.Atom) bool {
			// prune: <…>.hooks == nil
			if a.Rel != core.EQ || a.B != core.NilMarker {
				return false
			}
			for _, o := range ff.Origins(a.A) {
				if strings.HasSuffix(o.Path, ".hooks") {
					return true
				}
			}
			return false
		})
		return reach
	}
	for changed := true; changed; {
		changed = false
		for _, fn := range P.Funcs {
			if always[fn] || core.PkgRel(fn) != "x/perpetual/keeper" || fn.Blocks == nil {
				continue
			}
			if !escapesFrom(fn, nil) {
				always[fn] = true
				changed = true
			}
		}
	}
	type site struct {
		fn *ssa.Function
		in ssa.Instruction
	}
	memo := map[site]string{} // "" = covered, else uncovered chain
	var covered func(fn *ssa.Function, in ssa.Instruction, depth int, chain []string) string
	covered = func(fn *ssa.Function, in ssa.Instruction, depth int, chain []string) string {
		s := site{fn, in}
		if v, ok := memo[s]; ok {
			return v
		}
		memo[s] = "" // cycle guard
		if !escapesFrom(fn, in) {
			return ""
		}
		chain = append(chain, P.Key(fn))
		if depth > 8 {
			memo[s] = strings.Join(chain, " ← ") + " (depth bound)"
			return memo[s]
		}
		callers := 0
		for _, e := range g.In[fn] {
			if !subjects[e.Caller] {
				continue
			}
			callers++
			if scratchFns[P.Key(e.Caller)] {
				continue
			}
			if r := covered(e.Caller, e.Site, depth+1, chain); r != "" {
				memo[s] = r
				return r
			}
		}
		if callers == 0 {
			memo[s] = strings.Join(chain, " ← ") + " (consensus root reached without a hook)"
			return memo[s]
		}
		return ""
	}
	n := 0
	for _, fn := range P.Funcs {
		if !subjects[fn] || core.PkgRel(fn) != "x/perpetual/keeper" {
			continue
		}
		if scratchFns[P.Key(fn)] {
			continue // estimation / query code on scratch copies (frozen; C09 checks they cannot persist)
		}
		for _, c := range core.Calls(fn) {
			if !isChange(c) {
				continue
			}
			n++
			r := covered(fn, c, 0, nil)
			R.Add("C11-hook-coverage", P.Key(fn), "after "+P.CalleeKey(c.Common()), P.Pos(P.InstrPos(c)), r == "",
				"a change of perpetual custody/liabilities or an AMM balance move through the back door must be followed by a perpetual hook on every success path up to the root. "+r)
		}
	}
	if n < 12 {
		R.Add("C11-hook-coverage", "x/perpetual/keeper", "changing call sites", "-", false, fmt.Sprintf("expected ≥ 12 changing call sites, found %d (anchor changed)", n))
	}
}

// reachesPruned: BFS like core.ReachesWithout, additionally refusing CFG edges whose edge
// facts contain an atom for which prune returns true.
func reachesPruned(ff *core.FuncFacts, from ssa.Instruction, target, stop func(ssa.Instruction) bool, prune func(*core.Atom) bool) (ssa.Instruction, bool) {
	fn := ff.Fn
	type item struct {
		b  *ssa.BasicBlock
		i  int
		pi int // predecessor index the block was entered through (-1: any)
	}
	type key struct {
		b  *ssa.BasicBlock
		pi int
	}
	seen := map[key]bool{}
	var q []item
	if from == nil {
		q = append(q, item{fn.Blocks[0], 0, -1})
		seen[key{fn.Blocks[0], -1}] = true
	} else {
		idx := 0
		for i, x := range from.Block().Instrs {
			if x == from {
				idx = i
			}
		}
		q = append(q, item{from.Block(), idx + 1, -1})
	}
	for len(q) > 0 {
		it := q[0]
		q = q[1:]
		blocked := false
		for i := it.i; i < len(it.b.Instrs); i++ {
			in := it.b.Instrs[i]
			if stop != nil && stop(in) {
				blocked = true
				break
			}
			if target(in) {
				return in, true
			}
		}
		if blocked {
			continue
		}
		// jump threading: an edge that delivers a definitely (non-)nil error into a block that
		// tests that error φ continues on the matching branch only
		for _, s := range ff.ThreadedSuccs(it.b, it.pi) {
			pi := core.PredIndex(it.b, s)
			k := key{s, pi}
			if len(ff.ThreadedSuccs(s, pi)) == len(s.Succs) {
				k.pi = -1
			}
			if seen[k] {
				continue
			}
			pruned := false
			for _, a := range ff.EdgeFacts(it.b, s) {
				if prune(a) {
					pruned = true
				}
			}
			if pruned {
				continue
			}
			seen[k] = true
			q = append(q, item{s, 0, pi})
		}
	}
	return nil, false
}

// checkAmmHookCoverage: the three AMM state-change functions fire their AMM hook after the
// pool was stored, on every success path (the `k.hooks == nil` edge is infeasible in the
// wired application).
func checkAmmHookCoverage(P *core.Program, R *core.Report) {
	for _, h := range []struct{ fn, hook string }{
		{"x/amm/keeper.Keeper.UpdatePoolForSwap", "x/amm/types.AmmHooks.AfterSwap"},
		{ammApplyJoin, "x/amm/types.AmmHooks.AfterJoinPool"},
		{ammApplyExit, "x/amm/types.AmmHooks.AfterExitPool"},
	} {
		fn := P.Fn(h.fn)
		if fn == nil {
			R.Add("C11-amm-hook-coverage", h.fn, "function", "-", false, "unresolved anchor")
			continue
		}
		ff := P.Facts(fn)
		kinds := map[ssa.Instruction]core.ExitKind{}
		for _, e := range ff.Exits() {
			kinds[e.Instr] = e.Kind
		}
		n := 0
		for _, c := range core.Calls(fn) {
			if !calleeMatches(P, c, "x/amm/keeper.Keeper.SetPool") {
				continue
			}
			n++
			at, escapes := reachesPruned(ff, c, func(in ssa.Instruction) bool {
				k, ok := kinds[in]
				return ok && (k == core.ExitSuccess || k == core.ExitBoth)
			}, func(in ssa.Instruction) bool {
				cc, ok := in.(ssa.CallInstruction)
				return ok && P.CalleeKey(cc.Common()) == h.hook
			}, func(a *core.Atom) bool {
				if a.Rel != core.EQ || a.B != core.NilMarker {
					return false
				}
				for _, o := range ff.Origins(a.A) {
					if strings.HasSuffix(o.Path, ".hooks") {
						return true
					}
				}
				return false
			})
			d := ""
			if escapes {
				d = "success exit at " + P.Pos(P.InstrPos(at)) + " bypasses the hook"
			}
			R.Add("C11-amm-hook-coverage", h.fn, "SetPool ⇒ "+h.hook, P.Pos(P.InstrPos(c)), !escapes, "after an AMM pool change the AMM hooks (accounted pool, perpetual checks, reward checkpoints) run on every success path. "+d)
		}
		if n == 0 {
			R.Add("C11-amm-hook-coverage", h.fn, "SetPool", P.Pos(fn.Pos()), false, "no SetPool found (anchor changed)")
		}
	}
}

// checkNonAmmEntries (C11-nonamm-entries): PerpetualUpdates and the amm refresh only UPDATE
// the entries of NonAmmPoolTokens that exist (a missing entry reads as zero), so the record
// must be created with one entry per pool asset — zero amounts included.  The value that
// reaches SetAccountedPool in OnLeverageLpPoolEnable must therefore be a raw slice of
// len(PoolAssets) filled by index; sdk.Coins constructors and arithmetic (NewCoins, Add,
// Sub) silently drop zero-amount coins and would create the record empty.
func checkNonAmmEntries(P *core.Program, R *core.Report) {
	const rule = "C11-nonamm-entries"
	const key = "x/accountedpool/keeper.Keeper.OnLeverageLpPoolEnable"
	fn := P.Fn(key)
	if fn == nil {
		R.Add(rule, key, "function", "-", false, "unresolved anchor")
		return
	}
	ff := P.Facts(fn)
	var setCalls []ssa.Instruction
	for _, c := range core.Calls(fn) {
		if core.CalleeName(c.Common()) == "SetAccountedPool" {
			setCalls = append(setCalls, c.(ssa.Instruction))
		}
	}
	var stores []*ssa.Store
	for _, b := range fn.Blocks {
		for _, in := range b.Instrs {
			if st, ok := in.(*ssa.Store); ok {
				if fa, ok := st.Addr.(*ssa.FieldAddr); ok && core.FieldName(fa.X.Type(), fa.Field) == "NonAmmPoolTokens" {
					stores = append(stores, st)
				}
			}
		}
	}
	if len(setCalls) == 0 || len(stores) == 0 {
		R.Add(rule, key, "NonAmmPoolTokens at creation", P.Pos(fn.Pos()), false, "no store of the field or no SetAccountedPool call (anchor changed)")
		return
	}
	isStore := func(in ssa.Instruction) bool {
		for _, s := range stores {
			if in == ssa.Instruction(s) {
				return true
			}
		}
		return false
	}
	n := 0
	for _, st := range stores {
		// can this store be the last one before the record is persisted?
		_, last := core.ReachesWithout(fn, st, func(in ssa.Instruction) bool {
			for _, s := range setCalls {
				if in == s {
					return true
				}
			}
			return false
		}, isStore)
		if !last {
			continue
		}
		n++
		v := ff.Fwd(st.Val)
		for {
			if ct, ok := v.(*ssa.ChangeType); ok {
				v = ff.Fwd(ct.X)
				continue
			}
			break
		}
		good := false
		if mk, ok := v.(*ssa.MakeSlice); ok {
			if l, isLen := lenOf(ff, mk.Len); isLen {
				if _, isPA := fieldLoad(ff, l, "PoolAssets"); isPA {
					good = true
				}
			}
		}
		// or grown by one append per pool asset: a loop φ [empty slice, append(φ, coin)] whose
		// loop ranges over PoolAssets and appends on every way round
		if ph, ok := v.(*ssa.Phi); ok && len(ph.Edges) == 2 {
			hdr := ph.Block()
			var app *ssa.Call
			emptyInit := false
			for i, e := range ph.Edges {
				ev := ff.Fwd(e)
				if hdr.Dominates(hdr.Preds[i]) {
					if c, ok := ev.(*ssa.Call); ok && core.CalleeName(c.Common()) == "append" && len(c.Common().Args) == 2 && ff.Fwd(c.Common().Args[0]) == ssa.Value(ph) {
						app = c
					}
				} else {
					switch x := ev.(type) {
					case *ssa.MakeSlice:
						if k, ok := x.Len.(*ssa.Const); ok && k.Value != nil && k.Value.ExactString() == "0" {
							emptyInit = true
						}
					case *ssa.Const:
						emptyInit = x.Value == nil
					case *ssa.Slice:
						if al, ok := x.X.(*ssa.Alloc); ok {
							if pt, ok := al.Type().Underlying().(*types.Pointer); ok {
								if at, ok := pt.Elem().Underlying().(*types.Array); ok && at.Len() == 0 {
									emptyInit = true
								}
							}
						}
					}
				}
			}
			overAssets := false
			if iff, ok := hdr.Instrs[len(hdr.Instrs)-1].(*ssa.If); ok {
				if bo, ok := iff.Cond.(*ssa.BinOp); ok && bo.Op == token.LSS {
					if l, isLen := lenOf(ff, bo.Y); isLen {
						if _, isPA := fieldLoad(ff, l, "PoolAssets"); isPA {
							overAssets = true
						}
					}
				}
			}
			good = app != nil && emptyInit && overAssets
		}
		R.Add(rule, key, "NonAmmPoolTokens stored at creation", P.Pos(P.InstrPos(st)), good,
			"one entry per pool asset, zero amounts included: a raw slice of len(PoolAssets) filled by index (sdk.Coins constructors drop zero coins)")
	}
	if n == 0 {
		R.Add(rule, key, "NonAmmPoolTokens stored at creation", P.Pos(fn.Pos()), false, "no store of the field reaches SetAccountedPool")
	}
}
