package rules

import (
	"fmt"
	"go/types"
	"sort"
	"strings"

	"elyslint/core"

	"golang.org/x/tools/go/ssa"
)

func init() {
	register("C01", checkC01)
	register("C02", checkC02)
}

// isAmmPoolAddr: the address is the AMM pool's own account — built (through bech32
// conversion) from Pool.GetAddress() or the Address field of an amm Pool value.
func isAmmPoolAddr(ff *core.FuncFacts, v ssa.Value) bool {
	seen := map[ssa.Value]bool{}
	var ok func(v ssa.Value, depth int) bool
	ok = func(v ssa.Value, depth int) bool {
		v = ff.Fwd(v)
		if v == nil || seen[v] || depth > 10 {
			return false
		}
		seen[v] = true
		switch x := v.(type) {
		case *ssa.Extract:
			return ok(x.Tuple, depth+1)
		case *ssa.Phi:
			for _, e := range x.Edges {
				if !ok(e, depth+1) {
					return false
				}
			}
			return len(x.Edges) > 0
		case *ssa.Call:
			name := core.CalleeName(x.Common())
			switch name {
			case "AccAddressFromBech32", "MustAccAddressFromBech32":
				return ok(x.Common().Args[0], depth+1)
			case "GetAddress":
				if sc := x.Common().StaticCallee(); sc != nil && sc.Signature.Recv() != nil {
					return core.IsNamed(sc.Signature.Recv().Type(), "x/amm/types", "Pool")
				}
			}
		case *ssa.Field:
			return core.FieldName(x.X.Type(), x.Field) == "Address" && core.IsNamed(x.X.Type(), "x/amm/types", "Pool")
		case *ssa.UnOp:
			if fa, isFA := x.X.(*ssa.FieldAddr); isFA {
				return core.FieldName(fa.X.Type(), fa.Field) == "Address" && core.IsNamed(fa.X.Type(), "x/amm/types", "Pool")
			}
		}
		return false
	}
	return ok(v, 0)
}

const (
	ammAddTo      = "x/amm/keeper.Keeper.AddToPoolBalanceAndUpdateLiquidity"
	ammRemoveFrom = "x/amm/keeper.Keeper.RemoveFromPoolBalanceAndUpdateLiquidity"
	ammApplyJoin  = "x/amm/keeper.Keeper.ApplyJoinPoolStateChange"
	ammApplyExit  = "x/amm/keeper.Keeper.ApplyExitPoolStateChange"
	ammIncLiq     = "x/amm/types.Pool.IncreaseLiquidity"
	ammDecLiq     = "x/amm/types.Pool.DecreaseLiquidity"
	ammJoinPool   = "x/amm/types.Pool.JoinPool"
	ammExitPool   = "x/amm/types.Pool.ExitPool"
	ammRecInc     = "x/amm/keeper.Keeper.RecordTotalLiquidityIncrease"
	ammRecDec     = "x/amm/keeper.Keeper.RecordTotalLiquidityDecrease"
	ammMintShare  = "x/amm/keeper.Keeper.MintPoolShareToAccount"
	ammBurnShare  = "x/amm/keeper.Keeper.BurnPoolShareFromAccount"
)

func ammBookCalls(book string) []CallLedger {
	return []CallLedger{
		{Callee: ammIncLiq, Ledger: book, Sign: 1, AmtArg: 2, AmtRes: -1},
		{Callee: ammDecLiq, Ledger: book, Sign: -1, AmtArg: 2, AmtRes: -1},
		{Callee: ammAddTo, Ledger: book, Sign: 1, AmtArg: 4, AmtRes: -1},
		{Callee: ammRemoveFrom, Ledger: book, Sign: -1, AmtArg: 4, AmtRes: -1},
		{Callee: ammJoinPool, Ledger: book, Sign: 1, AmtRes: 0, AmtArg: -1},
		{Callee: ammExitPool, Ledger: book, Sign: -1, AmtRes: 0, AmtArg: -1},
	}
}

func checkC01(P *core.Program, R *core.Report) {
	defer checkBookWriters(P, R)
	defer checkSettlePositive(P, R)
	R.Explanation = "Two linear invariants over every consensus-reachable function. (I1) bank balance at an AMM pool address − pool book = 0: every bank transfer whose end is an AMM pool address (provenance Pool.GetAddress()/Pool.Address through bech32 conversion) and every book update " +
		"(Pool.IncreaseLiquidity/DecreaseLiquidity, the …AndUpdateLiquidity keeper helpers, Pool.JoinPool / Pool.ExitPool results) on the same success paths must cancel symbolically; the helpers ApplyJoinPoolStateChange/ApplyExitPoolStateChange are accounted at their call sites and their declared effect (transfer of exactly the coins parameter to/from the pool address) is verified against their bodies. " +
		"(I2) pool book − chain-wide DenomLiquidity = 0 with RecordTotalLiquidityIncrease/Decrease. Also: the share arguments of the perpetual back door helpers are the zero constant; CreatePool's book, transfer and DenomLiquidity loop all derive from msg.PoolAssets of the same message; MatchAmmBalances is reachable only from upgrade code. " +
		"Third-party direct sends and the numeric correctness of amounts are out of scope."
	roots := P.FindRoots()
	subjects := P.Reach(roots.Consensus())
	i1 := &LedgerSpec{
		Property: "C01", Rule: "C01-bank-vs-book",
		Calls: append(ammBookCalls("Book"),
			CallLedger{Callee: ammApplyJoin, Ledger: "Bank@pool", Sign: 1, AmtArg: 5, AmtRes: -1},
			CallLedger{Callee: ammApplyExit, Ledger: "Bank@pool", Sign: -1, AmtArg: 5, AmtRes: -1},
		),
		Bank: func(P *core.Program, ff *core.FuncFacts, c ssa.CallInstruction, from, to, coins ssa.Value) (string, string) {
			fl, tl := "", ""
			if isAmmPoolAddr(ff, from) {
				fl = "Bank@pool"
			}
			if isAmmPoolAddr(ff, to) {
				tl = "Bank@pool"
			}
			return fl, tl
		},
		Coeff: map[string]int{"Bank@pool": 1, "Book": -1},
		Helpers: map[string]string{
			ammAddTo:                           "book + coins (callers pair it with the transfer into the pool)",
			ammRemoveFrom:                      "book − coins (callers pair it with the transfer out of the pool)",
			ammApplyJoin:                       "moves joinCoins from the joiner to the pool address; the book side is Pool.JoinPool in the caller",
			ammApplyExit:                       "moves exitCoins from the pool address to the exiter; the book side is Pool.ExitPool in the caller",
			ammJoinPool:                        "types-level join: mutates the book by the coins it returns",
			ammExitPool:                        "types-level exit: mutates the book by the coins it returns",
			"x/amm/types.Pool.processExitPool": "set-to idiom, decided by C05's completeness guard rule",
		},
		HelperEffects: map[string][]HelperEffect{
			ammAddTo:      {{Ledger: "Book", Sign: 1, Param: 4}},
			ammRemoveFrom: {{Ledger: "Book", Sign: -1, Param: 4}},
			ammApplyJoin:  {{Ledger: "Bank@pool", Sign: 1, Param: 5}},
			ammApplyExit:  {{Ledger: "Bank@pool", Sign: -1, Param: 5}},
		},
		AssignOK: map[string]string{},
		Exempt: map[string]string{
			"x/amm/keeper.Keeper.CreatePool":       "initial book, transfer and DenomLiquidity all derive from msg.PoolAssets (rule C01-create-pool)",
			"x/amm/keeper.Keeper.MatchAmmBalances": "upgrade-only repair routine (rule C01-upgrade-only)",
		},
		Subjects: subjects,
	}
	CheckLedgers(P, R, i1)
	i2 := &LedgerSpec{
		Property: "C01", Rule: "C01-book-vs-denomliq",
		Calls: append(ammBookCalls("Book"),
			CallLedger{Callee: ammRecInc, Ledger: "DenomLiquidity", Sign: 1, AmtArg: 2, AmtRes: -1},
			CallLedger{Callee: ammRecDec, Ledger: "DenomLiquidity", Sign: -1, AmtArg: 2, AmtRes: -1},
		),
		Coeff: map[string]int{"Book": 1, "DenomLiquidity": -1},
		Helpers: map[string]string{
			ammJoinPool:                        "types-level join (book only); DenomLiquidity is recorded by the keeper caller",
			ammExitPool:                        "types-level exit (book only); DenomLiquidity is recorded by the keeper caller",
			"x/amm/types.Pool.processExitPool": "set-to idiom, decided by C05",
		},
		AssignOK: map[string]string{},
		Exempt: map[string]string{
			"x/amm/keeper.Keeper.CreatePool": "rule C01-create-pool",
		},
		Subjects: subjects,
	}
	// in I2 the …AndUpdateLiquidity helpers are ordinary functions: their own Increase/Decrease
	// must pair with RecordTotalLiquidity*, and their callers see book and DenomLiquidity move together
	i2.Calls = filterCalls(i2.Calls, ammAddTo, ammRemoveFrom)
	i2.Calls = append(i2.Calls,
		CallLedger{Callee: ammAddTo, Ledger: "Book", Sign: 1, AmtArg: 4, AmtRes: -1},
		CallLedger{Callee: ammAddTo, Ledger: "DenomLiquidity", Sign: 1, AmtArg: 4, AmtRes: -1},
		CallLedger{Callee: ammRemoveFrom, Ledger: "Book", Sign: -1, AmtArg: 4, AmtRes: -1},
		CallLedger{Callee: ammRemoveFrom, Ledger: "DenomLiquidity", Sign: -1, AmtArg: 4, AmtRes: -1},
	)
	CheckLedgers(P, R, i2)

	// zero share arguments at the back-door helpers
	n := 0
	for _, fn := range P.Funcs {
		if !subjects[fn] {
			continue
		}
		ff := P.Facts(fn)
		for _, c := range core.Calls(fn) {
			if !calleeMatches(P, c, ammAddTo) && !calleeMatches(P, c, ammRemoveFrom) {
				continue
			}
			n++
			args := c.Common().Args
			sh := args[len(args)-2]
			R.Add("C01-zero-shares", P.Key(fn), "shares argument of "+P.CalleeKey(c.Common()), P.Pos(P.InstrPos(c)), ff.LinOf(sh).IsZero(),
				"balance-only updates must not change TotalShares (argument must be the zero constant)")
		}
	}
	checkCreatePool(P, R)
	// MatchAmmBalances only from upgrade roots
	if m := P.Fn("x/amm/keeper.Keeper.MatchAmmBalances"); m != nil {
		R.Add("C01-upgrade-only", "x/amm/keeper.Keeper.MatchAmmBalances", "not consensus-reachable", P.Pos(m.Pos()), !subjects[m],
			"MatchAmmBalances mints/burns pool assets to force the bank to the book; it may only run from an upgrade handler. "+strings.Join(P.PathTo(roots.Consensus(), m), " → "))
	}
	checkRecordFreshness(P, R, freshSpec{Rule: "C01-pool-fresh", Load: "x/amm/keeper.Keeper.GetPool", Store: "x/amm/keeper.Keeper.SetPool", Subjects: subjects, Tolerated: map[string]string{}})
}

func ammSubjects(P *core.Program, subjects map[*ssa.Function]bool) map[*ssa.Function]bool {
	out := map[*ssa.Function]bool{}
	for fn := range subjects {
		if strings.HasPrefix(core.PkgRel(fn), "x/amm/") {
			out[fn] = true
		}
	}
	return out
}

func filterCalls(cs []CallLedger, drop ...string) []CallLedger {
	var out []CallLedger
	for _, c := range cs {
		d := false
		for _, k := range drop {
			if c.Callee == k {
				d = true
			}
		}
		if !d {
			out = append(out, c)
		}
	}
	return out
}

// checkCreatePool: book, transfer and DenomLiquidity of a new pool come from one message.
func checkCreatePool(P *core.Program, R *core.Report) {
	const key = "x/amm/keeper.Keeper.CreatePool"
	fn := P.Fn(key)
	if fn == nil {
		R.Add("C01-create-pool", key, "function", "-", false, "unresolved anchor")
		return
	}
	ff := P.Facts(fn)
	msg := ssa.Value(fn.Params[2])
	fromMsg := func(v ssa.Value, path string) bool {
		return ff.AllOrigins(v, nil, func(o core.Origin) bool { return o.Kind == "param" && o.Val == msg && strings.HasPrefix(o.Path, path) })
	}
	book, xfer, dl := false, false, false
	for _, c := range core.Calls(fn) {
		switch {
		case calleeMatches(P, c, "x/amm/types.NewBalancerPool"):
			book = len(c.Common().Args) >= 3 && fromMsg(c.Common().Args[2], ".PoolAssets")
		case P.EffectOf(c) == core.EffBankSend:
			_, to, coins := bankEnds(c)
			if isAmmPoolAddr(ff, to) {
				// coins = msg.InitialLiquidity()
				xfer = ff.AllOrigins(coins, func(cl *ssa.Call) []ssa.Value {
					if core.CalleeName(cl.Common()) == "InitialLiquidity" {
						return cl.Common().Args
					}
					return nil
				}, func(o core.Origin) bool { return o.Kind == "param" && o.Val == msg && o.Path == "" })
			}
		case calleeMatches(P, c, ammRecInc):
			args := c.Common().Args
			dl = ff.AllOrigins(args[len(args)-1], func(cl *ssa.Call) []ssa.Value { return nil }, func(o core.Origin) bool {
				return o.Kind == "param" && o.Val == msg && strings.HasPrefix(o.Path, ".PoolAssets")
			}) || fromMsgElems(ff, args[len(args)-1], msg)
		}
	}
	R.Add("C01-create-pool", key, "book from msg.PoolAssets", P.Pos(fn.Pos()), book, "NewBalancerPool must be built from msg.PoolAssets")
	R.Add("C01-create-pool", key, "transfer msg.InitialLiquidity()", P.Pos(fn.Pos()), xfer, "the initial transfer to the pool address must be msg.InitialLiquidity()")
	R.Add("C01-create-pool", key, "DenomLiquidity from msg.PoolAssets", P.Pos(fn.Pos()), dl, "DenomLiquidity must be increased by the tokens of msg.PoolAssets")
	// InitialLiquidity() itself sums the PoolAssets tokens
	if il := P.Fn("x/amm/types.MsgCreatePool.InitialLiquidity"); il != nil {
		ok := false
		for _, b := range il.Blocks {
			for _, in := range b.Instrs {
				if fa, isFA := in.(*ssa.FieldAddr); isFA && core.FieldName(fa.X.Type(), fa.Field) == "PoolAssets" {
					ok = true
				}
				if f, isF := in.(*ssa.Field); isF && core.FieldName(f.X.Type(), f.Field) == "PoolAssets" {
					ok = true
				}
			}
		}
		R.Add("C01-create-pool", "x/amm/types.MsgCreatePool.InitialLiquidity", "reads PoolAssets", P.Pos(il.Pos()), ok, "InitialLiquidity must be computed from PoolAssets")
	} else {
		R.Add("C01-create-pool", "x/amm/types.MsgCreatePool.InitialLiquidity", "function", "-", false, "unresolved anchor")
	}
}

// fromMsgElems: a slice literal whose elements are fields of elements ranged from msg.PoolAssets.
// appendedElems: v is a slice assembled from nothing but literals, make(…) and append: the
// elements it can hold (a loop that appends asset.Token for every asset yields that one value).
func appendedElems(ff *core.FuncFacts, v ssa.Value, seen map[ssa.Value]bool) ([]ssa.Value, bool) {
	v = ff.Fwd(v)
	if seen[v] {
		return nil, true
	}
	seen[v] = true
	if els, ok := core.SliceLiteral(v); ok {
		return els, true
	}
	switch x := v.(type) {
	case *ssa.MakeSlice:
		return nil, true
	case *ssa.Const:
		return nil, x.Value == nil
	case *ssa.ChangeType:
		return appendedElems(ff, x.X, seen)
	case *ssa.Phi:
		var out []ssa.Value
		for _, e := range x.Edges {
			els, ok := appendedElems(ff, e, seen)
			if !ok {
				return nil, false
			}
			out = append(out, els...)
		}
		return out, true
	case *ssa.Call:
		if b, ok := x.Common().Value.(*ssa.Builtin); ok && b.Name() == "append" && len(x.Common().Args) == 2 {
			a, ok1 := appendedElems(ff, x.Common().Args[0], seen)
			b2, ok2 := appendedElems(ff, x.Common().Args[1], seen)
			return append(a, b2...), ok1 && ok2
		}
	}
	return nil, false
}

func fromMsgElems(ff *core.FuncFacts, v ssa.Value, msg ssa.Value) bool {
	els, ok := core.SliceLiteral(ff.Fwd(v))
	if !ok {
		els, ok = appendedElems(ff, v, map[ssa.Value]bool{})
		if !ok || len(els) == 0 {
			return false
		}
	}
	for _, e := range els {
		good := false
		for _, o := range ff.Origins(e) {
			if o.Val == msg && strings.Contains(o.Path, "PoolAssets") {
				good = true
			}
		}
		if !good {
			return false
		}
	}
	return true
}

// ---------------------------------------------------------------------------------

func isShareDenomCoins(ff *core.FuncFacts, at ssa.Instruction, coins ssa.Value) string {
	switch {
	case denomIs(ff, at, coins, "x/amm/types.GetPoolShareDenom"):
		return "amm"
	case denomIs(ff, at, coins, "x/stablestake/types.GetShareDenom"):
		return "stablestake"
	}
	return ""
}

func checkC02(P *core.Program, R *core.Report) {
	R.Explanation = "Share accounting as linear invariants over every consensus-reachable function: (S1) minted supply of a share denom − Pool.TotalShares = 0, with Mint/Burn of coins whose denom is produced by GetPoolShareDenom / stablestake GetShareDenom, Pool.IncreaseLiquidity/DecreaseLiquidity share arguments, Pool.JoinPool's shares result and Pool.ExitPool's share argument; " +
		"(S2) minted supply − shares committed = 0 with CommitLiquidTokens / UncommitTokens of a share denom. The helpers MintPoolShareToAccount, BurnPoolShareFromAccount, ApplyJoinPoolStateChange, ApplyExitPoolStateChange are accounted at their call sites and their declared effects verified against their bodies (mint+commit of exactly `amount`; uncommit before burn). " +
		"InitializePool mints pool.GetTotalShares().Amount after setting it. Σ over accounts is not decided (C12's ledger)."
	subjects := P.Reach(P.FindRoots().Consensus())
	checkJoinPoolBody(P, R)
	checkExitPoolBody(P, R)
	mintBurn := func(P *core.Program, ff *core.FuncFacts, c ssa.CallInstruction, module, coins ssa.Value) string {
		if isShareDenomCoins(ff, c, coins) != "" {
			return "Supply"
		}
		return ""
	}
	shareCalls := []CallLedger{
		{Callee: ammIncLiq, Ledger: "TotalShares", Sign: 1, AmtArg: 1, AmtRes: -1},
		{Callee: ammDecLiq, Ledger: "TotalShares", Sign: -1, AmtArg: 1, AmtRes: -1},
		{Callee: ammAddTo, Ledger: "TotalShares", Sign: 1, AmtArg: 3, AmtRes: -1},
		{Callee: ammRemoveFrom, Ledger: "TotalShares", Sign: -1, AmtArg: 3, AmtRes: -1},
		{Callee: ammJoinPool, Ledger: "TotalShares", Sign: 1, AmtRes: 1, AmtArg: -1},
		{Callee: ammExitPool, Ledger: "TotalShares", Sign: -1, AmtArg: 4, AmtRes: -1},
		{Callee: ammMintShare, Ledger: "Supply", Sign: 1, AmtArg: 4, AmtRes: -1},
		{Callee: ammBurnShare, Ledger: "Supply", Sign: -1, AmtArg: 4, AmtRes: -1},
		{Callee: ammApplyJoin, Ledger: "Supply", Sign: 1, AmtArg: 4, AmtRes: -1},
		{Callee: ammApplyExit, Ledger: "Supply", Sign: -1, AmtArg: 4, AmtRes: -1},
	}
	s1 := &LedgerSpec{
		Property: "C02", Rule: "C02-supply-vs-totalshares",
		Calls:    shareCalls,
		MintBurn: mintBurn,
		Coeff:    map[string]int{"Supply": 1, "TotalShares": -1},
		Helpers: map[string]string{
			ammMintShare:                            "mints exactly `amount` of the pool's share denom",
			ammBurnShare:                            "burns exactly `amount` of the pool's share denom",
			ammApplyJoin:                            "mints numShares; TotalShares side is Pool.JoinPool in the caller",
			ammApplyExit:                            "burns numShares; TotalShares side is Pool.ExitPool in the caller",
			ammAddTo:                                "balance helper (shares argument checked zero by C01)",
			ammRemoveFrom:                           "balance helper (shares argument checked zero by C01)",
			ammJoinPool:                             "types-level join",
			ammExitPool:                             "types-level exit",
			"x/amm/types.Pool.IncreaseLiquidity":    "primitive",
			"x/amm/types.Pool.DecreaseLiquidity":    "primitive",
			"x/stablestake/keeper.msgServer.Bond":   "vault shares have no TotalShares field (supply is the total); pairing with commitments decided by S2",
			"x/stablestake/keeper.msgServer.Unbond": "vault shares have no TotalShares field; pairing with commitments decided by S2",
		},
		HelperEffects: map[string][]HelperEffect{
			ammMintShare: {{Ledger: "Supply", Sign: 1, Param: 4}},
			ammBurnShare: {{Ledger: "Supply", Sign: -1, Param: 4}},
			ammApplyJoin: {{Ledger: "Supply", Sign: 1, Param: 4}},
			ammApplyExit: {{Ledger: "Supply", Sign: -1, Param: 4}},
		},
		AssignOK: map[string]string{},
		Exempt: map[string]string{
			"x/amm/keeper.Keeper.InitializePool": "sets TotalShares then mints pool.GetTotalShares().Amount (rule C02-initialize)",
		},
		Subjects: subjects,
	}
	CheckLedgers(P, R, s1)
	s2 := &LedgerSpec{
		Property: "C02", Rule: "C02-supply-vs-committed",
		Calls: []CallLedger{
			{Callee: ammMintShare, Ledger: "Supply", Sign: 1, AmtArg: 4, AmtRes: -1},
			{Callee: ammMintShare, Ledger: "CommittedShares", Sign: 1, AmtArg: 4, AmtRes: -1},
			{Callee: ammBurnShare, Ledger: "Supply", Sign: -1, AmtArg: 4, AmtRes: -1},
			{Callee: "x/commitment/keeper.Keeper.CommitLiquidTokens", Ledger: "CommittedShares", Sign: 1, AmtArg: 4, AmtRes: -1, Filter: shareDenomArg(3)},
			{Callee: "x/commitment/keeper.Keeper.UncommitTokens", Ledger: "CommittedShares", Sign: -1, AmtArg: 4, AmtRes: -1, Filter: shareDenomArg(3)},
		},
		MintBurn: mintBurn,
		Coeff:    map[string]int{"Supply": 1, "CommittedShares": -1},
		Helpers: map[string]string{
			ammMintShare: "mints and commits exactly `amount`",
			ammBurnShare: "burns exactly `amount` (the uncommit is in the caller, before it)",
		},
		HelperEffects: map[string][]HelperEffect{
			ammMintShare: {{Ledger: "Supply", Sign: 1, Param: 4}, {Ledger: "CommittedShares", Sign: 1, Param: 4}},
			ammBurnShare: {{Ledger: "Supply", Sign: -1, Param: 4}},
		},
		AssignOK: map[string]string{},
		Exempt:   map[string]string{},
		Subjects: subjects,
	}
	CheckLedgers(P, R, s2)
	checkUncommitCallers(P, R, subjects)
	// uncommit dominates burn in ApplyExitPoolStateChange and Unbond
	for _, key := range []string{ammApplyExit, "x/stablestake/keeper.msgServer.Unbond"} {
		fn := P.Fn(key)
		if fn == nil {
			R.Add("C02-uncommit-before-burn", key, "function", "-", false, "unresolved anchor")
			continue
		}
		var unc, burn ssa.Instruction
		for _, c := range core.Calls(fn) {
			if calleeMatches(P, c, "x/commitment/keeper.Keeper.UncommitTokens") {
				unc = c
			}
			if calleeMatches(P, c, ammBurnShare) || P.EffectOf(c) == core.EffBurn {
				burn = c
			}
		}
		R.Add("C02-uncommit-before-burn", key, "UncommitTokens dominates burn", P.Pos(fn.Pos()), unc != nil && burn != nil && core.Dominates(unc, burn),
			"shares leave custody (with the lock-up check) before they are burnt")
	}
	// InitializePool: mint amount is the TotalShares just set
	if fn := P.Fn("x/amm/keeper.Keeper.InitializePool"); fn != nil {
		ff := P.Facts(fn)
		ok := false
		for _, c := range core.Calls(fn) {
			if !calleeMatches(P, c, ammMintShare) {
				continue
			}
			args := c.Common().Args
			amt := args[len(args)-1]
			for _, o := range ff.OriginsT(amt, func(cl *ssa.Call) []ssa.Value {
				if core.CalleeName(cl.Common()) == "GetTotalShares" {
					return cl.Common().Args
				}
				return nil
			}) {
				if o.Kind == "param" && o.Name == "pool" {
					ok = true
				}
			}
		}
		R.Add("C02-initialize", "x/amm/keeper.Keeper.InitializePool", "mint = pool.GetTotalShares().Amount", P.Pos(fn.Pos()), ok, "the creator is minted exactly the pool's initial TotalShares")
	} else {
		R.Add("C02-initialize", "x/amm/keeper.Keeper.InitializePool", "function", "-", false, "unresolved anchor")
	}
}

// shareDenomArg: the call's denom argument (index including the receiver) is produced by
// GetPoolShareDenom / stablestake GetShareDenom.
func shareDenomArg(idx int) func(P *core.Program, ff *core.FuncFacts, c ssa.CallInstruction) bool {
	return func(P *core.Program, ff *core.FuncFacts, c ssa.CallInstruction) bool {
		i := idx
		if c.Common().IsInvoke() {
			i--
		}
		if i < 0 || i >= len(c.Common().Args) {
			return false
		}
		return ff.AllOrigins(c.Common().Args[i], nil, func(o core.Origin) bool {
			return o.Kind == "call" && (strings.HasSuffix(o.Name, "x/amm/types.GetPoolShareDenom") || strings.HasSuffix(o.Name, "x/stablestake/types.GetShareDenom"))
		})
	}
}

// checkUncommitCallers (C02): committed shares may only leave custody together with their
// burn. Every consensus call of commitment Keeper.UncommitTokens therefore either passes a
// share denom inside a function that burns the same amount afterwards, or is reached only
// on paths where the denom was compared equal to the Eden / EdenB constants.
func checkUncommitCallers(P *core.Program, R *core.Report, subjects map[*ssa.Function]bool) {
	const unc = "x/commitment/keeper.Keeper.UncommitTokens"
	fn := P.Fn(unc)
	if fn == nil {
		R.Add("C02-uncommit-callers", unc, "function", "-", false, "unresolved anchor")
		return
	}
	edenConsts := map[string]bool{}
	if pkg := P.PkgByRel["x/parameter/types"]; pkg != nil {
		for _, n := range []string{"Eden", "EdenB"} {
			if c, ok := pkg.Types.Scope().Lookup(n).(*types.Const); ok {
				edenConsts[c.Val().ExactString()] = true
			}
		}
	}
	for _, e := range P.CG().In[fn] {
		if !subjects[e.Caller] {
			continue
		}
		c := e.Site.(ssa.CallInstruction)
		ff := P.Facts(e.Caller)
		key := P.Key(e.Caller)
		args := c.Common().Args
		// (ctx, addr, denom, amount, isLiquidation) — last three
		denom := args[len(args)-3]
		pos := P.Pos(P.InstrPos(c))
		if shareDenomArg(len(args) - 3 + boolToInt(c.Common().IsInvoke()))(P, ff, c) {
			// share denom: a burn must follow on every success path
			_, escapes := ff.SuccessExitReachableWithout(c, func(in ssa.Instruction) bool {
				cc, ok := in.(ssa.CallInstruction)
				return ok && (calleeMatches(P, cc, ammBurnShare) || P.EffectOf(cc) == core.EffBurn)
			})
			R.Add("C02-uncommit-callers", key, "share uncommit ⇒ burn", pos, !escapes, "uncommitted shares must be burnt on every success path")
			continue
		}
		paths, ok := ff.PathsTo(c)
		if !ok {
			R.Undecided("C02-uncommit-callers", key, "denom guard", pos, "too many paths")
			continue
		}
		bad := len(paths) == 0
		for _, p := range paths {
			good := false
			for _, a := range p.Atoms {
				if a.Rel != core.EQ || a.B == nil {
					continue
				}
				for _, pr := range [][2]ssa.Value{{a.A, a.B}, {a.B, a.A}} {
					k, isK := pr[1].(*ssa.Const)
					if !isK || k.Value == nil || !edenConsts[k.Value.ExactString()] {
						continue
					}
					if sameRoot(ff, pr[0], denom) && sameOriginPath(ff, pr[0], denom) {
						good = true
					}
				}
			}
			if !good {
				bad = true
			}
		}
		R.Add("C02-uncommit-callers", key, "denom ∈ {Eden, EdenB}", pos, !bad,
			"a caller that does not burn may only uncommit Eden/EdenB: every path to the call must carry denom == Eden or denom == EdenB")
	}
}

func boolToInt(b bool) int {
	if b {
		return 1
	}
	return 0
}

func sameOriginPath(ff *core.FuncFacts, a, b ssa.Value) bool {
	oa, ob := ff.Origins(a), ff.Origins(b)
	if len(oa) != 1 || len(ob) != 1 {
		return false
	}
	return oa[0].Path == ob[0].Path
}

// checkJoinPoolBody verifies the lemma the share ledgers rest on (C02 treats Pool.JoinPool as
// "TotalShares and the pool book grow by exactly what it returns"): on every success return
// of Pool.JoinPool the returned share amount and the returned joined coins are the very
// values handed to the IncreaseLiquidity call that precedes the return.
func checkJoinPoolBody(P *core.Program, R *core.Report) {
	const key = "x/amm/types.Pool.JoinPool"
	fn := P.Fn(key)
	if fn == nil {
		R.Add("C02-joinpool-body", key, "function", "-", false, "unresolved anchor")
		return
	}
	ff := P.Facts(fn)
	var incs []ssa.CallInstruction
	for _, c := range core.Calls(fn) {
		if calleeMatches(P, c, "x/amm/types.Pool.IncreaseLiquidity") {
			incs = append(incs, c)
		}
	}
	n := 0
	for _, ex := range ff.Exits() {
		ret, ok := ex.Instr.(*ssa.Return)
		if !ok || ex.Kind != core.ExitSuccess || len(ret.Results) < 2 {
			continue
		}
		n++
		var inc ssa.CallInstruction
		for _, c := range incs {
			if core.Dominates(c, ret) && (inc == nil || core.Dominates(inc, c)) {
				inc = c
			}
		}
		if inc == nil {
			R.Add("C02-joinpool-body", key, "success return after IncreaseLiquidity", P.Pos(P.InstrPos(ret)), false, "a success return is not preceded by IncreaseLiquidity: shares would be reported without being booked")
			continue
		}
		a := inc.Common().Args
		sharesOK := ff.PolyOf(ret.Results[1]).Equal(ff.PolyOf(a[1]))
		coinsOK := ff.Fwd(ret.Results[0]) == ff.Fwd(a[2]) || ff.LinOf(ret.Results[0]).Equal(ff.LinOf(a[2]))
		R.Add("C02-joinpool-body", key, "returned shares/coins = booked shares/coins", P.Pos(P.InstrPos(ret)), sharesOK && coinsOK,
			fmt.Sprintf("what JoinPool reports (minted and committed by the keeper, moved by the bank) must be what it added to TotalShares and the pool book; returned shares %s vs booked %s", ff.PolyOf(ret.Results[1]), ff.PolyOf(a[1])))
	}
	if n == 0 {
		R.Add("C02-joinpool-body", key, "success returns", P.Pos(fn.Pos()), false, "no success return (anchor changed)")
	}
}

// checkBookWriters (C01-book-writers): who may write a pool's reserves in place.  A
// types.Pool is passed around by value, but its PoolAssets slice shares one backing array
// between all the copies: an element store through ANY copy changes the live record of
// whoever loaded it (and of the per-block snapshot).  The book may therefore be written in
// place only by the pool's own balance methods, which every ledger rule above accounts for;
// everything else must build a fresh slice.  Decided for all non-generated code of x/:
// every store whose address runs through an element of a []PoolAsset that was not created
// in the same function (make / literal / append result) lies in a frozen writer.
func checkBookWriters(P *core.Program, R *core.Report) {
	const rule = "C01-book-writers"
	writers := map[string]string{
		"x/amm/types.Pool.addToPoolAssetBalances":        "reserve += coin (declared effect of IncreaseLiquidity / the swap update)",
		"x/amm/types.Pool.subtractFromPoolAssetBalances": "reserve −= coin, negative result rejected",
		"x/amm/types.Pool.UpdatePoolAssetBalance":        "reserve := coin under 0 < coin (set-to idiom, C05-set-to)",
	}
	found := map[string]bool{}
	n := 0
	isPoolAssetSlice := func(t types.Type) bool {
		sl, ok := t.Underlying().(*types.Slice)
		return ok && strings.HasSuffix(sl.Elem().String(), "x/amm/types.PoolAsset")
	}
	var fns []*ssa.Function
	for _, fn := range P.Funcs {
		if fn.Blocks == nil || core.IsGeneratedOrAux(P.File(fn.Pos())) || strings.HasSuffix(P.File(fn.Pos()), "_test.go") || !strings.HasPrefix(P.Key(fn), "x/") {
			continue
		}
		fns = append(fns, fn)
	}
	sort.Slice(fns, func(i, j int) bool { return P.Key(fns[i]) < P.Key(fns[j]) })
	for _, fn := range fns {
		key := P.Key(fn)
		ff := P.Facts(fn)
		for _, b := range fn.Blocks {
			for _, in := range b.Instrs {
				st, ok := in.(*ssa.Store)
				if !ok {
					continue
				}
				// walk the address down to an element of a []PoolAsset
				addr := st.Addr
				var ia *ssa.IndexAddr
				for d := 0; d < 5 && addr != nil; d++ {
					switch x := addr.(type) {
					case *ssa.FieldAddr:
						addr = x.X
						continue
					case *ssa.IndexAddr:
						if isPoolAssetSlice(x.X.Type()) {
							ia = x
						}
					}
					break
				}
				if ia == nil {
					continue
				}
				// a slice created here is private to this function
				fresh := false
				switch s := ff.Fwd(ia.X).(type) {
				case *ssa.MakeSlice:
					fresh = true
				case *ssa.Slice:
					if _, isAlloc := s.X.(*ssa.Alloc); isAlloc {
						fresh = true // slice literal
					}
				case *ssa.Call:
					if core.CalleeName(s.Common()) == "append" {
						fresh = true
					} else if sc := s.Common().StaticCallee(); sc != nil && core.InModule(sc) && returnsFreshSlice(P, sc) {
						fresh = true // a helper that hands out a copy it made (make + copy)
					}
				}
				if fresh {
					continue
				}
				n++
				_, ok = writers[key]
				found[key] = true
				R.Add(rule, key, "in-place store into a PoolAssets element", P.Pos(P.InstrPos(st)), ok,
					"the PoolAssets backing array is shared by every by-value copy of the pool (the live record, the block snapshot); only the pool's own balance methods may write it in place")
			}
		}
	}
	for w := range writers {
		if !found[w] {
			R.Add(rule, w, "frozen writer", "-", false, "the balance method no longer writes the book in place (anchor changed)")
		}
	}
	_ = n
}

// checkSettlePositive (C01-settle-positive): UpdatePoolForSwap writes the book in place
// (shared backing array, see C01-book-writers) BEFORE it moves the coins.  If the computed
// side of the swap is zero the bank send of a zero coin fails after the book was written;
// a caller that merely discards the failed cache context (the fee conversion in
// OnCollectFee) then still persists the touched array with its own SetPool and the book
// exceeds the bank balance.  Every call site must carry the must-hold fact 0 < amount for
// the coin that was computed by the pricing function.
func checkSettlePositive(P *core.Program, R *core.Report) {
	const rule = "C01-settle-positive"
	target := P.Fn("x/amm/keeper.Keeper.UpdatePoolForSwap")
	if target == nil {
		R.Add(rule, "x/amm/keeper.Keeper.UpdatePoolForSwap", "function", "-", false, "unresolved anchor")
		return
	}
	n := 0
	for _, e := range P.CG().In[target] {
		fn := e.Caller
		if core.IsGeneratedOrAux(P.File(fn.Pos())) {
			continue
		}
		c, ok := e.Site.(ssa.CallInstruction)
		if !ok || len(c.Common().Args) < 7 {
			continue
		}
		ff := P.Facts(fn)
		in := c.(ssa.Instruction)
		n++
		okPos := false
		what := ""
		for _, ai := range []int{5, 6} { // tokenIn, tokenOut
			arg := c.Common().Args[ai]
			computed := false
			for _, o := range ff.Origins(arg) {
				if o.Kind == "call" && (strings.HasSuffix(o.Name, "SwapOutAmtGivenIn") || strings.HasSuffix(o.Name, "SwapInAmtGivenOut")) {
					computed = true
				}
			}
			if !computed {
				continue
			}
			what = "argument " + fmt.Sprint(ai)
			for _, a := range ff.At(in) {
				if a.Rel != core.LT || a.A != core.ZeroMarker || a.B == nil {
					continue
				}
				for _, o := range ff.Origins(a.B) {
					if o.Kind == "call" && (strings.HasSuffix(o.Name, "SwapOutAmtGivenIn") || strings.HasSuffix(o.Name, "SwapInAmtGivenOut")) {
						okPos = true
					}
				}
			}
		}
		R.Add(rule, P.Key(fn), "computed amount positive before UpdatePoolForSwap", P.Pos(P.InstrPos(in)), okPos && what != "",
			"the settlement is reached only with a strictly positive computed amount (a zero coin fails in the bank after the shared book array was written)")
	}
	if n < 3 {
		R.Add(rule, "x/amm/keeper.Keeper.UpdatePoolForSwap", "call sites", "-", false, fmt.Sprintf("expected the three settlement call sites, found %d (anchor changed)", n))
	}
}

// checkExitPoolBody (C02-exitpool-body): the lemma the ledger uses for the types-level exit
// — Pool.ExitPool lowers TotalShares by exactly exitingShares on EVERY success path —
// checked against the bodies: processExitPool stores TotalShares := TotalShares −
// exitingShares (polynomial normal form) and no success exit is reachable without that
// store; Pool.ExitPool has no success exit that avoids processExitPool.  (The keeper burns
// and un-commits the shares unconditionally; a fast path that returns early leaves the
// pool believing in shares that no longer exist.)
func checkExitPoolBody(P *core.Program, R *core.Report) {
	const rule = "C02-exitpool-body"
	fn := P.Fn("x/amm/types.Pool.processExitPool")
	if fn == nil {
		R.Add(rule, "x/amm/types.Pool.processExitPool", "function", "-", false, "unresolved anchor")
		return
	}
	ff := P.Facts(fn)
	var stores []ssa.Instruction
	for _, b := range fn.Blocks {
		for _, in := range b.Instrs {
			st, ok := in.(*ssa.Store)
			if !ok {
				continue
			}
			fa, ok := st.Addr.(*ssa.FieldAddr)
			if !ok || core.FieldName(fa.X.Type(), fa.Field) != "TotalShares" {
				continue
			}
			p, okR := ff.PolyOf(st.Val).Rename(func(_ string, v ssa.Value) (string, bool) {
				if v == nil {
					return "", false
				}
				if len(fn.Params) > 3 && ff.Fwd(v) == ssa.Value(fn.Params[3]) {
					return "EXIT", true
				}
				if originsAll(ff, v, func(o core.Origin) bool {
					return strings.HasSuffix(o.Path, ".TotalShares") || strings.HasSuffix(o.Path, ".TotalShares.Amount")
				}) {
					return "TOTAL", true
				}
				return "", false
			})
			if okR && p.Equal(core.ParsePoly("TOTAL - EXIT")) {
				stores = append(stores, in)
			}
		}
	}
	if len(stores) == 0 {
		R.Add(rule, P.Key(fn), "TotalShares −= exitingShares", P.Pos(fn.Pos()), false, "no store of TotalShares − exitingShares found")
	} else {
		esc, escapes := ff.SuccessExitReachableWithout(nil, func(in ssa.Instruction) bool {
			for _, s := range stores {
				if in == s {
					return true
				}
			}
			return false
		})
		pos := P.Pos(fn.Pos())
		if escapes && esc != nil {
			pos = P.Pos(P.InstrPos(esc))
		}
		R.Add(rule, P.Key(fn), "TotalShares −= exitingShares on every success path", pos, !escapes,
			"a success return that skips the share bookkeeping leaves TotalShares above the supply after the keeper burns the shares")
	}
	if ex := P.Fn("x/amm/types.Pool.ExitPool"); ex != nil {
		fe := P.Facts(ex)
		_, escapes := fe.SuccessExitReachableWithout(nil, func(in ssa.Instruction) bool {
			c, ok := in.(ssa.CallInstruction)
			return ok && calleeMatches(P, c, "x/amm/types.Pool.processExitPool")
		})
		R.Add(rule, P.Key(ex), "every successful exit runs processExitPool", P.Pos(ex.Pos()), !escapes, "Pool.ExitPool must not succeed without the balance and share bookkeeping")
	} else {
		R.Add(rule, "x/amm/types.Pool.ExitPool", "function", "-", false, "unresolved anchor")
	}
}

// returnsFreshSlice: every value fn returns (first result) is a slice fn itself created with
// make, a literal or append — never a field or parameter, which would share a backing array.
func returnsFreshSlice(P *core.Program, fn *ssa.Function) bool {
	if len(fn.Blocks) == 0 || fn.Signature.Results().Len() == 0 {
		return false
	}
	ff := P.Facts(fn)
	n := 0
	for _, b := range fn.Blocks {
		ret, ok := b.Instrs[len(b.Instrs)-1].(*ssa.Return)
		if !ok || len(ret.Results) == 0 {
			continue
		}
		n++
		switch x := ff.Fwd(ret.Results[0]).(type) {
		case *ssa.MakeSlice:
		case *ssa.Slice:
			if _, isAlloc := x.X.(*ssa.Alloc); !isAlloc {
				return false
			}
		case *ssa.Call:
			if core.CalleeName(x.Common()) != "append" {
				return false
			}
			// append(nil/fresh, …) only
			switch a := ff.Fwd(x.Common().Args[0]).(type) {
			case *ssa.MakeSlice:
			case *ssa.Const:
				if a.Value != nil {
					return false
				}
			default:
				return false
			}
		default:
			return false
		}
	}
	return n > 0
}
