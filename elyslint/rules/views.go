package rules

import (
	"fmt"
	"os"
	"sync"

	"elyslint/core"
)

var (
	baselineOnce sync.Once
	baselineSet  map[string]bool
	// function literals per declared function at the pinned commit
	baselineClosures map[string]int
)

func baselineFuncs() map[string]bool {
	baselineOnce.Do(func() {
		var t struct {
			Funcs    []string       `json:"funcs"`
			Closures map[string]int `json:"closures"`
		}
		if err := loadTable("baseline_funcs.json", &t); err == nil && len(t.Funcs) > 0 {
			baselineSet = map[string]bool{}
			for _, f := range t.Funcs {
				baselineSet[f] = true
			}
			baselineClosures = t.Closures
		}
	})
	return baselineSet
}

func runChecker(prop, tier string, P *core.Program) *core.Report {
	R := core.NewReport(prop, tier)
	func() {
		defer func() {
			if e := recover(); e != nil {
				R.Undecided("analyser-panic", "-", fmt.Sprint(e), "-", "the analyser panicked; no verdict")
			}
		}()
		Get(prop)(P, R)
	}()
	runShared(prop, P, R)
	return R
}

// NormalForm returns the inlined normal form of P (DESIGN §9.7): same-package callees
// that did not exist at the pinned commit are inlined into their call statements.  The
// second result is the number of calls inlined (0: the normal form is P itself).
func NormalForm(P *core.Program) (*core.Program, int, []string) {
	bl := baselineFuncs()
	if bl == nil {
		return P, 0, []string{"tables/baseline_funcs.json unreadable: no normal form"}
	}
	core.InlineOnly = func(key string) bool { return !bl[key] }
	core.InlineClosuresIn = func(hostKey string, n int) bool { return n > baselineClosures[hostKey] }
	defer func() { core.InlineOnly, core.InlineClosuresIn = nil, nil }()
	P2, n, log, err := core.InlinedNormalForm(P.Dir, P.Overlay, P, 4)
	if err != nil || P2 == nil {
		return P, 0, append(log, fmt.Sprint("normal form failed: ", err))
	}
	if n > 0 {
		if d := P2.PruneUncalled(func(key string) bool { return !bl[key] }); d > 0 {
			log = append(log, fmt.Sprintf("%d new helper functions left without callers are not subjects", d))
		}
	}
	return P2, n, log
}

// Decide runs the property's rules on the tree as written and, only when that view
// reports a violation, on the inlined normal form.  The two are the same program up to
// inlining, so a necessary condition established on either view is established; the
// report returned is the one the verdict rests on.  nf caches the normal form between
// properties (may be nil).
func Decide(prop, tier string, P *core.Program, nf *NFCache) (*core.Report, *core.Program) {
	R := runChecker(prop, tier, P)
	R.View = "as written"
	if len(R.Violations()) == 0 {
		return R, P
	}
	if nf == nil {
		nf = &NFCache{}
	}
	P2, n, log := nf.get(P)
	if n == 0 {
		return R, P
	}
	R2 := runChecker(prop, tier, P2)
	R2.View = fmt.Sprintf("inlined normal form (%d calls of functions that are not in tables/baseline_funcs.json inlined)", n)
	R2.Extra["normal_form_inlined"] = log
	var first []string
	for i, o := range R.Violations() {
		if i < 8 {
			first = append(first, o.Key())
		}
	}
	R2.Extra["as_written_view_reported"] = first
	if len(R2.Violations()) == 0 {
		return R2, P2
	}
	if os.Getenv("ELYSLINT_VIEW_DEBUG") != "" {
		for _, o := range R2.Violations() {
			fmt.Fprintln(os.Stderr, "NF-VIEW", o.Key(), "—", o.Detail)
		}
	}
	// both views report: the verdict and the positions are those of the tree as written
	return R, P
}

// NFCache builds the normal form at most once per loaded program.
type NFCache struct {
	p   *core.Program
	nf  *core.Program
	n   int
	log []string
}

func (c *NFCache) get(P *core.Program) (*core.Program, int, []string) {
	if c.p != P {
		c.p = P
		c.nf, c.n, c.log = NormalForm(P)
	}
	return c.nf, c.n, c.log
}
