// Package rules holds one checker per property; each inspects the loaded program and
// records obligations in the report.
package rules

import (
	"sort"

	"elyslint/core"
)

// Checker decides one property on the loaded program.
type Checker func(P *core.Program, R *core.Report)

var registry = map[string]Checker{}

func register(id string, c Checker) { registry[id] = c }

func Get(id string) Checker { return registry[id] }

func IDs() []string {
	var ids []string
	for k := range registry {
		ids = append(ids, k)
	}
	sort.Strings(ids)
	return ids
}
