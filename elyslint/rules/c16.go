package rules

import (
	"sort"
	"go/constant"
	"os"
	"fmt"
	"go/token"
	"go/types"
	"strings"

	"elyslint/core"

	"golang.org/x/tools/go/ssa"
)

func init() { register("C16", checkC16) }

// ---- R8 key-schema abstraction (DESIGN §2 R8 / D9) ------------------------------------

type keySeg struct {
	Kind string // const | var | fixed | lenprefixed
	Name string // constant text / parameter name / width
}

func (s keySeg) String() string { return s.Kind + "(" + s.Name + ")" }

// keySegments abstractly interprets a []byte-returning key builder.
func keySegments(P *core.Program, fn *ssa.Function, depth int) ([]keySeg, bool) {
	if fn == nil || depth > 4 {
		return nil, false
	}
	ff := P.Facts(fn)
	var eval func(v ssa.Value, d int) ([]keySeg, bool)
	eval = func(v ssa.Value, d int) ([]keySeg, bool) {
		if d > 20 {
			return nil, false
		}
		v = ff.Fwd(v)
		switch x := v.(type) {
		case *ssa.Const:
			if x.Value != nil {
				return []keySeg{{"const", strings.Trim(x.Value.ExactString(), "\"")}}, true
			}
			return nil, true
		case *ssa.Parameter:
			return []keySeg{{"var", x.Name()}}, true
		case *ssa.Convert:
			return eval(x.X, d+1)
		case *ssa.ChangeType:
			return eval(x.X, d+1)
		case *ssa.Slice:
			if els, ok := core.SliceLiteral(x); ok {
				var out []keySeg
				for range els {
					out = append(out, keySeg{"const", "byte"})
				}
				return out, true
			}
			return eval(x.X, d+1)
		case *ssa.UnOp:
			if g, ok := x.X.(*ssa.Global); ok && x.Op == token.MUL {
				return []keySeg{{"const", g.Name()}}, true
			}
		case *ssa.Call:
			cc := x.Common()
			if b, ok := cc.Value.(*ssa.Builtin); ok && b.Name() == "append" && len(cc.Args) == 2 {
				a, ok1 := eval(cc.Args[0], d+1)
				bseg, ok2 := eval(cc.Args[1], d+1)
				return append(a, bseg...), ok1 && ok2
			}
			name := core.CalleeName(cc)
			switch name {
			case "Uint64ToBigEndian":
				return []keySeg{{"fixed", "8"}}, true
			case "MustLengthPrefix":
				inner, ok := eval(cc.Args[0], d+1)
				n := "?"
				if ok && len(inner) == 1 {
					n = inner[0].Name
				}
				return []keySeg{{"lenprefixed", n}}, true
			case "KeyPrefix":
				return eval(cc.Args[0], d+1)
			}
			if sc := cc.StaticCallee(); sc != nil && core.InModule(sc) && sc.Blocks != nil {
				inner, ok := keySegments(P, sc, depth+1)
				if !ok {
					return nil, false
				}
				// substitute parameters
				var out []keySeg
				for _, s := range inner {
					if s.Kind != "var" {
						out = append(out, s)
						continue
					}
					sub := false
					for i, p := range sc.Params {
						if p.Name() == s.Name && i < len(cc.Args) {
							a, ok := eval(cc.Args[i], d+1)
							if !ok {
								return nil, false
							}
							out = append(out, a...)
							sub = true
						}
					}
					if !sub {
						out = append(out, s)
					}
				}
				return out, true
			}
		}
		return nil, false
	}
	var result []keySeg
	n := 0
	for _, b := range fn.Blocks {
		if len(b.Instrs) == 0 {
			continue
		}
		if ret, ok := b.Instrs[len(b.Instrs)-1].(*ssa.Return); ok && len(ret.Results) == 1 {
			segs, ok := eval(ret.Results[0], 0)
			if !ok {
				return nil, false
			}
			n++
			result = segs
		}
	}
	return result, n == 1
}

func segString(segs []keySeg) string {
	var s []string
	for _, x := range segs {
		s = append(s, x.String())
	}
	return strings.Join(s, " ++ ")
}

func checkC16(P *core.Program, R *core.Report) {
	defer checkOracleMsgFieldsApplied(P, R)
	defer checkMsgListsExhausted(P, R)
	defer checkFeederRemoval(P, R, "C16-feeder-removed")
	defer checkPriceStamped(P, R)
	R.Explanation = "Key schema (R8): the oracle price key builders are abstractly interpreted into segment sequences (Const / Var(param) / Fixed(8) / LenPrefixed); every (reverse) prefix scan in the oracle keeper whose prefix ends in an unterminated variable segment must filter — each `found` return inside the scan loop is dominated by equality between the decoded record's field and every variable argument of the prefix (the repair of F-16); SetPrice/GetPrice/RemovePrice share PriceKey whose last segment is the fixed-width big-endian timestamp, so reverse iteration yields the newest entry of one (asset, source). " +
		"Source preference: GetAssetPrice looks up ELYS, then BAND, then any source, each later lookup only under ¬found of the earlier. No info / no price ⇒ zero: GetAssetPriceFromDenom returns the zero constant on both ¬found edges and prices info.Display of that denom. " +
		"Expiry: EndBlock iterates GetAllPrice and reaches RemovePrice under Timestamp + PriceExpiryTime < block time and under BlockHeight + LifeTimeInBlocks < block height. " +
		"Writers: every consensus-reachable SetPrice is in a feeder-guarded handler (found ∧ IsActive for the signer, decided as in C17) or the Band IBC callback writing the BAND source constant; SetPriceFeeder/RemovePriceFeeder only in signer-guarded or governance handlers. 'Newest' as a runtime ordering across sources and IBC packet contents are not decided."
	// --- key builders
	builders := map[string]*ssa.Function{}
	for _, n := range []string{"PriceKeyPrefixAsset", "PriceKeyPrefixAssetAndSource", "PriceKey"} {
		builders[n] = P.Fn("x/oracle/types." + n)
	}
	segs := map[string][]keySeg{}
	for n, fn := range builders {
		s, ok := keySegments(P, fn, 0)
		segs[n] = s
		R.Add("C16-key-schema", "x/oracle/types."+n, "segments", posOf(P, fn), ok && len(s) > 0, "key builder abstraction: "+segString(s))
	}
	if pk := segs["PriceKey"]; len(pk) > 0 {
		last := pk[len(pk)-1]
		okTail := last.Kind == "fixed" && last.Name == "8" && len(pk) >= 2 && pk[len(pk)-2].Kind == "const" && pk[len(pk)-2].Name == "/"
		R.Add("C16-key-schema", "x/oracle/types.PriceKey", "…/ ++ Fixed(8) timestamp", posOf(P, builders["PriceKey"]), okTail, "the full key ends in a delimiter and the 8-byte big-endian timestamp (reverse iteration = newest first)")
		pfx := segs["PriceKeyPrefixAssetAndSource"]
		isPrefix := len(pfx) < len(pk)
		for i := range pfx {
			if i >= len(pk) || pfx[i] != pk[i] {
				isPrefix = false
			}
		}
		R.Add("C16-key-schema", "x/oracle/types.PriceKey", "extends PriceKeyPrefixAssetAndSource", posOf(P, builders["PriceKey"]), isPrefix, "readers' scan prefix and writers' key agree (K2)")
	}
	// --- scans
	nScan := 0
	for _, fn := range P.Funcs {
		if core.PkgRel(fn) != "x/oracle/keeper" || fn.Parent() != nil {
			continue
		}
		ff := P.Facts(fn)
		for _, c := range core.Calls(fn) {
			name := core.CalleeName(c.Common())
			if name != "KVStoreReversePrefixIterator" && name != "KVStorePrefixIterator" {
				continue
			}
			pfx, isCall := ff.Fwd(c.Common().Args[1]).(*ssa.Call)
			if !isCall || pfx.Common().StaticCallee() == nil {
				continue
			}
			bname := pfx.Common().StaticCallee().Name()
			bs, known := segs[bname]
			if !known {
				continue
			}
			nScan++
			key := P.Key(fn)
			if len(bs) == 0 {
				R.Add("C16-scan-filter", key, "scan "+bname, P.Pos(P.InstrPos(c)), false, "prefix builder could not be abstracted")
				continue
			}
			if bs[len(bs)-1].Kind != "var" {
				R.Add("C16-scan-filter", key, "scan "+bname, P.Pos(P.InstrPos(c)), true, "prefix ends on a terminated boundary: "+segString(bs))
				continue
			}
			// variable arguments of the prefix
			var vars []ssa.Value
			for _, a := range pfx.Common().Args {
				vars = append(vars, ff.Fwd(a))
			}
			bad := ""
			nFound := 0
			for _, ex := range ff.Exits() {
				ret, ok := ex.Instr.(*ssa.Return)
				if !ok || len(ret.Results) != 2 {
					continue
				}
				// every way `found` can be true at this return (a constant, or a merge of
				// per-path values): the facts of that way must contain the filter
				for _, vc := range ff.CasesOf(ret.Results[1], ret, 4) {
					k, isK := vc.Val.(*ssa.Const)
					if isK && (k.Value == nil || k.Value.String() != "true") {
						continue // found == false
					}
					facts := append(append([]*core.Atom{}, vc.Facts...), ff.At(ex.Instr)...)
					nFound++
					for _, v := range vars {
						p, isP := v.(*ssa.Parameter)
						if !isP {
							bad = "prefix argument is not a parameter"
							continue
						}
						want := strings.ToUpper(p.Name()[:1]) + p.Name()[1:]
						ok := false
						for _, a := range facts {
							if a.Rel != core.EQ || a.B == nil {
								continue
							}
							for _, pr := range [][2]ssa.Value{{a.A, a.B}, {a.B, a.A}} {
								if ff.Fwd(pr[1]) != v {
									continue
								}
								if _, isField := fieldLoad(ff, pr[0], want); isField {
									ok = true
								}
							}
						}
						if !ok {
							bad = fmt.Sprintf("found-return at %s is not filtered by record.%s == %s", P.Pos(P.InstrPos(ex.Instr)), want, p.Name())
						}
					}
				}
			}
			if nFound == 0 {
				bad = "no found-return in the scan (anchor changed)"
			}
			R.Add("C16-scan-filter", key, "scan "+bname, P.Pos(P.InstrPos(c)), bad == "",
				"prefix "+segString(bs)+" ends in an unterminated variable: every hit must be filtered on the decoded record. "+bad)
		}
	}
	if nScan == 0 {
		R.Add("C16-scan-filter", "x/oracle/keeper", "scans", "-", false, "no price scans found (anchor changed)")
	}
	// --- K2: Set/Get/Remove share PriceKey
	for _, n := range []string{"SetPrice", "GetPrice", "RemovePrice"} {
		key := "x/oracle/keeper.Keeper." + n
		fn := P.Fn(key)
		if fn == nil {
			R.Add("C16-key-schema", key, "function", "-", false, "unresolved anchor")
			continue
		}
		ff := P.Facts(fn)
		ok := false
		for _, c := range core.Calls(fn) {
			e := P.EffectOf(c)
			nm := core.CalleeName(c.Common())
			if e != core.EffStoreWrite && nm != "Get" {
				continue
			}
			idx := 0
			if !c.Common().IsInvoke() {
				idx = 1
			}
			if k, isC := ff.Fwd(c.Common().Args[idx]).(*ssa.Call); isC && k.Common().StaticCallee() == builders["PriceKey"] && builders["PriceKey"] != nil {
				ok = true
				if n == "SetPrice" {
					// key fields come from the stored record itself
					for i, f := range []string{"Asset", "Source", "Timestamp"} {
						if _, isF := fieldLoad(ff, k.Common().Args[i], f); !isF {
							ok = false
						}
					}
				}
			}
		}
		R.Add("C16-key-schema", key, "uses PriceKey", P.Pos(fn.Pos()), ok, "writer, point reader and remover address the same key (for SetPrice: built from the record's own Asset, Source, Timestamp)")
	}
	checkSourcePreference(P, R)
	checkNoPriceZero(P, R)
	checkExpiry(P, R)
	checkPriceWriters(P, R)
}

func posOf(P *core.Program, fn *ssa.Function) string {
	if fn == nil {
		return "-"
	}
	return P.Pos(fn.Pos())
}

// symbolOf names a string operand: the value of a constant, or the name of the package-level
// variable it is loaded from (oracle types.ELYS / types.BAND are vars).
func symbolOf(ff *core.FuncFacts, v ssa.Value) string {
	if s, ok := constString(ff, v); ok {
		return s
	}
	if u, ok := ff.Fwd(v).(*ssa.UnOp); ok && u.Op == token.MUL {
		if g, ok := u.X.(*ssa.Global); ok {
			return "global:" + g.Name()
		}
	}
	return "?"
}

func oracleConst(P *core.Program, name string) string {
	if pkg := P.PkgByRel["x/oracle/types"]; pkg != nil {
		if _, ok := pkg.Types.Scope().Lookup(name).(*types.Var); ok {
			return "global:" + name
		}
	}
	return oracleConst0(P, name)
}

func oracleConst0(P *core.Program, name string) string {
	if pkg := P.PkgByRel["x/oracle/types"]; pkg != nil {
		if c, ok := pkg.Types.Scope().Lookup(name).(*types.Const); ok {
			return strings.Trim(c.Val().ExactString(), "\"")
		}
	}
	return "?" + name
}

func checkSourcePreference(P *core.Program, R *core.Report) {
	const key = "x/oracle/keeper.Keeper.GetAssetPrice"
	fn := P.Fn(key)
	if fn == nil {
		R.Add("C16-preference", key, "function", "-", false, "unresolved anchor")
		return
	}
	ff := P.Facts(fn)
	var seq []ssa.CallInstruction
	var labels []string
	for _, c := range core.Calls(fn) {
		switch {
		case calleeMatches(P, c, "x/oracle/keeper.Keeper.GetLatestPriceFromAssetAndSource"):
			seq = append(seq, c)
			labels = append(labels, symbolOf(ff, c.Common().Args[len(c.Common().Args)-1]))
		case calleeMatches(P, c, "x/oracle/keeper.Keeper.GetLatestPriceFromAnySource"):
			seq = append(seq, c)
			labels = append(labels, "any")
		}
	}
	want := []string{oracleConst(P, "ELYS"), oracleConst(P, "BAND"), "any"}
	ok := false
	if len(labels) == 2 && labels[1] == "any" {
		// one lookup inside `for _, source := range <package-level list of constants>`
		labels, ok = loopPreference(P, ff, seq[0], seq[1], want)
	} else {
		ok = len(labels) == 3
		for i := range want {
			if i >= len(labels) || labels[i] != want[i] {
				ok = false
			}
		}
		// each later lookup only under ¬found of all earlier ones, and earlier dominates later
		for i := 1; i < len(seq) && ok; i++ {
			for j := 0; j < i; j++ {
				if !core.Dominates(seq[j], seq[i]) {
					ok = false
				}
				if !notFoundFact(ff, ff.At(seq[i]), seq[j]) {
					ok = false
				}
			}
		}
	}
	// asset argument is the function's asset parameter everywhere
	for _, c := range seq {
		a := c.Common().Args
		if ff.Fwd(a[2]) != ssa.Value(fn.Params[2]) {
			ok = false
		}
	}
	R.Add("C16-preference", key, "ELYS → BAND → any", P.Pos(fn.Pos()), ok, "lookups "+strings.Join(labels, " → ")+"; a later source is consulted only when the earlier one has no live price")
}

func checkNoPriceZero(P *core.Program, R *core.Report) {
	const key = "x/oracle/keeper.Keeper.GetAssetPriceFromDenom"
	fn := P.Fn(key)
	if fn == nil {
		R.Add("C16-no-price-zero", key, "function", "-", false, "unresolved anchor")
		return
	}
	ff := P.Facts(fn)
	bad := ""
	nZero, nPrice := 0, 0
	for _, ex := range ff.Exits() {
		ret, ok := ex.Instr.(*ssa.Return)
		if !ok || len(ret.Results) != 1 {
			continue
		}
		foundInfo, foundPrice := false, false
		for _, a := range ff.At(ex.Instr) {
			if a.Rel != core.TRUE {
				continue
			}
			for _, o := range ff.Origins(a.A) {
				if o.Kind == "call" && strings.HasSuffix(o.Name, "Keeper.GetAssetInfo") && o.Path == "#1" {
					foundInfo = true
				}
				if o.Kind == "call" && strings.HasSuffix(o.Name, "Keeper.GetAssetPrice") && o.Path == "#1" {
					foundPrice = true
				}
			}
		}
		if ff.LinOf(ret.Results[0]).IsZero() {
			nZero++
			continue
		}
		nPrice++
		if !foundInfo || !foundPrice {
			bad = "a non-zero price is returned without asset info found ∧ price found at " + P.Pos(P.InstrPos(ex.Instr))
		}
	}
	// the asset priced is info.Display of the denom's own info
	disp := false
	for _, c := range core.Calls(fn) {
		if calleeMatches(P, c, "x/oracle/keeper.Keeper.GetAssetPrice") {
			a := c.Common().Args
			disp = ff.AllOrigins(a[len(a)-1], nil, func(o core.Origin) bool {
				if !(o.Kind == "call" && strings.HasSuffix(o.Name, "Keeper.GetAssetInfo") && o.Path == "#0.Display") {
					return false
				}
				call, _ := o.Val.(*ssa.Call)
				return call != nil && ff.Fwd(call.Common().Args[len(call.Common().Args)-1]) == ssa.Value(fn.Params[2])
			})
		}
	}
	R.Add("C16-no-price-zero", key, "¬info ∨ ¬price ⇒ zero", P.Pos(fn.Pos()), bad == "" && nZero >= 2 && nPrice >= 1 && disp,
		"a denom without asset info or without a live price yields zero; otherwise the price of its own info.Display. "+bad)
}

func checkExpiry(P *core.Program, R *core.Report) {
	const key = "x/oracle/keeper.Keeper.EndBlock"
	fn := P.Fn(key)
	if fn == nil {
		R.Add("C16-expiry", key, "function", "-", false, "unresolved anchor")
		return
	}
	ff := P.Facts(fn)
	// iteration over GetAllPrice
	iter := false
	for _, c := range core.Calls(fn) {
		if calleeMatches(P, c, "x/oracle/keeper.Keeper.GetAllPrice") {
			iter = true
		}
	}
	nowIs := func(v ssa.Value, method string) bool {
		for _, o := range ff.OriginsT(v, func(c *ssa.Call) []ssa.Value {
			if core.CalleeName(c.Common()) == "Unix" {
				return c.Common().Args
			}
			return nil
		}) {
			if o.Kind == "call" && strings.HasSuffix(o.Name, "types.Context."+method) {
				return true
			}
		}
		return false
	}
	role := func(_ string, v ssa.Value) (string, bool) {
		if v == nil {
			return "", false
		}
		for _, f := range [][2]string{{"Timestamp", "TS"}, {"PriceExpiryTime", "EXP"}, {"BlockHeight", "BH"}, {"LifeTimeInBlocks", "LIFE"}} {
			if _, is := fieldLoad(ff, v, f[0]); is {
				return f[1], true
			}
		}
		switch {
		case nowIs(v, "BlockTime"):
			return "NOW", true
		case nowIs(v, "BlockHeight"):
			return "HEIGHT", true
		}
		return "", false
	}
	// Expired ⇒ removed, decided on paths: every way through one sweep iteration that does NOT
	// call RemovePrice must carry both ¬(Timestamp + PriceExpiryTime < now) and
	// ¬(BlockHeight + LifeTimeInBlocks < height) — however the two tests are combined.
	isRemove := func(in ssa.Instruction) bool {
		c, ok := in.(ssa.CallInstruction)
		return ok && calleeMatches(P, c, "x/oracle/keeper.Keeper.RemovePrice")
	}
	var removeBlocks []*ssa.BasicBlock
	for _, c := range core.Calls(fn) {
		if isRemove(c) {
			removeBlocks = append(removeBlocks, c.Block())
		}
	}
	byTime, byHeight := len(removeBlocks) > 0, len(removeBlocks) > 0
	detail := ""
	nLatch := 0
	wantT, wantH := core.ParsePoly("TS + EXP - NOW"), core.ParsePoly("BH + LIFE - HEIGHT")
	for _, b := range fn.Blocks {
		for _, sblk := range b.Succs {
			if !sblk.Dominates(b) {
				continue // not a back edge
			}
			inLoop := false
			for _, rb := range removeBlocks {
				if sblk.Dominates(rb) {
					inLoop = true
				}
			}
			if !inLoop || len(b.Instrs) == 0 {
				continue
			}
			nLatch++
			paths, ok := ff.PathsTo(b.Instrs[len(b.Instrs)-1])
			if !ok {
				byTime, byHeight = false, false
				detail = "too many paths"
				continue
			}
			for _, p := range paths {
				removed := false
				for _, pb := range p.Blocks {
					for _, in := range pb.Instrs {
						if isRemove(in) {
							removed = true
						}
					}
				}
				if removed {
					continue
				}
				t, h := false, false
				// the back edge itself may be one arm of the last test
				atoms := append(append([]*core.Atom{}, p.Atoms...), ff.EdgeFacts(b, sblk)...)
				for _, a := range atoms {
					if (a.Rel != core.LE && a.Rel != core.LT) || a.A == nil || a.B == nil || a.A == core.ZeroMarker || a.B == core.ZeroMarker || a.B == core.NilMarker {
						continue
					}
					if _, basic := a.A.Type().Underlying().(*types.Basic); !basic {
						continue
					}
					d, okR := ff.PolyOf(a.B).Sub(ff.PolyOf(a.A)).Rename(role)
					if !okR {
						continue
					}
					if d.Equal(wantT) {
						t = true
					}
					if d.Equal(wantH) {
						h = true
					}
				}
				if os.Getenv("ELYSLINT_POLY_DEBUG") != "" && (!t || !h) {
					fmt.Fprintf(os.Stderr, "c16 path t=%v h=%v blocks=%d\n", t, h, len(p.Blocks))
					for _, a := range p.Atoms {
						fmt.Fprintf(os.Stderr, "     %s\n", ff.AtomString(a))
					}
				}
				if !t {
					byTime = false
					detail = "a sweep iteration can finish without RemovePrice and without now ≤ Timestamp + PriceExpiryTime"
				}
				if !h {
					byHeight = false
					detail = "a sweep iteration can finish without RemovePrice and without height ≤ BlockHeight + LifeTimeInBlocks"
				}
			}
		}
	}
	if nLatch == 0 {
		byTime, byHeight = false, false
		detail = "no sweep loop around RemovePrice found (anchor changed)"
	}
	// what is removed is the swept record itself: RemovePrice(asset, source, timestamp) gets
	// the Asset, Source and Timestamp fields of one and the same record (the key schema)
	for _, c := range core.Calls(fn) {
		if !isRemove(c) {
			continue
		}
		a := c.Common().Args
		want := []string{".Asset", ".Source", ".Timestamp"}
		okKey := len(a) >= 3
		var root ssa.Value
		for i := 0; okKey && i < 3; i++ {
			os := ff.Origins(a[len(a)-3+i])
			if len(os) != 1 || !strings.HasSuffix(os[0].Path, want[i]) {
				okKey = false
				break
			}
			if root == nil {
				root = os[0].Val
			} else if root != os[0].Val {
				okKey = false
			}
		}
		R.Add("C16-expiry", key, "RemovePrice(record.Asset, record.Source, record.Timestamp)", P.Pos(P.InstrPos(c)), okKey,
			"the key that is deleted is built from the swept record's own asset, source and timestamp")
	}
	R.Add("C16-expiry", key, "sweep over all prices", P.Pos(fn.Pos()), iter, "EndBlock visits every stored price")
	R.Add("C16-expiry", key, "Timestamp + PriceExpiryTime < now ⇒ remove", P.Pos(fn.Pos()), byTime, "time-based expiry removes the price. "+detail)
	R.Add("C16-expiry", key, "BlockHeight + LifeTimeInBlocks < height ⇒ remove", P.Pos(fn.Pos()), byHeight, "block-lifetime expiry removes the price. "+detail)
}

func checkPriceWriters(P *core.Program, R *core.Report) {
	subjects := P.Reach(P.FindRoots().Consensus())
	var table map[string]c17Class
	if err := loadTable("c17_classes.json", &table); err != nil {
		R.Undecided("C16-writers", "-", "tables/c17_classes.json", "-", err.Error())
		return
	}
	roots := msgRoots(P, R)
	byKey := map[string]*msgRoot{}
	for _, r := range roots {
		byKey[r.Key] = r
	}
	for _, target := range []string{"x/oracle/keeper.Keeper.SetPrice", "x/oracle/keeper.Keeper.SetPriceFeeder", "x/oracle/keeper.Keeper.RemovePriceFeeder"} {
		tf := P.Fn(target)
		if tf == nil {
			R.Add("C16-writers", target, "function", "-", false, "unresolved anchor")
			continue
		}
		for _, e := range P.CG().In[tf] {
			ck := P.Key(e.Caller)
			if !subjects[e.Caller] || strings.HasSuffix(ck, ".InitGenesis") {
				continue
			}
			pos := P.Pos(P.InstrPos(e.Site))
			construct := "call " + target
			mr, isRoot := byKey[ck]
			switch {
			case isRoot && hasField(mr.ReqType, "Authority"):
				R.Add("C16-writers", ck, construct, pos, true, "governance handler (authority guard decided by C17)")
			case isRoot && table[ck].Class == "GUARDED":
				// re-evaluate the feeder guard at this very site
				ff := P.Facts(e.Caller)
				ok := true
				for _, g := range table[ck].Guards {
					found := false
					for _, a := range ff.At(e.Site) {
						if a.Rel != core.TRUE {
							continue
						}
						os := ff.Origins(a.A)
						if len(os) == 1 && os[0].Kind == "call" && os[0].Path == g.Path {
							if call, _ := os[0].Val.(*ssa.Call); call != nil && calleeMatches(P, call, g.Call) {
								found = true
							}
						}
					}
					if !found {
						ok = false
					}
				}
				R.Add("C16-writers", ck, construct, pos, ok, "feeder-guarded handler: the write is dominated by the frozen feeder guards for the signer")
			case ck == "x/oracle.IBCModule.handleOraclePacket" || strings.HasPrefix(ck, "x/oracle.IBCModule."):
				// Band callback: source constant BAND
				ff := P.Facts(e.Caller)
				okSrc := false
				if target == "x/oracle/keeper.Keeper.SetPrice" {
					c := e.Site.(ssa.CallInstruction)
					rec := c.Common().Args[len(c.Common().Args)-1]
					for _, o := range ff.Origins(rec) {
						_ = o
					}
					okSrc = recordFieldConst(ff, rec, "Source", oracleConst(P, "BAND"))
				}
				R.Add("C16-writers", ck, construct, pos, okSrc, "the Band IBC callback may only write prices of source BAND")
			default:
				R.Add("C16-writers", ck, construct, pos, false, "price / feeder record written outside the feeder-guarded handlers, governance handlers and the Band callback")
			}
		}
	}
}

// recordFieldConst: the struct value (composite literal) has field `name` stored from the
// string constant want.
func recordFieldConst(ff *core.FuncFacts, rec ssa.Value, name, want string) bool {
	rec = ff.Fwd(rec)
	ld, ok := rec.(*ssa.UnOp)
	if !ok {
		return false
	}
	al, ok := ld.X.(*ssa.Alloc)
	if !ok || al.Referrers() == nil {
		return false
	}
	for _, r := range *al.Referrers() {
		fa, ok := r.(*ssa.FieldAddr)
		if !ok || core.FieldName(fa.X.Type(), fa.Field) != name || fa.Referrers() == nil {
			continue
		}
		for _, rr := range *fa.Referrers() {
			if st, ok := rr.(*ssa.Store); ok && st.Addr == fa {
				if symbolOf(ff, st.Val) == want {
					return true
				}
			}
		}
	}
	return false
}

// notFoundFact: the atoms contain ¬found for the boolean result of the lookup call.
func notFoundFact(ff *core.FuncFacts, atoms []*core.Atom, lookup ssa.CallInstruction) bool {
	for _, a := range atoms {
		if a.Rel == core.FALSE {
			for _, o := range ff.Origins(a.A) {
				if o.Val == lookup.Value() && o.Path == "#1" {
					return true
				}
			}
		}
	}
	return false
}

// loopPreference decides the looped form of the source preference: the per-source lookup
// sits in a range loop over a package-level list of constants (consulted in list order),
// the loop goes on to the next source only under ¬found, it is left early only by
// returning, and the any-source lookup comes after the loop.
func loopPreference(P *core.Program, ff *core.FuncFacts, lookup, anyCall ssa.CallInstruction, want []string) ([]string, bool) {
	args := lookup.Common().Args
	srcs, ok := constStringSymbols(ff, args[len(args)-1])
	if os.Getenv("ELYSLINT_POLY_DEBUG") != "" {
		fmt.Fprintf(os.Stderr, "c16 pref: arg=%T %v srcs=%v ok=%v\n", ff.Fwd(args[len(args)-1]), ff.Fwd(args[len(args)-1]), srcs, ok)
	}
	labels := append(append([]string{}, srcs...), "any")
	if !ok || len(labels) != len(want) {
		return labels, false
	}
	for i := range want {
		if labels[i] != want[i] {
			return labels, false
		}
	}
	// the loop: header = a block that dominates the lookup and is the target of a back edge
	// from a block the lookup reaches
	var header *ssa.BasicBlock
	for _, b := range ff.Fn.Blocks {
		for _, sb := range b.Succs {
			if sb.Dominates(b) && sb.Dominates(lookup.Block()) {
				if header == nil || header.Dominates(sb) {
					header = sb
				}
				// continuing with the next source requires ¬found
				atoms := append(append([]*core.Atom{}, ff.OutFacts(b)...), ff.EdgeFacts(b, sb)...)
				if !notFoundFact(ff, atoms, lookup) {
					return labels, false
				}
			}
		}
	}
	if header == nil || header.Dominates(anyCall.Block()) == false {
		return labels, false
	}
	// the any-source lookup is outside the loop and reached from inside it only through the
	// header's exhaustion exit: no block of the loop body other than the header reaches it
	// without passing the header
	inLoop := func(b *ssa.BasicBlock) bool {
		if !header.Dominates(b) {
			return false
		}
		_, back := core.ReachesWithout(ff.Fn, b.Instrs[0], func(in ssa.Instruction) bool { return in.Block() == header }, nil)
		return back || b == header
	}
	if inLoop(anyCall.Block()) {
		return labels, false
	}
	_, leak := core.ReachesWithout(ff.Fn, lookup, func(in ssa.Instruction) bool { return in == ssa.Instruction(anyCall) },
		func(in ssa.Instruction) bool { return in.Block() == header })
	if leak {
		return labels, false
	}
	return labels, true
}

// constStringSymbols: like constStrings but names each element the way symbolOf does
// (package-level variables by name), in list order.
func constStringSymbols(ff *core.FuncFacts, v ssa.Value) ([]string, bool) {
	// range over a package-level *array*: the array is copied and indexed by value
	if ix, ok := ff.Fwd(v).(*ssa.Index); ok {
		if bo, ok := ff.Fwd(ix.Index).(*ssa.BinOp); !ok || bo.Op != token.ADD {
			return nil, false
		}
		ld, ok := ff.Fwd(ix.X).(*ssa.UnOp)
		if !ok || ld.Op != token.MUL {
			return nil, false
		}
		g, ok := ld.X.(*ssa.Global)
		if !ok {
			return nil, false
		}
		iv := ff.GlobalInit(g)
		if os.Getenv("ELYSLINT_POLY_DEBUG") != "" {
			fmt.Fprintf(os.Stderr, "c16 pref: global %s init=%v\n", g.Name(), iv)
		}
		if iv == nil {
			// element-wise initialisation straight into the global
			if els, initFn := globalArrayElems(g); els != nil {
				iff := ff.P.Facts(initFn)
				var out []string
				for _, e := range els {
					out = append(out, symbolOf(iff, e))
				}
				return out, true
			}
		}
		if iv == nil || iv.Parent() == nil {
			return nil, false
		}
		al, ok := iv.(*ssa.UnOp)
		if !ok {
			return nil, false
		}
		arr, ok := al.X.(*ssa.Alloc)
		if !ok || arr.Referrers() == nil {
			return nil, false
		}
		iff := ff.P.Facts(iv.Parent())
		byIdx := map[int64]ssa.Value{}
		for _, r := range *arr.Referrers() {
			ia, ok := r.(*ssa.IndexAddr)
			if !ok || ia.Referrers() == nil {
				continue
			}
			c, ok := ia.Index.(*ssa.Const)
			if !ok {
				return nil, false
			}
			i, _ := constant.Int64Val(c.Value)
			for _, rr := range *ia.Referrers() {
				if st, ok := rr.(*ssa.Store); ok && st.Addr == ssa.Value(ia) {
					byIdx[i] = st.Val
				}
			}
		}
		var out []string
		for i := int64(0); i < int64(len(byIdx)); i++ {
			e, ok := byIdx[i]
			if !ok {
				return nil, false
			}
			out = append(out, symbolOf(iff, e))
		}
		return out, len(out) > 0
	}
	u, ok := ff.Fwd(v).(*ssa.UnOp)
	if !ok || u.Op != token.MUL {
		return nil, false
	}
	ia, ok := u.X.(*ssa.IndexAddr)
	if !ok {
		return nil, false
	}
	// the index must be a range index (φ stepping by one from −1): every element in order
	ph, ok := ff.Fwd(ia.Index).(*ssa.BinOp)
	if !ok || ph.Op != token.ADD {
		return nil, false
	}
	var out []string
	if g, isArr := ia.X.(*ssa.Global); isArr {
		// a package-level array: its elements are stored one by one in the init function
		els, initFn := globalArrayElems(g)
		if els == nil {
			return nil, false
		}
		iff := ff.P.Facts(initFn)
		for _, e := range els {
			out = append(out, symbolOf(iff, e))
		}
		return out, len(out) > 0
	}
	ld, ok := ff.Fwd(ia.X).(*ssa.UnOp)
	if !ok || ld.Op != token.MUL {
		return nil, false
	}
	g, ok := ld.X.(*ssa.Global)
	if !ok {
		return nil, false
	}
	iv := ff.GlobalInit(g)
	if iv == nil || iv.Parent() == nil {
		return nil, false
	}
	iff := ff.P.Facts(iv.Parent())
	els, ok := core.SliceLiteral(iff.Fwd(iv))
	if !ok {
		return nil, false
	}
	for _, e := range els {
		out = append(out, symbolOf(iff, e))
	}
	return out, len(out) > 0
}

// checkOracleMsgFieldsApplied: a handler that ignores a field of its message silently keeps
// the old state for it (SetPriceFeeder that never reads IsActive cannot deactivate a feeder).
// For every oracle Msg handler each field of the message must be read — in the handler, or
// the message is handed on whole to a callee.  Fields named in the table are not state.
func checkOracleMsgFieldsApplied(P *core.Program, R *core.Report) {
	n := 0
	for _, r := range msgRoots(P, R) {
		if !strings.HasPrefix(r.Key, "x/oracle/keeper.") {
			continue
		}
		fn := r.Fn
		if fn == nil || r.Msg == nil {
			continue
		}
		msg := r.Msg
		pt, ok := msg.Type().Underlying().(*types.Pointer)
		if !ok {
			continue
		}
		st, ok := pt.Elem().Underlying().(*types.Struct)
		if !ok {
			continue
		}
		read := map[string]bool{}
		whole := false
		var visit func(v ssa.Value, depth int)
		seen := map[ssa.Value]bool{}
		visit = func(v ssa.Value, depth int) {
			if seen[v] || depth > 6 || v.Referrers() == nil {
				return
			}
			seen[v] = true
			for _, ref := range *v.Referrers() {
				switch x := ref.(type) {
				case *ssa.FieldAddr:
					read[core.FieldName(x.X.Type(), x.Field)] = true
				case *ssa.Field:
					read[core.FieldName(x.X.Type(), x.Field)] = true
				case *ssa.UnOp:
					visit(x, depth+1) // *msg copied to a value
				case *ssa.Store:
					if x.Val == v {
						if a, ok := x.Addr.(*ssa.Alloc); ok {
							visit(a, depth+1)
						} else {
							whole = true
						}
					}
				case *ssa.Phi, *ssa.MakeInterface, *ssa.ChangeType:
					visit(x.(ssa.Value), depth+1)
				case ssa.CallInstruction:
					if f, ok := P.PBGetterField(x.Common()); ok {
						read[f] = true
					} else if len(x.Common().Args) > 0 && x.Common().Args[0] == v && x.Common().StaticCallee() != nil && x.Common().StaticCallee().Name() == "ValidateBasic" {
						// validation reads fields but applies nothing
					} else {
						whole = true // handed on: the callee may read anything
					}
				}
			}
		}
		visit(msg, 0)
		for i := 0; i < st.NumFields(); i++ {
			f := st.Field(i).Name()
			if !st.Field(i).Exported() || strings.HasPrefix(f, "XXX_") || f == r.Signer {
				continue // whether and how the signer is used is decided by C17
			}
			n++
			R.Add("C16-msg-field", r.Key, "reads msg."+f, P.Pos(fn.Pos()), whole || read[f],
				"every field of the message is read by its handler (an ignored field means the handler cannot change what the field describes)")
		}
	}
	if n == 0 {
		R.Add("C16-msg-field", "x/oracle/keeper", "handlers", "-", false, "no oracle message handler found (anchor changed)")
	}
}

// globalArrayElems: the values stored into g[0], g[1], … by the package init function, when
// every element store is there and nowhere else.
func globalArrayElems(g *ssa.Global) ([]ssa.Value, *ssa.Function) {
	if g.Pkg == nil {
		return nil, nil
	}
	byIdx := map[int64]ssa.Value{}
	var initFn *ssa.Function
	for _, m := range g.Pkg.Members {
		fn, ok := m.(*ssa.Function)
		if !ok {
			continue
		}
		for _, b := range fn.Blocks {
			for _, in := range b.Instrs {
				st, ok := in.(*ssa.Store)
				if !ok {
					continue
				}
				ia, ok := st.Addr.(*ssa.IndexAddr)
				if !ok || ia.X != ssa.Value(g) {
					continue
				}
				c, ok := ia.Index.(*ssa.Const)
				if !ok || fn.Name() != "init" {
					return nil, nil
				}
				i, _ := constant.Int64Val(c.Value)
				byIdx[i] = st.Val
				initFn = fn
			}
		}
	}
	var out []ssa.Value
	for i := int64(0); i < int64(len(byIdx)); i++ {
		v, ok := byIdx[i]
		if !ok {
			return nil, nil
		}
		out = append(out, v)
	}
	if len(out) == 0 {
		return nil, nil
	}
	return out, initFn
}

// checkMsgListsExhausted (C16-list-exhausted): a message that carries a LIST (feeders to
// add or remove, prices to feed) is applied to every element or fails as a whole.  For every
// oracle message handler and every loop that ranges over a field of the message: no success
// exit of the handler is reachable from inside the loop body other than through the loop
// header (no `break`, no early `return nil`).  A feeder left registered because the loop
// stopped at an unknown address keeps the right to overwrite prices.
func checkMsgListsExhausted(P *core.Program, R *core.Report) {
	const rule = "C16-list-exhausted"
	n := 0
	for _, r := range msgRoots(P, R) {
		if !strings.HasPrefix(r.Key, "x/oracle/keeper.") || r.Fn == nil || r.Msg == nil {
			continue
		}
		ff := P.Facts(r.Fn)
		msgName := r.Msg.Name()
		n += checkLoopsExhausted(P, R, rule, r.Key, r.Fn, "loop over a list of the message", "every element is applied or the message fails. ", func(lx ssa.Value) bool {
			for _, o := range ff.Origins(lx) {
				if o.Kind == "param" && o.Name == msgName && o.Path != "" {
					return true
				}
			}
			return false
		})
	}
	if n < 3 {
		R.Add(rule, "-", "message list loops", "-", false, fmt.Sprintf("only %d loops over message lists found in the oracle handlers (anchor changed)", n))
	}
	// the end-of-block sweep visits EVERY stored price: the store is ordered by asset and source
	// first, so leaving the loop at the first live entry keeps the dead prices of every later
	// asset (a feed that stopped is served for ever)
	const sweep = "x/oracle/keeper.Keeper.EndBlock"
	if fn := P.Fn(sweep); fn != nil {
		ff := P.Facts(fn)
		m := checkLoopsExhausted(P, R, "C16-expiry", sweep, fn, "sweep visits every stored price", "the expiry sweep is left only when the price list is exhausted. ", func(lx ssa.Value) bool {
			for _, o := range ff.Origins(lx) {
				if o.Kind == "call" && strings.HasSuffix(o.Name, "Keeper.GetAllPrice") {
					return true
				}
			}
			return false
		})
		if m == 0 {
			R.Add("C16-expiry", sweep, "sweep visits every stored price", P.Pos(fn.Pos()), false, "no loop over GetAllPrice found (anchor changed)")
		}
	}
}

// checkLoopsExhausted: for every range loop of fn whose ranged-over value satisfies over, no
// success exit is reachable from inside the loop body other than through the loop header.
// Returns the number of such loops.
func checkLoopsExhausted(P *core.Program, R *core.Report, rule, key string, fn *ssa.Function, construct, detail string, over func(lx ssa.Value) bool) int {
	ff := P.Facts(fn)
	n := 0
	for _, h := range fn.Blocks {
		// a range loop header: it holds the index φ and its condition is index < len(x)
		if len(h.Instrs) == 0 || len(h.Succs) != 2 {
			continue
		}
		iff, ok := h.Instrs[len(h.Instrs)-1].(*ssa.If)
		if !ok {
			continue
		}
		bo, ok := iff.Cond.(*ssa.BinOp)
		if !ok || bo.Op != token.LSS {
			continue
		}
		lx, isLen := lenOf(ff, bo.Y)
		if !isLen || !over(lx) {
			continue
		}
		// the loop: blocks dominated by h from which h is reachable
		inLoop := map[*ssa.BasicBlock]bool{h: true}
		for _, b := range fn.Blocks {
			if b != h && h.Dominates(b) && blockReaches(b, h) {
				inLoop[b] = true
			}
		}
		n++
		bad := ""
		for _, b := range fn.Blocks {
			if !inLoop[b] || b == h {
				continue
			}
			if len(b.Succs) == 0 {
				// a return inside the body
				if ret, ok := b.Instrs[len(b.Instrs)-1].(*ssa.Return); ok {
					for _, ex := range ff.Exits() {
						if ex.Instr == ssa.Instruction(ret) && ex.Kind != core.ExitError {
							bad = "a success return inside the loop body at " + P.Pos(P.InstrPos(ret))
						}
					}
				}
			}
			for _, s := range b.Succs {
				if inLoop[s] {
					continue
				}
				// left the loop from the body: may a success exit follow?
				if len(s.Instrs) == 0 {
					continue
				}
				if _, reach := ff.SuccessExitReachableWithout(s.Instrs[0], func(in ssa.Instruction) bool { return in.Block() == h }); reach {
					bad = "the loop is left from its body (break) at " + P.Pos(P.InstrPos(b.Instrs[len(b.Instrs)-1])) + " and the function still succeeds"
				} else if ret, ok := s.Instrs[len(s.Instrs)-1].(*ssa.Return); ok && len(s.Instrs) == 1 {
					for _, ex := range ff.Exits() {
						if ex.Instr == ssa.Instruction(ret) && ex.Kind != core.ExitError {
							bad = "the loop is left from its body to a success return at " + P.Pos(P.InstrPos(ret))
						}
					}
				}
			}
		}
		R.Add(rule, key, construct, P.Pos(P.InstrPos(iff)), bad == "", detail+bad)
	}
	return n
}

func blockReaches(from, to *ssa.BasicBlock) bool {
	seen := map[*ssa.BasicBlock]bool{}
	var q []*ssa.BasicBlock
	q = append(q, from.Succs...)
	for len(q) > 0 {
		b := q[0]
		q = q[1:]
		if b == to {
			return true
		}
		if seen[b] {
			continue
		}
		seen[b] = true
		q = append(q, b.Succs...)
	}
	return false
}

// checkPriceStamped (C16-price-stamped): expiry is decided from the stamps a price carries
// (EndBlock removes it when Timestamp + LifeTimeInSeconds or BlockHeight + LifeTimeInBlocks
// is behind), so every Price record built by consensus code must carry both, taken from the
// block being processed.  A literal without BlockHeight is born at height 0 and is swept at
// the end of the very block that wrote it: lookups then serve an older price from a
// non-preferred source.
func checkPriceStamped(P *core.Program, R *core.Report) {
	const rule = "C16-price-stamped"
	subjects := P.Reach(P.FindRoots().Consensus())
	var fns []*ssa.Function
	for fn := range subjects {
		if fn.Blocks != nil && !core.IsGeneratedOrAux(P.File(fn.Pos())) {
			fns = append(fns, fn)
		}
	}
	// the IBC packet handler is wired by the SDK's router, not by a Msg service: include the module's own code
	for _, fn := range P.Funcs {
		if fn.Blocks != nil && !subjects[fn] && strings.HasPrefix(P.Key(fn), "x/oracle.") && !core.IsGeneratedOrAux(P.File(fn.Pos())) && !strings.HasSuffix(P.File(fn.Pos()), "_test.go") {
			fns = append(fns, fn)
		}
	}
	sort.Slice(fns, func(i, j int) bool { return P.Key(fns[i]) < P.Key(fns[j]) })
	n := 0
	for _, fn := range fns {
		var ff *core.FuncFacts
		for _, b := range fn.Blocks {
			for _, in := range b.Instrs {
				al, ok := in.(*ssa.Alloc)
				if !ok {
					continue
				}
				pt, ok := al.Type().Underlying().(*types.Pointer)
				if !ok || !strings.HasSuffix(pt.Elem().String(), "x/oracle/types.Price") {
					continue
				}
				if ff == nil {
					ff = P.Facts(fn)
				}
				set := map[string]ssa.Value{}
				if al.Referrers() != nil {
					for _, r := range *al.Referrers() {
						if fa, ok := r.(*ssa.FieldAddr); ok && fa.Referrers() != nil {
							for _, rr := range *fa.Referrers() {
								if s, ok := rr.(*ssa.Store); ok && s.Addr == ssa.Value(fa) {
									set[core.FieldName(fa.X.Type(), fa.Field)] = s.Val
								}
							}
						}
					}
				}
				if len(set) < 3 {
					continue // an empty literal (zero value for "not found") or a loaded record being edited
				}
				n++
				from := func(field, callee string) bool {
					v, ok := set[field]
					if !ok {
						return false
					}
					for _, o := range ff.Origins(v) {
						if o.Kind == "call" && strings.HasSuffix(o.Name, callee) {
							return true
						}
					}
					return false
				}
				okH, okT := from("BlockHeight", "BlockHeight"), from("Timestamp", "BlockTime") || from("Timestamp", "Unix")
				R.Add(rule, P.Key(fn), "Price literal", P.Pos(P.InstrPos(al)), okH && okT,
					fmt.Sprintf("a price written by consensus code carries the height and time of the block that writes it (BlockHeight stamped: %v, Timestamp stamped: %v)", okH, okT))
			}
		}
	}
	if n < 2 {
		R.Add(rule, "-", "Price literals", "-", false, fmt.Sprintf("only %d price literals found in consensus code (anchor changed)", n))
	}
}

// checkFeederRemoval (C16-feeder-removed): the self-service message MsgSetPriceFeeder lets a
// *registered* feeder switch its own record on and off, so taking the right to feed away
// means deleting the record.  The governance removal handler therefore passes, for every
// listed address (every iteration of its loop), a call of Keeper.RemovePriceFeeder, whose
// body deletes the store entry under the key of its argument.  A "retire, keep the record"
// variant leaves an account that can re-activate itself and overwrite prices again.
func checkFeederRemoval(P *core.Program, R *core.Report, rule string) {
	const hk = "x/oracle/keeper.msgServer.RemovePriceFeeders"
	const rk = "x/oracle/keeper.Keeper.RemovePriceFeeder"
	h, rm := P.Fn(hk), P.Fn(rk)
	if h == nil || rm == nil {
		R.Add(rule, hk, "function", "-", false, "unresolved anchor")
		return
	}
	// the remover deletes
	deletes := false
	for _, c := range core.Calls(rm) {
		if P.EffectOf(c) == core.EffStoreWrite && core.CalleeName(c.Common()) == "Delete" {
			deletes = true
		}
	}
	R.Add(rule, rk, "deletes the feeder record", P.Pos(rm.Pos()), deletes, "removing a feeder deletes its store entry (a deactivated record can be switched back on by its owner)")
	ff := P.Facts(h)
	isRm := func(in ssa.Instruction) bool {
		c, ok := in.(ssa.CallInstruction)
		return ok && calleeMatches(P, c, rk)
	}
	n := 0
	for _, hd := range h.Blocks {
		if len(hd.Instrs) == 0 || len(hd.Succs) != 2 {
			continue
		}
		iff, ok := hd.Instrs[len(hd.Instrs)-1].(*ssa.If)
		if !ok {
			continue
		}
		bo, ok := iff.Cond.(*ssa.BinOp)
		if !ok || bo.Op != token.LSS {
			continue
		}
		if _, isLen := lenOf(ff, bo.Y); !isLen {
			continue
		}
		body := hd.Succs[0]
		if len(body.Instrs) == 0 {
			continue
		}
		n++
		skips := false
		if isRm(body.Instrs[0]) {
			skips = false
		} else if _, reach := core.ReachesWithout(h, body.Instrs[0], func(in ssa.Instruction) bool { return in.Block() == hd }, isRm); reach {
			skips = true
		}
		R.Add(rule, hk, "every listed feeder is deleted", P.Pos(P.InstrPos(iff)), !skips, "each iteration over the listed addresses passes Keeper.RemovePriceFeeder")
	}
	if n == 0 {
		R.Add(rule, hk, "loop over the listed feeders", P.Pos(h.Pos()), false, "no loop found (anchor changed)")
	}
}
