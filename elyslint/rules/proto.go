package rules

import (
	"os"
	"path/filepath"
	"regexp"
	"strings"
)

// protoSigners reads `option (cosmos.msg.v1.signer) = "<field>"` for every message in
// proto/elys/<module>/tx.proto. Result: module → Go message type name → Go field name.
func protoSigners(repo string) (map[string]map[string]string, error) {
	out := map[string]map[string]string{}
	files, err := filepath.Glob(filepath.Join(repo, "proto", "elys", "*", "tx.proto"))
	if err != nil {
		return nil, err
	}
	msgRe := regexp.MustCompile(`^\s*message\s+(\w+)\s*\{`)
	sigRe := regexp.MustCompile(`option\s*\(\s*cosmos\.msg\.v1\.signer\s*\)\s*=\s*"(\w+)"`)
	for _, f := range files {
		mod := filepath.Base(filepath.Dir(f))
		b, err := os.ReadFile(f)
		if err != nil {
			return nil, err
		}
		out[mod] = map[string]string{}
		cur := ""
		for _, line := range strings.Split(string(b), "\n") {
			if m := msgRe.FindStringSubmatch(line); m != nil {
				cur = m[1]
			}
			if m := sigRe.FindStringSubmatch(line); m != nil && cur != "" {
				out[mod][cur] = camel(m[1])
			}
		}
	}
	return out, nil
}

func camel(s string) string {
	parts := strings.Split(s, "_")
	for i, p := range parts {
		if p == "" {
			continue
		}
		parts[i] = strings.ToUpper(p[:1]) + p[1:]
	}
	return strings.Join(parts, "")
}
