package rules

import (
	"regexp"
	"os"
	"fmt"
	"go/token"
	"go/types"
	"sort"
	"strings"

	"elyslint/core"

	"golang.org/x/tools/go/ssa"
)

func init() { register("C18", checkC18) }

type c18Tables struct {
	PanicEdges map[string]string `json:"panic_edges"` // "function key construct" → triage
	ErrorEdges map[string]string `json:"error_edges"` // "function key ← callee" → triage
	Divisions  map[string]string `json:"divisions"`   // "function key divisor" → why non-zero
}

// hasRecover: the function defers a closure that calls recover().
func hasRecover(fn *ssa.Function) bool {
	if fn.Recover == nil {
		return false
	}
	for _, b := range fn.Blocks {
		for _, in := range b.Instrs {
			d, ok := in.(*ssa.Defer)
			if !ok {
				continue
			}
			var cl *ssa.Function
			switch v := d.Call.Value.(type) {
			case *ssa.MakeClosure:
				cl, _ = v.Fn.(*ssa.Function)
			case *ssa.Function:
				cl = v
			}
			if cl == nil {
				continue
			}
			for _, cb := range cl.Blocks {
				for _, ci := range cb.Instrs {
					if c, ok := ci.(ssa.CallInstruction); ok {
						if b, isB := c.Common().Value.(*ssa.Builtin); isB && b.Name() == "recover" {
							return true
						}
					}
				}
			}
		}
	}
	return false
}

func blockRoots(P *core.Program) []*ssa.Function {
	var out []*ssa.Function
	for _, fn := range P.FindRoots().Block {
		if strings.HasPrefix(core.PkgRel(fn), "x/") {
			out = append(out, fn)
		}
	}
	return out
}

// unprotectedReach: functions reachable from the block roots without passing below a
// function that recovers.
func unprotectedReach(P *core.Program, roots []*ssa.Function) map[*ssa.Function]bool {
	g := P.CG()
	seen := map[*ssa.Function]bool{}
	var stack []*ssa.Function
	for _, r := range roots {
		if !seen[r] {
			seen[r] = true
			stack = append(stack, r)
		}
	}
	for len(stack) > 0 {
		f := stack[len(stack)-1]
		stack = stack[:len(stack)-1]
		if hasRecover(f) {
			continue // everything below is caught
		}
		for _, e := range g.Out[f] {
			if !seen[e.Callee] {
				seen[e.Callee] = true
				stack = append(stack, e.Callee)
			}
		}
	}
	return seen
}

func checkC18(P *core.Program, R *core.Report) {
	R.Explanation = "Abort-edge inventory (R7) for every Elys Begin/EndBlock root: (P) every explicit panic instruction in a function reachable from a block root without passing below a recovering function; (E) every edge of the error-propagation closure — function g whose returned error reaches the ABCI return, and the callee (or created error) it propagates; (D) every division (Quo*/QuoInt/QuoRaw…) in unprotected block-reachable code whose divisor is not a non-zero constant and is not covered by a must-hold non-zero fact (on the divisor itself or on a product it is a factor of). " +
		"Today's instances are triaged and frozen in tables/c18_abort_edges.json; an instance not in the table is a violation (\"no new way to halt block processing\"). R2 regression: the per-item isolations (amm ExecuteSwapRequests — C04, OnCollectFee swap, masterchef fee conversion — the repair of F-18) keep their cache-context shape. R11: an error compared with a package-level sentinel by ==/!= whose producers only ever return the sentinel wrapped is a dead comparison (this rule reported F-18b). " +
		"Not decided: arithmetic/slice/nil panics in general, gas, SDK modules' own blockers, liveness."
	var T c18Tables
	if err := loadTable("c18_abort_edges.json", &T); err != nil {
		R.Undecided("C18-table", "-", "tables/c18_abort_edges.json", "-", err.Error())
		return
	}
	roots := blockRoots(P)
	R.Analysed["block_roots"] = len(roots)
	reach := unprotectedReach(P, roots)
	R.Analysed["unprotected_block_reachable_functions"] = len(reach)
	checkBlockedRecipients(P, R, "C18-blocked-recipient", reach)
	checkParamRecipients(P, R, "C18-param-recipient", reach)
	var fns []*ssa.Function
	for fn := range reach {
		if !core.IsGeneratedOrAux(P.File(fn.Pos())) {
			fns = append(fns, fn)
		}
	}
	sort.Slice(fns, func(i, j int) bool { return P.Key(fns[i]) < P.Key(fns[j]) })
	used := map[string]bool{}
	// (P) explicit panics
	panicSeen := map[string]int{}
	for _, fn := range fns {
		if hasRecover(fn) {
			continue
		}
		key := topKey(P, fn) // closures count with the function that contains them
		n := panicSeen[key]
		for _, b := range fn.Blocks {
			for _, in := range b.Instrs {
				if _, ok := in.(*ssa.Panic); !ok {
					continue
				}
				n++
				panicSeen[key] = n
				tk := key + " panic"
				if n > 1 {
					tk = fmt.Sprintf("%s panic #%d", key, n)
				}
				why, ok := T.PanicEdges[tk]
				used[tk] = true
				R.Add("C18-panic-edge", key, "explicit panic", P.Pos(P.InstrPos(in)), ok, "an explicit panic reachable from block processing outside any recover halts the chain; frozen instances are triaged. "+why)
			}
		}
	}
	// (E) error propagation closure
	closure := map[*ssa.Function]bool{}
	var work []*ssa.Function
	for _, r := range roots {
		if core.ErrResultIndex(r.Signature) >= 0 {
			closure[r] = true
			work = append(work, r)
		}
	}
	// epoch hooks: epochs BeginBlocker panics on hook errors, so hook errors abort too
	for _, fn := range P.Funcs {
		if fn.Signature.Recv() != nil && (fn.Name() == "BeforeEpochStart" || fn.Name() == "AfterEpochEnd") && core.ErrResultIndex(fn.Signature) >= 0 &&
			strings.HasPrefix(core.PkgRel(fn), "x/") && reach[fn] && !closure[fn] {
			closure[fn] = true
			work = append(work, fn)
		}
	}
	type edge struct{ g, callee, pos string }
	var edges []edge
	// The inventory is of the block-processing structure: which operations a Begin/EndBlocker
	// (or a function only block processing uses) lets propagate instead of isolating.  A
	// function that message handlers use as well is shared code: its own error returns
	// (validation sentinels, deeper callees) were already able to fail the block through the
	// inventoried edge that leads into it, so they are not separate structure — and a new
	// validation in such a function is not a new way to abort block processing.
	msgReach := P.Reach(P.FindRoots().Msg)
	shared := 0
	for len(work) > 0 {
		g := work[len(work)-1]
		work = work[:len(work)-1]
		if core.IsGeneratedOrAux(P.File(g.Pos())) {
			continue
		}
		if msgReach[g] {
			shared++
			continue
		}
		ff := P.Facts(g)
		ei := core.ErrResultIndex(g.Signature)
		srcs := map[string]string{}
		for _, ex := range ff.Exits() {
			ret, ok := ex.Instr.(*ssa.Return)
			if !ok || ex.Kind == core.ExitSuccess || ei >= len(ret.Results) {
				continue
			}
			for _, o := range ff.OriginsT(ret.Results[ei], func(c *ssa.Call) []ssa.Value {
				switch core.CalleeName(c.Common()) {
				case "Wrap", "Wrapf", "Errorf", "WithType":
					var errs []ssa.Value
					for _, a := range c.Common().Args {
						if a.Type().String() == "error" {
							errs = append(errs, a)
						}
					}
					if len(errs) > 0 {
						return errs
					}
				}
				return nil
			}) {
				switch o.Kind {
				case "call":
					call, _ := o.Val.(*ssa.Call)
					if call == nil {
						continue
					}
					ck := P.CalleeKey(call.Common())
					srcs[ck] = P.Pos(P.InstrPos(call))
					if hasIso, _ := isolatedCall(P, ff, call); hasIso {
						// error of an isolated call that is returned still aborts; keep it
					}
					for _, t := range P.Callees(call) {
						if core.ErrResultIndex(t.Signature) >= 0 && !closure[t] && !hasRecoverToNil(t) {
							closure[t] = true
							work = append(work, t)
						}
					}
				case "global":
					srcs["sentinel "+o.Name] = P.Pos(P.InstrPos(ex.Instr))
				case "const":
				default:
					srcs["value "+o.Kind] = P.Pos(P.InstrPos(ex.Instr))
				}
			}
		}
		for ck, pos := range srcs {
			edges = append(edges, edge{P.Key(g), ck, pos})
		}
	}
	sort.Slice(edges, func(i, j int) bool {
		if edges[i].g != edges[j].g {
			return edges[i].g < edges[j].g
		}
		return edges[i].callee < edges[j].callee
	})
	for _, e := range edges {
		tk := e.g + " ← " + e.callee
		why, ok := T.ErrorEdges[tk]
		used[tk] = true
		R.Add("C18-error-edge", e.g, "propagates error of "+e.callee, e.pos, ok, "an error that reaches the ABCI return of Begin/EndBlock (or an epoch hook, which epochs BeginBlocker turns into a panic) halts the chain; frozen instances are triaged. "+why)
	}
	R.Analysed["error_propagation_closure"] = len(closure)
	R.Analysed["error_closure_shared_with_msg_handlers_not_inventoried"] = shared
	// (D) divisions
	for _, fn := range fns {
		if hasRecover(fn) {
			continue
		}
		key := topKey(P, fn)
		ff := P.Facts(fn)
		seenDiv := map[string]int{}
		for _, c := range core.Calls(fn) {
			sc := c.Common().StaticCallee()
			if sc == nil || sc.Signature.Recv() == nil || !core.IsMathType(sc.Signature.Recv().Type()) || !strings.HasPrefix(sc.Name(), "Quo") || len(c.Common().Args) != 2 {
				continue
			}
			div := ff.Fwd(c.Common().Args[1])
			if nonZeroConst(ff, div) {
				continue
			}
			desc := stableDesc(ff, div)
			seenDiv[desc]++
			construct := "divisor " + desc
			if guardedNonZero(ff, c, div) {
				R.Add("C18-division", key, construct, P.Pos(P.InstrPos(c)), true, "divisor is covered by a must-hold non-zero fact")
				continue
			}
			tk := key + " " + desc
			why, ok := T.Divisions[tk]
			used[tk] = true
			R.Add("C18-division", key, construct, P.Pos(P.InstrPos(c)), ok, "division in unprotected block processing: the divisor must be provably non-zero or triaged. "+why)
		}
	}
	// (D') native integer division and remainder (a zero divisor panics at run time)
	for _, fn := range fns {
		if hasRecover(fn) {
			continue
		}
		key := topKey(P, fn)
		ff := P.Facts(fn)
		for _, b := range fn.Blocks {
			for _, in := range b.Instrs {
				bo, ok := in.(*ssa.BinOp)
				if !ok || (bo.Op != token.QUO && bo.Op != token.REM) {
					continue
				}
				if bt, ok := bo.Type().Underlying().(*types.Basic); !ok || bt.Info()&types.IsInteger == 0 {
					continue
				}
				div := ff.Fwd(bo.Y)
				if nonZeroConst(ff, div) {
					continue
				}
				desc := stableDesc(ff, div)
				construct := "integer divisor " + desc
				if guardedNonZero(ff, bo, div) || phiNonZero(ff, div) {
					R.Add("C18-division", key, construct, P.Pos(P.InstrPos(bo)), true, "divisor is covered by a must-hold non-zero fact (on every way it is chosen)")
					continue
				}
				tk := key + " int " + desc
				why, ok := T.Divisions[tk]
				used[tk] = true
				R.Add("C18-division", key, construct, P.Pos(P.InstrPos(bo)), ok, "integer division or remainder in unprotected block processing: a zero divisor is a run-time panic; the divisor must be provably non-zero or triaged. "+why)
			}
		}
	}
	// the commitments record backs estaking's virtual delegations: x/distribution re-reads it
	// in the delegation hooks and panics later ("calculated final stake … greater than
	// current stake") if it was told about a change before the change was stored
	checkStoreBeforeHook(P, R, "C18-store-before-hook", func(_, record string) bool { return record == "Commitments" })
	checkZeroCoins(P, R, fns, &T, used)
	checkTruncatingSplits(P, R, fns)
	checkSentinelComparisons(P, R)
	// R2 regression of the isolations
	checkIsolatedCall(P, R, "C18-isolated", "x/masterchef/keeper.Keeper.ConvertGasFeesToUsdc", "x/amm/keeper.Keeper.InternalSwapExactAmountIn")
	checkIsolatedCall(P, R, "C18-isolated", "x/amm/keeper.Keeper.OnCollectFee", "x/amm/keeper.Keeper.SwapFeesToRevenueToken")
	// stale table entries
	for _, m := range []map[string]string{T.PanicEdges, T.ErrorEdges, T.Divisions} {
		for k := range m {
			if !used[k] {
				if os.Getenv("ELYSLINT_STALE") != "" {
					fmt.Fprintf(os.Stderr, "STALE\t%s\n", k)
				}
				R.Add("C18-table", k, "stale entry", "-", true, "frozen abort edge no longer present (harmless)")
			}
		}
	}
}

// hasRecoverToNil: the function recovers panics; its error results still propagate, so it is
// NOT a barrier for errors (kept for clarity).
func hasRecoverToNil(fn *ssa.Function) bool { return false }

func nonZeroConst(ff *core.FuncFacts, v ssa.Value) bool {
	v = ff.Fwd(v)
	if k, ok := v.(*ssa.Const); ok {
		return k.Value != nil && k.Value.ExactString() != "0"
	}
	if c, ok := v.(*ssa.Call); ok && !c.Common().IsInvoke() {
		name := core.CalleeName(c.Common())
		switch name {
		case "NewInt", "LegacyNewDec", "NewIntFromUint64", "LegacyNewDecFromInt", "LegacyNewDecWithPrec", "ToLegacyDec", "LegacyMustNewDecFromStr":
			if len(c.Common().Args) >= 1 {
				return nonZeroConst(ff, c.Common().Args[0])
			}
		case "OneInt", "LegacyOneDec":
			return true
		}
	}
	if u, ok := v.(*ssa.UnOp); ok && u.Op == token.MUL {
		if g, ok := u.X.(*ssa.Global); ok {
			// package-level constant-like vars (OneShare …)
			return strings.HasPrefix(g.Name(), "One") || strings.Contains(g.Name(), "Precision")
		}
	}
	if bo, ok := v.(*ssa.BinOp); ok && bo.Op == token.MUL {
		return nonZeroConst(ff, bo.X) && nonZeroConst(ff, bo.Y)
	}
	if cv, ok := v.(*ssa.Convert); ok {
		return nonZeroConst(ff, cv.X)
	}
	return false
}

// guardedNonZero: a must-hold fact at the call says div ≠ 0 (¬IsZero, IsPositive, 0 < div),
// possibly on a product of which div is a factor, or on the value div was converted from.
func guardedNonZero(ff *core.FuncFacts, at ssa.Instruction, div ssa.Value) bool {
	related := map[ssa.Value]bool{ff.Fwd(div): true}
	// conversions: ToLegacyDec(x), NewInt(x), LegacyNewDecFromInt(x)
	var expand func(v ssa.Value, d int)
	expand = func(v ssa.Value, d int) {
		if d > 4 {
			return
		}
		if c, ok := ff.Fwd(v).(*ssa.Call); ok && !c.Common().IsInvoke() {
			switch core.CalleeName(c.Common()) {
			case "ToLegacyDec", "NewInt", "LegacyNewDecFromInt", "LegacyNewDec", "NewIntFromUint64", "Abs":
				if len(c.Common().Args) >= 1 {
					a := ff.Fwd(c.Common().Args[0])
					related[a] = true
					expand(a, d+1)
				}
			}
		}
		if cv, ok := ff.Fwd(v).(*ssa.Convert); ok {
			related[ff.Fwd(cv.X)] = true
			expand(cv.X, d+1)
		}
	}
	expand(div, 0)
	isRel := func(v ssa.Value) bool {
		v = ff.Fwd(v)
		if related[v] {
			return true
		}
		// product with div as a factor
		if c, ok := v.(*ssa.Call); ok && !c.Common().IsInvoke() && strings.HasPrefix(core.CalleeName(c.Common()), "Mul") && len(c.Common().Args) == 2 {
			return related[ff.Fwd(c.Common().Args[0])] || related[ff.Fwd(c.Common().Args[1])]
		}
		return false
	}
	// the same quantity in another spelling (conversions, re-loaded fields, constant factors)
	pd := ff.PolyOf(div)
	samePoly := func(v ssa.Value) bool {
		if v == nil || v == core.ZeroMarker || v == core.NilMarker {
			return false
		}
		if !core.IsMathType(v.Type()) {
			if _, basic := v.Type().Underlying().(*types.Basic); !basic {
				return false
			}
		}
		px := ff.PolyOf(v)
		return len(px.T) > 0 && (pd.ProportionalTo(px) || pd.Neg().ProportionalTo(px))
	}
	for _, a := range ff.At(at) {
		switch {
		case (a.Rel == core.NE || a.Rel == core.LT) && (a.B == core.ZeroMarker || isZeroConst(a.B)) && a.Rel == core.NE && samePoly(a.A):
			return true
		case (a.Rel == core.NE || a.Rel == core.LT) && (a.A == core.ZeroMarker || isZeroConst(a.A)) && samePoly(a.B):
			return true
		case a.Rel == core.LT && (a.B == core.ZeroMarker || isZeroConst(a.B)) && samePoly(a.A):
			return true // X < 0 is non-zero too
		case a.Rel == core.NE && (a.B == core.ZeroMarker || isZeroConst(a.B)) && isRel(a.A):
			return true
		case a.Rel == core.LT && (a.A == core.ZeroMarker || isZeroConst(a.A)) && isRel(a.B):
			return true
		case a.Rel == core.NE && (a.A == core.ZeroMarker || isZeroConst(a.A)) && a.B != nil && isRel(a.B):
			return true
		}
	}
	return false
}

func isZeroConst(v ssa.Value) bool {
	k, ok := v.(*ssa.Const)
	return ok && k.Value != nil && k.Value.ExactString() == "0"
}

// checkSentinelComparisons (R11)
func checkSentinelComparisons(P *core.Program, R *core.Report) {
	subjects := P.Reach(P.FindRoots().Consensus())
	n := 0
	for _, fn := range P.Funcs {
		if !subjects[fn] || core.IsGeneratedOrAux(P.File(fn.Pos())) {
			continue
		}
		ff := P.Facts(fn)
		for _, b := range fn.Blocks {
			for _, in := range b.Instrs {
				bo, ok := in.(*ssa.BinOp)
				if !ok || (bo.Op != token.EQL && bo.Op != token.NEQ) {
					continue
				}
				var sentinel *ssa.Global
				var other ssa.Value
				for _, pr := range [][2]ssa.Value{{bo.X, bo.Y}, {bo.Y, bo.X}} {
					cand := pr[0]
					if mi, isMI := cand.(*ssa.MakeInterface); isMI {
						cand = mi.X
					}
					if u, isU := cand.(*ssa.UnOp); isU && u.Op == token.MUL {
						if g, isG := u.X.(*ssa.Global); isG && isErrorLike(g.Type()) {
							sentinel, other = g, pr[1]
						}
					}
				}
				if sentinel == nil || other.Type().String() != "error" {
					continue
				}
				n++
				// producers: the calls the compared error comes from
				bare, wrapped := 0, 0
				var where []string
				for _, o := range ff.Origins(other) {
					call, isC := o.Val.(*ssa.Call)
					if !isC || o.Kind != "call" {
						continue
					}
					seen := map[*ssa.Function]bool{}
					for _, t := range P.Callees(call) {
						b2, w2, wh := sentinelProducers(P, t, sentinel, 0, seen)
						bare += b2
						wrapped += w2
						where = append(where, wh...)
					}
				}
				dead := bare == 0 && wrapped > 0
				R.Add("C18-sentinel-compare", P.Key(fn), "== "+sentinel.Name(), P.Pos(P.InstrPos(in)), !dead,
					fmt.Sprintf("identity comparison with a sentinel error: %d bare and %d wrapped producers found; if every producer wraps the sentinel the comparison can never match (use errors.Is). %s", bare, wrapped, strings.Join(where, ", ")))
			}
		}
	}
	R.Analysed["sentinel_identity_comparisons"] = n
}

func isErrorLike(t types.Type) bool {
	p, ok := t.(*types.Pointer)
	if !ok {
		return false
	}
	s := p.Elem().String()
	return s == "error" || strings.HasSuffix(s, "errors.Error") || strings.HasSuffix(s, "*cosmossdk.io/errors.Error")
}

// sentinelProducers walks callee returns (following direct propagation of callee errors) and
// counts returns of the bare sentinel vs. the sentinel wrapped by Wrap/Wrapf/Errorf.
func sentinelProducers(P *core.Program, fn *ssa.Function, s *ssa.Global, depth int, seen map[*ssa.Function]bool) (bare, wrapped int, where []string) {
	if seen[fn] || depth > 4 || fn.Blocks == nil {
		return
	}
	seen[fn] = true
	ei := core.ErrResultIndex(fn.Signature)
	if ei < 0 {
		return
	}
	ff := P.Facts(fn)
	for _, ex := range ff.Exits() {
		ret, ok := ex.Instr.(*ssa.Return)
		if !ok || ei >= len(ret.Results) {
			continue
		}
		v := ff.Fwd(ret.Results[ei])
		var visit func(v ssa.Value, d int)
		visit = func(v ssa.Value, d int) {
			if d > 6 {
				return
			}
			v = ff.Fwd(v)
			switch x := v.(type) {
			case *ssa.UnOp:
				if g, ok := x.X.(*ssa.Global); ok && g == s {
					bare++
					where = append(where, "bare at "+P.Pos(P.InstrPos(ex.Instr)))
				}
			case *ssa.MakeInterface:
				visit(x.X, d+1)
			case *ssa.Phi:
				for _, e := range x.Edges {
					visit(e, d+1)
				}
			case *ssa.Extract:
				visit(x.Tuple, d+1)
			case *ssa.Call:
				name := core.CalleeName(x.Common())
				if name == "Wrap" || name == "Wrapf" || name == "Errorf" {
					for _, a := range x.Common().Args {
						av := ff.Fwd(a)
						if mi, ok := av.(*ssa.MakeInterface); ok {
							av = ff.Fwd(mi.X)
						}
						if u, ok := av.(*ssa.UnOp); ok {
							if g, ok := u.X.(*ssa.Global); ok && g == s {
								wrapped++
								where = append(where, "wrapped at "+P.Pos(P.InstrPos(x)))
							}
						}
					}
					return
				}
				for _, t := range P.Callees(x) {
					b2, w2, wh := sentinelProducers(P, t, s, depth+1, seen)
					bare += b2
					wrapped += w2
					where = append(where, wh...)
				}
			}
		}
		visit(v, 0)
	}
	return
}

// checkZeroCoins: in unprotected block-reachable code, a `sdk.Coins{NewCoin(d, amt)}` literal
// (which, unlike sdk.NewCoins, keeps a zero coin) handed to a mint / burn / transfer must
// have amt provably positive at the call — the bank rejects a zero coin with an error that
// the blockers propagate. A guard on the untruncated decimal does not cover TruncateInt().
func checkZeroCoins(P *core.Program, R *core.Report, fns []*ssa.Function, T *c18Tables, used map[string]bool) {
	for _, fn := range fns {
		if hasRecover(fn) {
			continue
		}
		key := P.Key(fn)
		ff := P.Facts(fn)
		for _, c := range core.Calls(fn) {
			eff := P.EffectOf(c)
			ck := P.CalleeKey(c.Common())
			isXfer := eff == core.EffMint || eff == core.EffBurn || eff == core.EffBankSend ||
				strings.HasSuffix(ck, "CommitmentKeeper.MintCoins") || strings.HasSuffix(ck, "CommitmentKeeper.BurnCoins") ||
				strings.HasSuffix(ck, "CommitmentKeeper.SendCoinsFromModuleToAccount") || strings.HasSuffix(ck, "CommitmentKeeper.SendCoinsFromModuleToModule")
			if !isXfer {
				continue
			}
			args := c.Common().Args
			coins := ff.Fwd(args[len(args)-1])
			els, isLit := core.SliceLiteral(coins)
			if !isLit {
				// NewCoins(…) sanitises zero coins; other values are not built here
				if ncs, ok := coins.(*ssa.Call); ok && core.CalleeName(ncs.Common()) == "NewCoins" {
					if inner, ok := core.SliceLiteral(ff.Fwd(ncs.Common().Args[0])); ok && len(inner) > 0 {
						R.Add("C18-zero-coin", key, "NewCoins(…) → "+ck, P.Pos(P.InstrPos(c)), true, "sdk.NewCoins drops zero coins before the bank sees them")
					}
				}
				continue
			}
			for _, e := range els {
				nc, isNC := ff.Fwd(e).(*ssa.Call)
				if !isNC || core.CalleeName(nc.Common()) != "NewCoin" || len(nc.Common().Args) != 2 {
					continue
				}
				amt := ff.Fwd(nc.Common().Args[1])
				pos := false
				for _, a := range ff.At(c) {
					if a.Rel == core.LT && a.A == core.ZeroMarker && (ff.Fwd(a.B) == amt || ff.TermKey(a.B) == ff.TermKey(amt)) {
						pos = true // same value, or the same pure expression evaluated again
					}
					if a.Rel == core.TRUE {
						if g, isC := ff.Fwd(a.A).(*ssa.Call); isC && (core.CalleeName(g.Common()) == "IsAllPositive") && len(g.Common().Args) == 1 && ff.Fwd(g.Common().Args[0]) == coins {
							pos = true
						}
					}
				}
				construct := "Coins{NewCoin(…, " + ff.Describe(amt) + ")} → " + ck
				if pos {
					R.Add("C18-zero-coin", key, construct, P.Pos(P.InstrPos(c)), true, "amount is positive at the call")
					continue
				}
				tk := key + " " + ck
				why, ok := T.Divisions["zero-coin "+tk]
				used["zero-coin "+tk] = true
				R.Add("C18-zero-coin", key, construct, P.Pos(P.InstrPos(c)), ok, "a zero coin in a Coins literal makes the bank return an error that block processing propagates; the amount handed over must be tested positive after truncation. "+why)
			}
		}
	}
}

// stableDesc names a divisor for the frozen table: its polynomial normal form (so that
// conversions and re-spellings do not matter) with every leaf named by where it comes from
// (parameter path, callee) instead of by a value number, so that unrelated edits in the
// same function do not rename it.
func stableDesc(ff *core.FuncFacts, v ssa.Value) string {
	p, _ := ff.PolyOf(v).Rename(func(k string, lv ssa.Value) (string, bool) {
		if lv == nil {
			return k, true
		}
		d := ff.Describe(lv)
		// a merged value lists its alternatives: as a set, in a fixed order
		alts := strings.Split(d, "|")
		sort.Strings(alts)
		var uniqAlts []string
		for i, a := range alts {
			if i == 0 || a != alts[i-1] {
				uniqAlts = append(uniqAlts, a)
			}
		}
		d = strings.Join(uniqAlts, "|")
		d = strings.NewReplacer("*", "", "/", "÷", "+", "＋", " ", "").Replace(d)
		return d, true
	})
	return sumBlockRe.ReplaceAllString(p.String(), "Sum")
}

var sumBlockRe = regexp.MustCompile(`Sum@b-?\d+`)

// checkTruncatingSplits: DecCoins.Sub panics on a negative result.  Where block processing
// hands out a pot share by share (remaining = remaining.Sub(share)), every share must be
// computed with truncating operations only (QuoTruncate, MulTruncate, MulDecTruncate …): a
// rounding-to-nearest quotient or product can make the shares add up to more than the pot
// and the subtraction panic — outside any recover — halts the chain.
func checkTruncatingSplits(P *core.Program, R *core.Report, fns []*ssa.Function) {
	rounding := map[string]bool{"Quo": true, "Mul": true, "MulDec": true, "QuoDec": true, "QuoRoundUp": true, "MulRoundUp": true, "QuoInt": true, "MulInt": true, "Ceil": true, "RoundInt": true, "QuoInt64": true, "MulInt64": true}
	for _, fn := range fns {
		if hasRecover(fn) {
			continue
		}
		ff := P.Facts(fn)
		for _, c := range core.Calls(fn) {
			sc := c.Common().StaticCallee()
			if sc == nil || sc.Name() != "Sub" || sc.Signature.Recv() == nil || core.NamedName(sc.Signature.Recv().Type()) != "DecCoins" {
				continue
			}
			// the minuend must be loop-carried (a pot that is being drained)
			carried := false
			switch m := ff.Fwd(c.Common().Args[0]).(type) {
			case *ssa.Phi:
				carried = true
			case *ssa.UnOp: // a variable captured by an iterator callback
				if _, isFree := m.X.(*ssa.FreeVar); isFree {
					carried = true
				}
			}
			if !carried {
				continue
			}
			bad := ""
			seen := map[ssa.Value]bool{}
			var walk func(v ssa.Value, d int)
			walk = func(v ssa.Value, d int) {
				v = ff.Fwd(v)
				if v == nil || seen[v] || d > 12 {
					return
				}
				seen[v] = true
				call, ok := v.(*ssa.Call)
				if !ok || call.Common().IsInvoke() || call.Common().StaticCallee() == nil {
					return
				}
				callee := call.Common().StaticCallee()
				recv := callee.Signature.Recv()
				if recv == nil || !(core.IsMathType(recv.Type()) || core.NamedName(recv.Type()) == "DecCoins" || core.NamedName(recv.Type()) == "DecCoin") {
					return
				}
				if rounding[callee.Name()] {
					// dividing/multiplying by the constant one or subtracting is exact; anything else rounds to nearest
					bad = callee.Name() + " at " + P.Pos(P.InstrPos(call))
				}
				for _, a := range call.Common().Args {
					walk(a, d+1)
				}
			}
			walk(c.Common().Args[1], 0)
			R.Add("C18-trunc-split", P.Key(fn), "pot.Sub(share): share computed by truncation only", P.Pos(P.InstrPos(c)), bad == "",
				"a share subtracted from a loop-carried DecCoins pot must be computed with truncating operations, or the shares can exceed the pot and DecCoins.Sub panics. "+bad)
		}
	}
}

// topKey: the key of the declared function a (possibly anonymous) function belongs to.
func topKey(P *core.Program, fn *ssa.Function) string {
	for fn.Parent() != nil {
		fn = fn.Parent()
	}
	return P.Key(fn)
}

// phiNonZero: the divisor is chosen among alternatives (a clamp `if n <= 0 { n = 1 }`) and
// every alternative is a non-zero constant or is delivered on an edge that carries a
// must-hold fact excluding zero for it.
func phiNonZero(ff *core.FuncFacts, v ssa.Value) bool {
	ph, ok := ff.Fwd(v).(*ssa.Phi)
	if !ok {
		return false
	}
	for i, e := range ph.Edges {
		pred := ph.Block().Preds[i]
		if !ff.BlockReachable(pred) {
			continue
		}
		ev := ff.Fwd(e)
		if nonZeroConst(ff, ev) {
			continue
		}
		ok := false
		for _, a := range append(append([]*core.Atom{}, ff.OutFacts(pred)...), ff.EdgeFacts(pred, ph.Block())...) {
			switch {
			case a.Rel == core.LT && a.A == core.ZeroMarker && ff.Fwd(a.B) == ev,
				a.Rel == core.LT && a.B == core.ZeroMarker && ff.Fwd(a.A) == ev,
				a.Rel == core.NE && a.B == core.ZeroMarker && ff.Fwd(a.A) == ev,
				a.Rel == core.NE && a.A == core.ZeroMarker && ff.Fwd(a.B) == ev:
				ok = true
			}
			// comparisons against the literal 0 of a native integer
			if k, isK := a.B.(*ssa.Const); isK && k.Value != nil && k.Value.ExactString() == "0" && a.A != nil && ff.Fwd(a.A) == ev && (a.Rel == core.NE || a.Rel == core.LT) {
				ok = true
			}
			if k, isK := a.A.(*ssa.Const); isK && k.Value != nil && k.Value.ExactString() == "0" && a.B != nil && ff.Fwd(a.B) == ev && (a.Rel == core.NE || a.Rel == core.LT) {
				ok = true
			}
		}
		if !ok {
			return false
		}
	}
	return true
}
