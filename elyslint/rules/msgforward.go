package rules

import (
	"fmt"
	"go/types"
	"os"
	"sort"
	"strings"

	"elyslint/core"

	"golang.org/x/tools/go/ssa"
)

// Message forwarding completeness (C04-msg-forward; DESIGN §10.9).  Several handlers do
// their work by building ANOTHER message from the one they received and handing it to that
// message's handler (SwapByDenom → SwapExactAmountIn/Out, tradeshield → amm, batch →
// single).  What the user stated in the outer message reaches the code that honours it
// only through the fields copied into the inner one.  Decided for every non-generated
// function of x/ that has a parameter *M1 (a proto Msg type) and builds a composite
// literal of a proto Msg type M2: every field of M2 that M1 also has under the same name
// and type is set in the literal, from that very field of the received message.
// A dropped `Recipient: msg.Recipient` compiles, passes every test that uses sender ==
// recipient, and pays the proceeds to the sender.
func isProtoMsg(t types.Type) (*types.Named, *types.Struct, bool) {
	if p, ok := t.Underlying().(*types.Pointer); ok {
		t = p.Elem()
	}
	n, ok := t.(*types.Named)
	if !ok || n.Obj().Pkg() == nil || !strings.HasPrefix(n.Obj().Name(), "Msg") || strings.HasSuffix(n.Obj().Name(), "Response") {
		return nil, nil, false
	}
	if !strings.Contains(n.Obj().Pkg().Path(), "/x/") || !strings.HasSuffix(n.Obj().Pkg().Path(), "/types") {
		return nil, nil, false
	}
	st, ok := n.Underlying().(*types.Struct)
	return n, st, ok
}

func checkMsgForward(P *core.Program, R *core.Report, rule string, keep func(fnKey string) bool) {
	var fns []*ssa.Function
	for _, fn := range P.Funcs {
		if fn.Blocks == nil || core.IsGeneratedOrAux(P.File(fn.Pos())) || strings.HasSuffix(P.File(fn.Pos()), "_test.go") {
			continue
		}
		k := P.Key(fn)
		if !strings.HasPrefix(k, "x/") || strings.Contains(k, "/client/") || strings.Contains(k, "/simulation") || (keep != nil && !keep(k)) {
			continue
		}
		fns = append(fns, fn)
	}
	sort.Slice(fns, func(i, j int) bool { return P.Key(fns[i]) < P.Key(fns[j]) })
	n := 0
	for _, fn := range fns {
		// the received message parameter(s)
		var outer []*ssa.Parameter
		for _, p := range fn.Params {
			if _, _, ok := isProtoMsg(p.Type()); ok {
				outer = append(outer, p)
			}
		}
		if len(outer) == 0 {
			continue
		}
		ff := P.Facts(fn)
		for _, b := range fn.Blocks {
			for _, in := range b.Instrs {
				al, ok := in.(*ssa.Alloc)
				if !ok || al.Comment != "complit" {
					continue
				}
				n2, st2, ok := isProtoMsg(al.Type())
				if !ok {
					continue
				}
				// fields stored in the literal
				set := map[string]ssa.Value{}
				if al.Referrers() != nil {
					for _, r := range *al.Referrers() {
						fa, ok := r.(*ssa.FieldAddr)
						if !ok || fa.Referrers() == nil {
							continue
						}
						for _, rr := range *fa.Referrers() {
							if s, ok := rr.(*ssa.Store); ok && s.Addr == ssa.Value(fa) {
								set[core.FieldName(fa.X.Type(), fa.Field)] = s.Val
							}
						}
					}
				}
				for _, m1 := range outer {
					n1, st1, _ := isProtoMsg(m1.Type())
					if n1 == n2 {
						continue
					}
					var missing, foreign []string
					common := 0
					for i := 0; i < st2.NumFields(); i++ {
						f := st2.Field(i)
						if !f.Exported() || strings.HasPrefix(f.Name(), "XXX_") {
							continue
						}
						same := false
						for j := 0; j < st1.NumFields(); j++ {
							if st1.Field(j).Name() == f.Name() && types.Identical(st1.Field(j).Type(), f.Type()) {
								same = true
							}
						}
						if !same {
							continue
						}
						common++
						v, isSet := set[f.Name()]
						if !isSet {
							missing = append(missing, f.Name())
							continue
						}
						from := false
						for _, o := range ff.Origins(v) {
							if o.Kind == "param" && o.Name == m1.Name() && (o.Path == "."+f.Name() || strings.HasPrefix(o.Path, "."+f.Name()+".")) {
								from = true
							}
						}
						if !from {
							foreign = append(foreign, f.Name())
						}
					}
					if common == 0 {
						continue
					}
					n++
					detail := fmt.Sprintf("%s built from the received %s: fields they share must be copied across", n2.Obj().Name(), n1.Obj().Name())
					if len(missing) > 0 {
						detail += fmt.Sprintf("; NOT set: %v (the inner handler falls back to a default, e.g. recipient = sender)", missing)
					}
					if len(foreign) > 0 && os.Getenv("ELYSLINT_POLY_DEBUG") != "" {
						fmt.Fprintf(os.Stderr, "msgforward %s: %s fields set from elsewhere: %v\n", P.Key(fn), n2.Obj().Name(), foreign)
					}
					R.Add(rule, P.Key(fn), n2.Obj().Name()+" ← "+n1.Obj().Name(), P.Pos(P.InstrPos(al)), len(missing) == 0, detail)
				}
			}
		}
	}
	if n == 0 {
		R.Add(rule, "-", "forwarding handlers", "-", false, "no handler builds one message from another (anchor changed)")
	}
}
