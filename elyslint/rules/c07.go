package rules

import (
	"fmt"
	"os"
	"strings"

	"elyslint/core"

	"golang.org/x/tools/go/ssa"
)

func init() { register("C07", checkC07) }

func checkC07(P *core.Program, R *core.Report) {
	R.Explanation = "Only the structural clauses of the statement are decided; the rounding clauses (deposit→withdraw ≤ deposit + one share, others' redemption value not reduced) compose two banker's roundings at arbitrary rates and are not decidable here. " +
		"Decided: (1) lending cap — in stablestake Keeper.Borrow the transfer to the borrower and the Borrowed update are dominated by the must-hold fact ¬(borrowed > maxAllowed), where borrowed = (TotalValue − module balance) + requested amount and maxAllowed = TotalValue·9/10 (constants read from the LegacyNewDec literals, operands by provenance); " +
		"(2) one live rate — the share amount in Bond is deposit.Quo(rate) and the payout in Unbond is shares.Mul(rate) where rate is the result of GetRedemptionRate(ctx) in that handler (Bond may replace a zero rate by one), and GetRedemptionRate is TotalValue / supply of the share denom; RoundInt on both sides."
	checkBorrowCap(P, R)
	checkLiveRate(P, R)
}

func checkBorrowCap(P *core.Program, R *core.Report) {
	const key = "x/stablestake/keeper.Keeper.Borrow"
	fn := P.Fn(key)
	if fn == nil {
		R.Add("C07-borrow-cap", key, "function", "-", false, "unresolved anchor")
		return
	}
	ff := P.Facts(fn)
	isTV := func(v ssa.Value) bool {
		return originsAll(ff, v, func(o core.Origin) bool {
			return o.Kind == "call" && strings.HasSuffix(o.Name, "x/stablestake/keeper.Keeper.GetParams") && o.Path == ".TotalValue"
		})
	}
	isBal := func(v ssa.Value) bool {
		return originsAll(ff, v, func(o core.Origin) bool {
			if !(o.Kind == "call" && strings.HasSuffix(o.Name, "BankKeeper.GetBalance") && (o.Path == ".Amount" || o.Path == "")) {
				return false
			}
			call, _ := o.Val.(*ssa.Call)
			if call == nil || len(call.Common().Args) < 3 {
				return false
			}
			a := call.Common().Args
			return isModuleAccount(ff, a[1], "stablestake") && originsAll(ff, a[2], func(o core.Origin) bool {
				return o.Kind == "call" && strings.HasSuffix(o.Name, "Keeper.GetDepositDenom")
			})
		})
	}
	isReq := func(v ssa.Value) bool {
		return originsAll(ff, v, func(o core.Origin) bool { return o.Kind == "param" && o.Name == "amount" && (o.Path == ".Amount" || o.Path == "") })
	}
	// the guard is any must-hold comparison A ≤ B (or A < B) whose difference A − B is, up
	// to a positive factor, (TotalValue − cash + amount) − 9/10·TotalValue — in whatever
	// algebraically equal way the two sides are written (polynomial normal form)
	role := func(_ string, v ssa.Value) (string, bool) {
		switch {
		case v == nil:
			return "", false
		case isTV(v):
			return "TV", true
		case isBal(v):
			return "BAL", true
		case isReq(v):
			return "REQ", true
		}
		return "", false
	}
	want := core.ParsePoly("TV - BAL + REQ - 9/10*TV")
	guarded := func(in ssa.Instruction) bool {
		for _, a := range ff.At(in) {
			if (a.Rel != core.LE && a.Rel != core.LT) || a.B == nil || a.A == nil || a.A == core.ZeroMarker || a.B == core.ZeroMarker || a.B == core.NilMarker {
				continue
			}
			if !core.IsMathType(a.A.Type()) || !core.IsMathType(a.B.Type()) {
				continue
			}
			d, ok := ff.PolyOf(a.A).Sub(ff.PolyOf(a.B)).Rename(role)
			if os.Getenv("ELYSLINT_POLY_DEBUG") != "" {
				fmt.Fprintf(os.Stderr, "poly: %s | %s  => %s ok=%v\n", ff.PolyOf(a.A), ff.PolyOf(a.B), d, ok)
			}
			if ok && d.ProportionalTo(want) {
				return true
			}
		}
		return false
	}
	n := 0
	for _, c := range core.Calls(fn) {
		if P.EffectOf(c) == core.EffBankSend {
			n++
			R.Add("C07-borrow-cap", key, "transfer to borrower", P.Pos(P.InstrPos(c)), guarded(c), "lending out funds requires (TotalValue − cash + amount) ≤ TotalValue·9/10")
		}
		if calleeMatches(P, c, "x/stablestake/keeper.Keeper.SetDebt") {
			n++
			R.Add("C07-borrow-cap", key, "debt increase", P.Pos(P.InstrPos(c)), guarded(c), "recording the loan requires (TotalValue − cash + amount) ≤ TotalValue·9/10")
		}
	}
	if n < 2 {
		R.Add("C07-borrow-cap", key, "effects", P.Pos(fn.Pos()), false, "expected the transfer and the debt update (anchor changed)")
	}
	// Borrow is the only function that sends deposit-denom cash out of the vault besides Unbond
	subjects := P.Reach(P.FindRoots().Consensus())
	for _, f := range P.Funcs {
		if !subjects[f] || core.IsGeneratedOrAux(P.File(f.Pos())) {
			continue
		}
		fff := P.Facts(f)
		for _, c := range core.Calls(f) {
			if P.EffectOf(c) != core.EffBankSend {
				continue
			}
			from, _, coins := bankEnds(c)
			if !isModuleAccount(fff, from, "stablestake") || denomIs(fff, c, coins, "x/stablestake/types.GetShareDenom") {
				continue
			}
			k := P.Key(f)
			ok := k == key || k == "x/stablestake/keeper.msgServer.Unbond"
			R.Add("C07-cash-out", k, "cash leaves the vault", P.Pos(P.InstrPos(c)), ok, "only Borrow (capped) and Unbond (redemption) may send vault cash out")
		}
	}
}

func checkLiveRate(P *core.Program, R *core.Report) {
	isLive := func(ff *core.FuncFacts, v ssa.Value, allowOne bool) bool {
		return originsAll(ff, v, func(o core.Origin) bool {
			if o.Kind == "call" && strings.HasSuffix(o.Name, "x/stablestake/keeper.Keeper.GetRedemptionRate") {
				return true
			}
			return allowOne && o.Kind == "call" && strings.HasSuffix(o.Name, "math.LegacyOneDec")
		})
	}
	// Bond: shareAmount = RoundInt(Quo(ToLegacyDec(deposit), rate)) is what is minted and committed
	if fn := P.Fn("x/stablestake/keeper.msgServer.Bond"); fn != nil {
		ff := P.Facts(fn)
		ok := false
		for _, c := range core.Calls(fn) {
			if !calleeMatches(P, c, "x/commitment/keeper.Keeper.CommitLiquidTokens") {
				continue
			}
			args := c.Common().Args
			amt := args[len(args)-2]
			if inner, isR := roundedArg(ff, amt, "RoundInt"); isR {
				p, okR := ff.PolyOf(inner).Rename(func(k string, v ssa.Value) (string, bool) {
					switch {
					case k == "*msg.Amount":
						return "DEP", true
					case v != nil && isLive(ff, v, true):
						return "RATE", true
					}
					return "", false
				})
				if os.Getenv("ELYSLINT_POLY_DEBUG") != "" {
					fmt.Fprintf(os.Stderr, "poly bond: %s => %s ok=%v\n", ff.PolyOf(inner), p, okR)
				}
				ok = okR && p.Equal(core.ParsePoly("DEP/RATE"))
			}
		}
		R.Add("C07-live-rate", "x/stablestake/keeper.msgServer.Bond", "shares = RoundInt(deposit / GetRedemptionRate)", P.Pos(fn.Pos()), ok, "shares are issued at the live redemption rate (one when the vault is empty)")
	} else {
		R.Add("C07-live-rate", "x/stablestake/keeper.msgServer.Bond", "function", "-", false, "unresolved anchor")
	}
	if fn := P.Fn("x/stablestake/keeper.msgServer.Unbond"); fn != nil {
		ff := P.Facts(fn)
		ok := false
		for _, c := range core.Calls(fn) {
			if P.EffectOf(c) != core.EffBankSend {
				continue
			}
			from, _, coins := bankEnds(c)
			if !isModuleAccount(ff, from, "stablestake") {
				continue
			}
			els, _ := core.SliceLiteral(ff.Fwd(coins))
			if len(els) != 1 {
				continue
			}
			nc, isNC := ff.Fwd(els[0]).(*ssa.Call)
			if !isNC || core.CalleeName(nc.Common()) != "NewCoin" {
				continue
			}
			if inner, isR := roundedArg(ff, nc.Common().Args[1], "RoundInt"); isR {
				p, okR := ff.PolyOf(inner).Rename(func(k string, v ssa.Value) (string, bool) {
					switch {
					case k == "*msg.Amount":
						return "SHARES", true
					case v != nil && isLive(ff, v, false):
						return "RATE", true
					}
					return "", false
				})
				if os.Getenv("ELYSLINT_POLY_DEBUG") != "" {
					fmt.Fprintf(os.Stderr, "poly unbond: %s => %s ok=%v\n", ff.PolyOf(inner), p, okR)
				}
				ok = okR && p.Equal(core.ParsePoly("SHARES*RATE"))
			}
		}
		R.Add("C07-live-rate", "x/stablestake/keeper.msgServer.Unbond", "payout = RoundInt(shares · GetRedemptionRate)", P.Pos(fn.Pos()), ok, "shares are redeemed at the live redemption rate")
	} else {
		R.Add("C07-live-rate", "x/stablestake/keeper.msgServer.Unbond", "function", "-", false, "unresolved anchor")
	}
	// GetRedemptionRate = TotalValue / supply(share denom)
	if fn := P.Fn("x/stablestake/keeper.Keeper.GetRedemptionRate"); fn != nil {
		ff := P.Facts(fn)
		ok := false
		for _, ex := range ff.Exits() {
			ret, isRet := ex.Instr.(*ssa.Return)
			if !isRet || len(ret.Results) != 1 {
				continue
			}
			q, _, isQ := mathCall(ff, ret.Results[0], "Quo")
			if !isQ || len(q) != 2 {
				continue
			}
			n, _, ok1 := mathCall(ff, q[0], "ToLegacyDec")
			d, _, ok2 := mathCall(ff, q[1], "ToLegacyDec")
			if !ok1 || !ok2 {
				continue
			}
			tv := originsAll(ff, n[0], func(o core.Origin) bool {
				return o.Kind == "call" && strings.HasSuffix(o.Name, "Keeper.GetParams") && o.Path == ".TotalValue"
			})
			sup := originsAll(ff, d[0], func(o core.Origin) bool {
				if !(o.Kind == "call" && strings.HasSuffix(o.Name, "BankKeeper.GetSupply") && o.Path == ".Amount") {
					return false
				}
				call, _ := o.Val.(*ssa.Call)
				return call != nil && originsAll(ff, call.Common().Args[len(call.Common().Args)-1], func(o core.Origin) bool {
					return o.Kind == "call" && strings.HasSuffix(o.Name, "x/stablestake/types.GetShareDenom")
				})
			})
			if tv && sup {
				ok = true
			}
		}
		R.Add("C07-live-rate", "x/stablestake/keeper.Keeper.GetRedemptionRate", "TotalValue / share supply", P.Pos(fn.Pos()), ok, "the redemption rate is the vault value per minted share")
	} else {
		R.Add("C07-live-rate", "x/stablestake/keeper.Keeper.GetRedemptionRate", "function", "-", false, "unresolved anchor")
	}
}

// roundedArg: v is x.<op>() for a rounding conversion of cosmossdk.io/math; returns x.
func roundedArg(ff *core.FuncFacts, v ssa.Value, op string) (ssa.Value, bool) {
	a, _, ok := mathCall(ff, v, op)
	if !ok || len(a) != 1 {
		return nil, false
	}
	return a[0], true
}
