package rules

import "elyslint/core"

// Thorough runs the extra work of the thorough tier (sensitivity witnesses etc.).
func Thorough(prop string, P *core.Program, R *core.Report) {
	runWitnesses(prop, P, R)
}

func runWitnesses(prop string, P *core.Program, R *core.Report) {}
