package rules

import (
	"crypto/sha256"
	"encoding/hex"
	"encoding/json"
	"fmt"
	"io/fs"
	"os"
	"os/exec"
	"path/filepath"
	"regexp"
	"runtime"
	"sort"
	"strings"
	"syscall"

	"elyslint/core"

	"golang.org/x/tools/go/ssa"
)

// Thorough runs the extra work of the thorough tier (DESIGN §1.2, §3.3):
//
//  1. the call graph every reachability rule stands on (repo-CHA) is cross-checked against
//     a whole-program VTA graph built from source for all 1469 packages: an Elys→Elys VTA
//     edge that repo-CHA lacks is an under-approximation and fails the run, and a
//     framework-invoked state-writing function that no root reaches is a missed root;
//  2. the sensitivity witnesses of the property (independently seeded changes and the
//     reverse of every repair commit) are replayed as in-memory overlays of the *current*
//     tree and the property's own checker must report them.
func Thorough(prop string, P *core.Program, R *core.Report) {
	cgCrossCheck(P, R)
	runWitnesses(prop, P, R)
}

// ---- 1. call-graph cross-check -------------------------------------------------------

type vtaCache struct {
	Edges []string          `json:"edges"`
	Ext   map[string]string `json:"ext"`
	Funcs int               `json:"funcs"`
}

// treeHash identifies the analysed sources (and the analyser), so that the 50 s VTA build
// is shared between the thorough runs of different properties on one unchanged tree.
func treeHash(dir string) string {
	h := sha256.New()
	var files []string
	for _, sub := range []string{"x", "app", "cmd", "utils", "testutil", "wasmbindings", "api"} {
		filepath.WalkDir(filepath.Join(dir, sub), func(p string, d fs.DirEntry, err error) error {
			if err == nil && !d.IsDir() && strings.HasSuffix(p, ".go") {
				files = append(files, p)
			}
			return nil
		})
	}
	files = append(files, filepath.Join(dir, "go.mod"), filepath.Join(dir, "go.sum"))
	if exe, err := os.Executable(); err == nil {
		files = append(files, exe)
	}
	sort.Strings(files)
	for _, f := range files {
		b, _ := os.ReadFile(f)
		fmt.Fprintf(h, "%s %d\n", f, len(b))
		h.Write(b)
	}
	return hex.EncodeToString(h.Sum(nil))[:24]
}

func vtaEdges(P *core.Program) (*vtaCache, bool, error) {
	cdir := filepath.Join(core.VerifDir(), "out", "cache")
	os.MkdirAll(cdir, 0o755)
	// single flight: concurrent thorough runs wait for one VTA build instead of each
	// holding ~6 GB
	if lf, err := os.OpenFile(filepath.Join(cdir, "vta.lock"), os.O_CREATE|os.O_RDWR, 0o644); err == nil {
		defer lf.Close()
		syscall.Flock(int(lf.Fd()), syscall.LOCK_EX)
		defer syscall.Flock(int(lf.Fd()), syscall.LOCK_UN)
	}
	cf := filepath.Join(cdir, "vta-"+treeHash(P.Dir)+".json")
	if os.Getenv("ELYSLINT_NOCACHE") == "" {
		if b, err := os.ReadFile(cf); err == nil {
			var c vtaCache
			if json.Unmarshal(b, &c) == nil && len(c.Edges) > 0 {
				return &c, true, nil
			}
		}
	}
	edges, ext, nf, err := core.VTAEdgesExt(P.Dir)
	if err != nil {
		return nil, false, err
	}
	c := &vtaCache{Edges: core.SortedKeys(edges), Ext: ext, Funcs: nf}
	runtime.GC()
	if b, err := json.Marshal(c); err == nil {
		old, _ := filepath.Glob(filepath.Join(cdir, "vta-*.json"))
		for _, o := range old {
			os.Remove(o)
		}
		tmp := cf + ".tmp"
		if os.WriteFile(tmp, b, 0o644) == nil {
			os.Rename(tmp, cf)
		}
	}
	return c, false, nil
}

func cgCrossCheck(P *core.Program, R *core.Report) {
	c, cached, err := vtaEdges(P)
	if err != nil {
		R.Undecided("cg-vta", "-", "whole-program load", "-", "VTA cross-check could not be built: "+err.Error())
		return
	}
	if len(c.Edges) < 10000 || c.Funcs < 100000 {
		R.Undecided("cg-vta", "-", "whole-program load", "-", fmt.Sprintf("VTA graph implausibly small (%d Elys edges over %d functions; confirmed by hand: 18722 over 169101): the cross-check would pass vacuously", len(c.Edges), c.Funcs))
		return
	}
	chaSet := P.CHAEdgeSet()
	roots := P.FindRoots()
	reach := P.Reach(roots.All())
	reachKey := map[string]bool{}
	for f := range reach {
		reachKey[P.Key(f)] = true
	}
	// predecessors in repo-CHA by key, and reachability between keys
	byKey := map[string]*ssa.Function{}
	for _, f := range P.Funcs {
		byKey[P.Key(f)] = f
	}
	agree, covered := 0, 0
	for _, e := range c.Edges {
		if chaSet[e] {
			agree++
			continue
		}
		parts := strings.SplitN(e, " → ", 2)
		caller, callee := parts[0], parts[1]
		if !reachKey[caller] {
			continue // caller is not reachable from any analysis root: no rule looks at it
		}
		// repo-CHA models a function value by an edge maker → function at the place the
		// value is created (closure passed to an iterator, sibling closure captured as a
		// free variable).  That is equivalent for every reachability rule provided the
		// invoking function is itself called downstream of the maker.
		cf, tf := byKey[caller], byKey[callee]
		ok := false
		why := "VTA resolves a call that repo-CHA does not: every reachability rule would miss this edge"
		if cf != nil && tf != nil {
			for _, in := range P.CG().In[tf] {
				mk := in.Caller
				if mk == cf || P.Reach([]*ssa.Function{mk})[cf] {
					ok = true
					why = "function value: repo-CHA has the maker edge " + P.Key(mk) + " → " + callee + " and the maker reaches the invoking function"
					break
				}
			}
		}
		if ok {
			covered++
		}
		pos := "-"
		if cf != nil {
			pos = P.Pos(cf.Pos())
		}
		R.Add("cg-vta-edge", caller, "→ "+callee, pos, ok, why)
	}
	// framework entry points: an Elys function with a body, hand written, that may write
	// state and is invoked by code outside the module must be reachable from a root
	mw := P.MayWrite()
	off := offchainEntries()
	var eks []string
	for k := range c.Ext {
		eks = append(eks, k)
	}
	sort.Strings(eks)
	nEntry := 0
	for _, k := range eks {
		f := byKey[k]
		if f == nil || !mw[f] {
			continue
		}
		if core.IsGeneratedOrAux(P.File(f.Pos())) {
			continue
		}
		nEntry++
		if reachKey[k] {
			R.Add("cg-vta-entry", k, "invoked by "+c.Ext[k], P.Pos(f.Pos()), true, "state-writing function invoked by the framework is reachable from an analysis root")
			continue
		}
		reason := ""
		for _, o := range off {
			if o.re.MatchString(k) {
				reason = o.Reason
			}
		}
		R.Add("cg-vta-entry", k, "invoked by "+c.Ext[k], P.Pos(f.Pos()), reason != "",
			"state-writing function invoked by the framework but reachable from no analysis root"+map[bool]string{true: "; off-chain by table: " + reason, false: " and not listed in tables/cg_offchain.json"}[reason != ""])
	}
	R.Analysed["vta_functions"] = c.Funcs
	R.Analysed["vta_elys_edges"] = len(c.Edges)
	R.Analysed["vta_edges_also_in_repo_cha"] = agree
	R.Analysed["vta_edges_covered_by_maker_edge"] = covered
	R.Analysed["vta_framework_entries_checked"] = nEntry
	if cached {
		R.Analysed["vta_from_cache_same_tree_hash"] = 1
	}
}

type offEntry struct {
	Pattern string `json:"pattern"`
	Reason  string `json:"reason"`
	re      *regexp.Regexp
}

func offchainEntries() []offEntry {
	var t struct {
		Entries []offEntry `json:"entries"`
	}
	loadTable("cg_offchain.json", &t)
	for i := range t.Entries {
		t.Entries[i].re = regexp.MustCompile(t.Entries[i].Pattern)
	}
	return t.Entries
}

// ---- 2. sensitivity witnesses ---------------------------------------------------------

type witness struct {
	ID          string   `json:"id"`
	Property    string   `json:"property"`
	Patch       string   `json:"patch"`
	Reverse     bool     `json:"reverse"`
	ExpectRules []string `json:"expect_rules"`
	Kind        string   `json:"kind"`
}

var diffFileRe = regexp.MustCompile(`(?m)^diff --git a/(\S+) b/(\S+)$`)

// OverlayFor applies a unified diff to copies of the files it names (taken from the
// current working tree) in a scratch directory and returns the result as an overlay.
// /repo itself is never written.
func OverlayFor(repo, patchPath string, reverse bool) (map[string][]byte, error) {
	if abs, err := filepath.Abs(patchPath); err == nil {
		patchPath = abs
	}
	pb, err := os.ReadFile(patchPath)
	if err != nil {
		return nil, err
	}
	ms := diffFileRe.FindAllStringSubmatch(string(pb), -1)
	if len(ms) == 0 {
		return nil, fmt.Errorf("no files in patch")
	}
	tmp, err := os.MkdirTemp("", "elyslint-witness-")
	if err != nil {
		return nil, err
	}
	defer os.RemoveAll(tmp)
	var files []string
	for _, m := range ms {
		rel := m[2]
		files = append(files, rel)
		src, err := os.ReadFile(filepath.Join(repo, rel))
		if err != nil {
			continue // file added by the patch
		}
		dst := filepath.Join(tmp, rel)
		os.MkdirAll(filepath.Dir(dst), 0o755)
		if err := os.WriteFile(dst, src, 0o644); err != nil {
			return nil, err
		}
	}
	args := []string{"apply", "--whitespace=nowarn"}
	if reverse {
		args = append(args, "-R")
	}
	args = append(args, patchPath)
	cmd := exec.Command("git", args...)
	cmd.Dir = tmp
	cmd.Env = append(os.Environ(), "GIT_DIR=/nonexistent", "GIT_CEILING_DIRECTORIES="+filepath.Dir(tmp))
	if out, err := cmd.CombinedOutput(); err != nil {
		return nil, fmt.Errorf("does not apply to the current tree: %s", strings.TrimSpace(string(out)))
	}
	ov := map[string][]byte{}
	for _, rel := range files {
		if !strings.HasSuffix(rel, ".go") {
			continue
		}
		b, err := os.ReadFile(filepath.Join(tmp, rel))
		if err != nil {
			return nil, fmt.Errorf("patched file %s missing (deletions are not supported as witnesses)", rel)
		}
		ov[filepath.Join(repo, rel)] = b
	}
	return ov, nil
}

func runWitnesses(prop string, P *core.Program, R *core.Report) {
	var idx []witness
	b, err := os.ReadFile(filepath.Join(core.VerifDir(), "witnesses", "index.json"))
	if err != nil || json.Unmarshal(b, &idx) != nil {
		R.Extra["witness_note"] = "witnesses/index.json unreadable; no sensitivity witnesses replayed"
		return
	}
	killed, survived, stale := 0, 0, 0
	for _, w := range idx {
		if w.Property != prop {
			continue
		}
		res := map[string]any{"id": w.ID, "kind": w.Kind, "patch": w.Patch, "reverse": w.Reverse, "expect_rules": w.ExpectRules}
		ov, err := OverlayFor(P.Dir, filepath.Join(core.VerifDir(), w.Patch), w.Reverse)
		if err != nil {
			stale++
			res["result"] = "stale"
			res["detail"] = err.Error()
			R.Witnesses = append(R.Witnesses, res)
			continue
		}
		P2, err := core.Load(P.Dir, ov)
		if err != nil {
			stale++
			res["result"] = "stale"
			res["detail"] = "variant does not type-check on the current tree: " + err.Error()
			R.Witnesses = append(R.Witnesses, res)
			continue
		}
		R2, _ := Decide(prop, "witness", P2, nil)
		var fired []string
		hit := false
		for _, o := range R2.Violations() {
			fired = append(fired, o.Key())
			for _, er := range w.ExpectRules {
				if o.Rule == er {
					hit = true
				}
			}
		}
		sort.Strings(fired)
		if len(fired) > 6 {
			fired = append(fired[:6], fmt.Sprintf("… %d more", len(fired)-6))
		}
		res["reported"] = fired
		switch {
		case hit:
			killed++
			res["result"] = "reported by the expected rule"
		case len(fired) > 0:
			killed++
			res["result"] = "reported (by a different rule than recorded)"
		default:
			survived++
			res["result"] = "NOT REPORTED"
			fmt.Printf("WITNESS-SURVIVED property=%s witness=%s: the variant type-checks on the current tree and the checker reports nothing (checker self-test, not a property verdict)\n", prop, w.ID)
		}
		R.Witnesses = append(R.Witnesses, res)
		P2, R2 = nil, nil
		runtime.GC()
	}
	R.Analysed["witnesses_reported"] = killed
	R.Analysed["witnesses_not_reported"] = survived
	R.Analysed["witnesses_stale"] = stale
}
