package rules

import (
	"fmt"
	"go/types"
	"strings"

	"elyslint/core"

	"golang.org/x/tools/go/ssa"
)

// Modified ⇒ persisted, across calls (DESIGN §2 R6, rule F3).
//
// A record that lives in a local variable and is changed through a pointer — by the function
// itself or by a callee that receives the pointer — is lost unless it is written back.  For a
// record type T with persister Store the rule computes two summaries per function and pointer
// parameter p *T:
//
//	mutates(f,p)   f may change *p: it stores a field through p, calls a pointer-receiver
//	               method of T that stores fields on p, or hands p to a callee that mutates it;
//	persists(f,p)  every success path of f from any such change reaches Store(*p) or a callee
//	               that persists p.
//
// Obligation, at every call f → g(&L | p) with mutates(g) ∧ ¬persists(g): if the argument is a
// local record L of f, every success path of f after the call reaches Store(L) (or a persisting
// callee); if it is f's own parameter the duty passes to f's callers (f then mutates without
// persisting).  Functions that only estimate on scratch copies are listed with a reason.
type modPersistSpec struct {
	Rule     string
	TypePkg  string // "x/perpetual/types"
	TypeName string // "Pool"
	Store    string // persister key: Store(ctx, T) / Store(ctx, *T)
	Alt      []string // other ways the record legitimately ends: Destroy*(…)
	Subjects map[*ssa.Function]bool
	Scratch  map[string]string
}

func isPtrTo(t types.Type, pkgSuffix, name string) bool {
	p, ok := t.Underlying().(*types.Pointer)
	if !ok {
		return false
	}
	n := core.AsNamed(p.Elem())
	return n != nil && n.Obj().Name() == name && n.Obj().Pkg() != nil && strings.HasSuffix(n.Obj().Pkg().Path(), pkgSuffix)
}

func checkModifiedPersistedX(P *core.Program, R *core.Report, spec modPersistSpec) {
	storeFn := P.Fn(spec.Store)
	if storeFn == nil {
		R.Add(spec.Rule, spec.Store, "persister", "-", false, "unresolved anchor")
		return
	}
	type pref struct {
		fn  *ssa.Function
		idx int
	}
	// the record a value points to: a pointer parameter, or a local alloc of T
	recOf := func(fn *ssa.Function, v ssa.Value) (param int, local *ssa.Alloc) {
		param = -1
		for i, p := range fn.Params {
			if ssa.Value(p) == v {
				return i, nil
			}
		}
		if a, ok := v.(*ssa.Alloc); ok {
			return -1, a
		}
		return -1, nil
	}
	// does an instruction change the record behind pointer ptr directly?
	directMut := func(fn *ssa.Function, in ssa.Instruction, ptr ssa.Value) bool {
		switch x := in.(type) {
		case *ssa.Store:
			base := x.Addr
			for {
				switch a := base.(type) {
				case *ssa.FieldAddr:
					base = a.X
					continue
				case *ssa.IndexAddr:
					base = a.X
					continue
				}
				break
			}
			return base == ptr && x.Addr != ptr
		}
		return false
	}
	// methods of *T that store fields on their receiver (or its elements)
	mutMethod := map[*ssa.Function]bool{}
	for _, fn := range P.Funcs {
		if fn.Signature.Recv() == nil || !isPtrTo(fn.Signature.Recv().Type(), spec.TypePkg, spec.TypeName) || len(fn.Params) == 0 {
			continue
		}
		ff := P.Facts(fn)
		for _, b := range fn.Blocks {
			for _, in := range b.Instrs {
				st, ok := in.(*ssa.Store)
				if !ok {
					continue
				}
				for _, o := range ff.Origins(st.Addr) {
					if o.Kind == "param" && o.Val == ssa.Value(fn.Params[0]) && o.Path != "" {
						mutMethod[fn] = true
					}
				}
			}
		}
	}
	mutates := map[pref]bool{}
	// fixpoint for mutates
	for changed := true; changed; {
		changed = false
		for _, fn := range P.Funcs {
			if core.IsGeneratedOrAux(P.File(fn.Pos())) {
				continue
			}
			for pi, p := range fn.Params {
				if !isPtrTo(p.Type(), spec.TypePkg, spec.TypeName) || mutates[pref{fn, pi}] {
					continue
				}
				m := false
				for _, b := range fn.Blocks {
					for _, in := range b.Instrs {
						if directMut(fn, in, p) {
							m = true
						}
						c, ok := in.(ssa.CallInstruction)
						if !ok {
							continue
						}
						cc := c.Common()
						for ai, a := range cc.Args {
							if a != ssa.Value(p) {
								continue
							}
							ci := ai
							if cc.IsInvoke() {
								ci = ai + 1
							}
							for _, t := range P.Callees(c) {
								if mutates[pref{t, ci}] || (ci == 0 && mutMethod[t]) {
									m = true
								}
							}
						}
					}
				}
				if m {
					mutates[pref{fn, pi}] = true
					changed = true
				}
			}
		}
	}
	// persisting instruction for record (param index or local) in fn
	persistsP := map[pref]bool{}
	for i, p := range storeFn.Params {
		if isPtrTo(p.Type(), spec.TypePkg, spec.TypeName) {
			persistsP[pref{storeFn, i}] = true // the persister persists what it is given
		}
	}
	isPersistOf := func(fn *ssa.Function, ff *core.FuncFacts, in ssa.Instruction, param int, local *ssa.Alloc) bool {
		c, ok := in.(ssa.CallInstruction)
		if !ok {
			return false
		}
		cc := c.Common()
		matchesRec := func(a ssa.Value) bool {
			// the pointer itself, or a load of it
			if u, ok := a.(*ssa.UnOp); ok {
				a = u.X
			}
			if param >= 0 {
				return a == ssa.Value(fn.Params[param])
			}
			return a == ssa.Value(local)
		}
		if calleeMatches(P, c, spec.Store) {
			return matchesRec(cc.Args[len(cc.Args)-1])
		}
		for _, alt := range spec.Alt {
			if calleeMatches(P, c, alt) {
				return true // the record is destroyed: nothing left to write back
			}
		}
		for ai, a := range cc.Args {
			if !matchesRec(a) {
				continue
			}
			ci := ai
			if cc.IsInvoke() {
				ci = ai + 1
			}
			for _, t := range P.Callees(c) {
				if persistsP[pref{t, ci}] {
					return true
				}
			}
		}
		return false
	}
	mutSites := func(fn *ssa.Function, param int, local *ssa.Alloc) []ssa.Instruction {
		var ptr ssa.Value
		if param >= 0 {
			ptr = fn.Params[param]
		} else {
			ptr = local
		}
		var out []ssa.Instruction
		for _, b := range fn.Blocks {
			for _, in := range b.Instrs {
				if param >= 0 && directMut(fn, in, ptr) {
					out = append(out, in)
				}
				c, ok := in.(ssa.CallInstruction)
				if !ok {
					continue
				}
				cc := c.Common()
				for ai, a := range cc.Args {
					if a != ptr {
						continue
					}
					ci := ai
					if cc.IsInvoke() {
						ci = ai + 1
					}
					for _, t := range P.Callees(c) {
						if (mutates[pref{t, ci}] || (ci == 0 && mutMethod[t])) && !persistsP[pref{t, ci}] {
							out = append(out, in)
						}
					}
				}
			}
		}
		return out
	}
	// fixpoint for persists (greatest: start false, grow)
	for changed := true; changed; {
		changed = false
		for k := range mutates {
			if persistsP[k] {
				continue
			}
			fn := k.fn
			ff := P.Facts(fn)
			ok := true
			for _, s := range mutSites(fn, k.idx, nil) {
				if _, esc := ff.SuccessExitReachableWithout(s, func(in ssa.Instruction) bool { return isPersistOf(fn, ff, in, k.idx, nil) }); esc {
					ok = false
				}
			}
			if ok {
				persistsP[k] = true
				changed = true
			}
		}
	}
	// obligations on local records
	n := 0
	for _, fn := range P.Funcs {
		if !spec.Subjects[fn] || core.IsGeneratedOrAux(P.File(fn.Pos())) {
			continue
		}
		key := P.Key(fn)
		if strings.HasSuffix(key, ".InitGenesis") {
			continue
		}
		ff := P.Facts(fn)
		seen := map[*ssa.Alloc]bool{}
		for _, b := range fn.Blocks {
			for _, in := range b.Instrs {
				c, ok := in.(ssa.CallInstruction)
				if !ok {
					continue
				}
				for _, a := range c.Common().Args {
					_, local := recOf(fn, a)
					if local == nil || seen[local] || !isPtrTo(local.Type(), spec.TypePkg, spec.TypeName) {
						continue
					}
					sites := mutSites(fn, -1, local)
					if len(sites) == 0 {
						continue
					}
					seen[local] = true
					n++
					if why, isScratch := spec.Scratch[key]; isScratch {
						R.Add(spec.Rule, key, "scratch "+spec.TypeName+" "+local.Comment, P.Pos(P.InstrPos(sites[0])), true, "listed as estimation on a scratch copy: "+why)
						continue
					}
					bad := ""
					for _, s := range sites {
						if _, esc := ff.SuccessExitReachableWithout(s, func(x ssa.Instruction) bool { return isPersistOf(fn, ff, x, -1, local) }); esc {
							bad = fmt.Sprintf("after %s at %s a success exit is reachable without %s of the changed record", P.CalleeKey(s.(ssa.CallInstruction).Common()), P.Pos(P.InstrPos(s)), spec.Store)
						}
					}
					R.Add(spec.Rule, key, "local "+spec.TypeName+" "+local.Comment+" changed through a callee ⇒ stored", P.Pos(P.InstrPos(sites[0])), bad == "",
						"a record changed through a pointer by a callee that does not store it must be written back on every success path. "+bad)
				}
			}
		}
	}
	R.Analysed[spec.Rule+"_records_checked"] = n
}
