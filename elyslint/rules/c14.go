package rules

import (
	"go/token"

	"elyslint/core"

	"golang.org/x/tools/go/ssa"
)

func init() { register("C14", checkC14) }

// fieldLoad: v is a load of <X>.<field>; returns X.
func fieldLoad(ff *core.FuncFacts, v ssa.Value, field string) (ssa.Value, bool) {
	v = ff.Fwd(v)
	switch x := v.(type) {
	case *ssa.UnOp:
		if x.Op == token.MUL {
			if fa, ok := x.X.(*ssa.FieldAddr); ok && core.FieldName(fa.X.Type(), fa.Field) == field {
				return ff.Fwd(fa.X), true
			}
		}
	case *ssa.Field:
		if core.FieldName(x.X.Type(), x.Field) == field {
			return ff.Fwd(x.X), true
		}
	}
	return nil, false
}

// mathCall: v is a static call of math.Int/Dec method or function `name`; returns args.
func mathCall(ff *core.FuncFacts, v ssa.Value, name string) ([]ssa.Value, *ssa.Call, bool) {
	c, ok := ff.Fwd(v).(*ssa.Call)
	if !ok || c.Common().IsInvoke() || c.Common().StaticCallee() == nil || c.Common().StaticCallee().Name() != name {
		return nil, nil, false
	}
	return c.Common().Args, c, true
}

func checkC14(P *core.Program, R *core.Report) {
	R.Explanation = "Structural sentences of the vesting statement, decided on the five vesting handlers: VestedSoFar computes Total·t/NumBlocks with t clamped to NumBlocks (the φ's NumBlocks edge is taken exactly under elapsed > NumBlocks); " +
		"ClaimVesting builds the payout coin and advances ClaimedAmount to the same VestedSoFar value only under the must-hold fact (vested − claimed) > 0 (sign obligation; F-14 repaired), pays the claims to the sender; " +
		"CancelVest cancels per entry Min(remaining, Total − Claimed) of the same entry, lowers Total and the remaining counter by that same amount, starts from msg.Amount and credits AddClaimed(Eden, msg.Amount) only under remaining == 0; " +
		"ProcessTokenVesting deducts `amount` claimed Eden and creates an entry with TotalAmount = amount, ClaimedAmount = 0, StartBlock = current height on the same success paths; VestNow deducts msg.Amount and pays msg.Amount.Quo(VestNowFactor). " +
		"Linearity, monotonicity and 'never more than total' as numbers over heights are not decided (integer arithmetic over runtime values)."
	checkVestedSoFar(P, R)
	checkClaimVesting(P, R)
	checkCancelVest(P, R)
	checkProcessVesting(P, R)
	checkVestNow(P, R)
}

func checkVestedSoFar(P *core.Program, R *core.Report) {
	const key = "x/commitment/types.VestingTokens.VestedSoFar"
	fn := P.Fn(key)
	if fn == nil {
		R.Add("C14-schedule", key, "function", "-", false, "unresolved anchor")
		return
	}
	ff := P.Facts(fn)
	bad := ""
	n := 0
	for _, ex := range ff.Exits() {
		ret, ok := ex.Instr.(*ssa.Return)
		if !ok || len(ret.Results) != 1 {
			continue
		}
		n++
		// Quo(Mul(Total, NewInt(t)), NewInt(NumBlocks))
		qa, _, ok := mathCall(ff, ret.Results[0], "Quo")
		if !ok || len(qa) != 2 {
			bad = "result is not …Quo(…)"
			continue
		}
		ma, _, ok := mathCall(ff, qa[0], "Mul")
		if !ok || len(ma) != 2 {
			bad = "numerator is not Total.Mul(…)"
			continue
		}
		if _, isT := fieldLoad(ff, ma[0], "TotalAmount"); !isT {
			bad = "numerator does not start from TotalAmount"
		}
		da, _, ok := mathCall(ff, qa[1], "NewInt")
		if !ok || len(da) != 1 {
			bad = "divisor is not NewInt(NumBlocks)"
			continue
		}
		if _, isN := fieldLoad(ff, da[0], "NumBlocks"); !isN {
			bad = "divisor is not NumBlocks"
		}
		ta, _, ok := mathCall(ff, ma[1], "NewInt")
		if !ok || len(ta) != 1 {
			bad = "multiplier is not NewInt(t)"
			continue
		}
		phi, isPhi := ff.Fwd(ta[0]).(*ssa.Phi)
		if !isPhi || len(phi.Edges) != 2 {
			bad = "elapsed blocks are not clamped (no φ of elapsed / NumBlocks)"
			continue
		}
		clampOK, rawOK := false, false
		for i, e := range phi.Edges {
			pred := phi.Block().Preds[i]
			atoms := append(ff.At(pred.Instrs[len(pred.Instrs)-1]), edgeAtoms(ff, pred, phi.Block())...)
			if _, isN := fieldLoad(ff, e, "NumBlocks"); isN {
				// taken only when elapsed > NumBlocks: NumBlocks < elapsed
				for _, a := range atoms {
					if a.Rel == core.LT && a.B != nil {
						if _, l := fieldLoad(ff, a.A, "NumBlocks"); l && isElapsed(ff, a.B) {
							clampOK = true
						}
					}
				}
			} else if isElapsed(ff, e) {
				for _, a := range atoms {
					if a.Rel == core.LE && a.B != nil && isElapsed(ff, a.A) {
						if _, l := fieldLoad(ff, a.B, "NumBlocks"); l {
							rawOK = true
						}
					}
				}
			}
		}
		if !clampOK || !rawOK {
			bad = "the clamp does not select NumBlocks exactly when elapsed > NumBlocks"
		}
	}
	R.Add("C14-schedule", key, "Total·min(elapsed,NumBlocks)/NumBlocks", P.Pos(fn.Pos()), bad == "" && n == 1, "VestedSoFar must follow the clamped linear schedule. "+bad)
}

func edgeAtoms(ff *core.FuncFacts, pred, succ *ssa.BasicBlock) []*core.Atom {
	// facts at the first instruction of succ restricted to this edge are not available
	// directly; use a path query through PathsTo on the successor's first instruction.
	var out []*core.Atom
	if len(succ.Instrs) == 0 {
		return nil
	}
	paths, ok := ff.PathsTo(succ.Instrs[len(succ.Instrs)-1])
	if !ok {
		return nil
	}
	for _, p := range paths {
		if len(p.Blocks) >= 2 && p.Blocks[len(p.Blocks)-2] == pred {
			out = append(out, p.Atoms...)
			break
		}
	}
	return out
}

// isElapsed: BlockHeight() − StartBlock.
func isElapsed(ff *core.FuncFacts, v ssa.Value) bool {
	bo, ok := ff.Fwd(v).(*ssa.BinOp)
	if !ok || bo.Op != token.SUB {
		return false
	}
	_, isStart := fieldLoad(ff, bo.Y, "StartBlock")
	c, isCall := ff.Fwd(bo.X).(*ssa.Call)
	return isStart && isCall && core.CalleeName(c.Common()) == "BlockHeight"
}

func checkClaimVesting(P *core.Program, R *core.Report) {
	const key = "x/commitment/keeper.Keeper.ClaimVesting"
	fn := P.Fn(key)
	if fn == nil {
		R.Add("C14-claim", key, "function", "-", false, "unresolved anchor")
		return
	}
	ff := P.Facts(fn)
	// newClaim = vestedSoFar.Sub(vesting.ClaimedAmount)
	var newClaim *ssa.Call
	var vested ssa.Value
	for _, c := range core.Calls(fn) {
		if args, call, ok := mathCall(ff, c.(ssa.Value), "Sub"); ok && len(args) == 2 {
			if vc, isCall := ff.Fwd(args[0]).(*ssa.Call); isCall && core.CalleeName(vc.Common()) == "VestedSoFar" {
				if _, isClaimed := fieldLoad(ff, args[1], "ClaimedAmount"); isClaimed {
					newClaim, vested = call, vc
				}
			}
		}
	}
	if newClaim == nil {
		R.Add("C14-claim", key, "newClaim = VestedSoFar − ClaimedAmount", P.Pos(fn.Pos()), false, "payout amount is not computed as VestedSoFar(ctx).Sub(ClaimedAmount) (anchor changed)")
		return
	}
	positive := func(in ssa.Instruction) bool {
		for _, a := range ff.At(in) {
			if a.Rel == core.LT && a.A == core.ZeroMarker && ff.Fwd(a.B) == ssa.Value(newClaim) {
				return true
			}
		}
		return false
	}
	// every NewCoin built from newClaim is under newClaim > 0
	nCoin := 0
	for _, c := range core.Calls(fn) {
		if core.CalleeName(c.Common()) != "NewCoin" || len(c.Common().Args) != 2 || ff.Fwd(c.Common().Args[1]) != ssa.Value(newClaim) {
			continue
		}
		nCoin++
		R.Add("C14-claim", key, "payout coin sign", P.Pos(P.InstrPos(c)), positive(c), "sdk.NewCoin(denom, vested − claimed) is only reached when the difference is positive (a partial cancel can make it negative)")
	}
	if nCoin == 0 {
		R.Add("C14-claim", key, "payout coin", P.Pos(fn.Pos()), false, "no payout coin built from the vested − claimed difference (anchor changed)")
	}
	// ClaimedAmount advances to the same vested value, under the same guard
	nSt := 0
	for _, b := range fn.Blocks {
		for _, in := range b.Instrs {
			st, ok := in.(*ssa.Store)
			if !ok {
				continue
			}
			fa, ok := st.Addr.(*ssa.FieldAddr)
			if !ok || core.FieldName(fa.X.Type(), fa.Field) != "ClaimedAmount" || core.NamedName(fa.X.Type()) != "VestingTokens" {
				continue
			}
			nSt++
			R.Add("C14-claim", key, "ClaimedAmount := VestedSoFar", P.Pos(P.InstrPos(in)), ff.Fwd(st.Val) == vested && positive(in),
				"the claimed mark advances to exactly the vested value that was paid, and only when something was paid (never backwards)")
		}
	}
	if nSt != 1 {
		R.Add("C14-claim", key, "ClaimedAmount store", P.Pos(fn.Pos()), false, "expected exactly one update of ClaimedAmount")
	}
	// the claims go to the sender
	for _, c := range core.Calls(fn) {
		if P.EffectOf(c) != core.EffBankSend {
			continue
		}
		from, to, _ := bankEnds(c)
		ok := isModuleAccount(ff, from, "commitment") && ff.AllOrigins(to, signerTransparent, func(o core.Origin) bool {
			return o.Kind == "param" && o.Name == "msg" && o.Path == ".Sender"
		})
		R.Add("C14-claim", key, "payout to msg.Sender", P.Pos(P.InstrPos(c)), ok, "vested tokens are paid from the commitment module to the claimer")
	}
}

func checkCancelVest(P *core.Program, R *core.Report) {
	const key = "x/commitment/keeper.msgServer.CancelVest"
	fn := P.Fn(key)
	if fn == nil {
		R.Add("C14-cancel", key, "function", "-", false, "unresolved anchor")
		return
	}
	ff := P.Facts(fn)
	// cancelAmount = MinInt(remaining, vesting.TotalAmount.Sub(vesting.ClaimedAmount))
	var cancel *ssa.Call
	var remainingPhi ssa.Value
	var entry ssa.Value
	bad := ""
	for _, c := range core.Calls(fn) {
		args, call, ok := mathCall(ff, c.(ssa.Value), "MinInt")
		if !ok || len(args) != 2 {
			continue
		}
		cancel = call
		remainingPhi = ff.Fwd(args[0])
		sa, _, ok := mathCall(ff, args[1], "Sub")
		if !ok || len(sa) != 2 {
			bad = "cap is not Total.Sub(Claimed)"
			continue
		}
		x1, ok1 := fieldLoad(ff, sa[0], "TotalAmount")
		x2, ok2 := fieldLoad(ff, sa[1], "ClaimedAmount")
		if !ok1 || !ok2 || x1 != x2 {
			bad = "cap is not TotalAmount − ClaimedAmount of the same entry"
		}
		entry = x1
	}
	R.Add("C14-cancel", key, "cancelAmount = Min(remaining, Total − Claimed)", P.Pos(fn.Pos()), cancel != nil && bad == "", "per entry at most the not-yet-released part can be cancelled. "+bad)
	if cancel == nil {
		return
	}
	// Total -= cancelAmount (same entry) ; remaining -= cancelAmount ; remaining starts at msg.Amount
	totalOK, remOK, startOK := false, false, false
	for _, b := range fn.Blocks {
		for _, in := range b.Instrs {
			st, ok := in.(*ssa.Store)
			if !ok {
				continue
			}
			if fa, ok := st.Addr.(*ssa.FieldAddr); ok && core.FieldName(fa.X.Type(), fa.Field) == "TotalAmount" && core.NamedName(fa.X.Type()) == "VestingTokens" {
				sa, _, ok := mathCall(ff, st.Val, "Sub")
				if ok && len(sa) == 2 && ff.Fwd(sa[1]) == ssa.Value(cancel) {
					if x, l := fieldLoad(ff, sa[0], "TotalAmount"); l && x == entry && ff.Fwd(fa.X) == entry {
						totalOK = true
					}
				}
			}
		}
	}
	if phi, ok := remainingPhi.(*ssa.Phi); ok {
		for _, e := range phi.Edges {
			if sa, _, ok := mathCall(ff, e, "Sub"); ok && len(sa) == 2 && ff.Fwd(sa[1]) == ssa.Value(cancel) && ff.Fwd(sa[0]) == remainingPhi {
				remOK = true
			}
			if ff.AllOrigins(e, nil, func(o core.Origin) bool { return o.Kind == "param" && o.Name == "msg" && o.Path == ".Amount" }) {
				startOK = true
			}
			if inner, isPhi := ff.Fwd(e).(*ssa.Phi); isPhi {
				for _, e2 := range inner.Edges {
					if sa, _, ok := mathCall(ff, e2, "Sub"); ok && len(sa) == 2 && ff.Fwd(sa[1]) == ssa.Value(cancel) {
						remOK = true
					}
				}
			}
		}
	}
	R.Add("C14-cancel", key, "Total −= cancelAmount", P.Pos(fn.Pos()), totalOK, "the entry's TotalAmount is lowered by exactly the cancelled amount")
	R.Add("C14-cancel", key, "remaining −= cancelAmount from msg.Amount", P.Pos(fn.Pos()), remOK && startOK, "the remaining counter starts at msg.Amount and is lowered by exactly each cancelled amount")
	// AddClaimed(Eden, msg.Amount) only under remaining == 0
	n := 0
	for _, c := range core.Calls(fn) {
		if !calleeMatches(P, c, "x/commitment/types.Commitments.AddClaimed") {
			continue
		}
		n++
		zero := false
		for _, a := range ff.At(c) {
			if a.Rel == core.EQ && a.B == core.ZeroMarker {
				if v := ff.Fwd(a.A); v == remainingPhi || isPhiOf(v, remainingPhi) || isPhiOf(remainingPhi, v) {
					zero = true
				}
			}
		}
		amtOK := false
		if lin := ff.LinOf(c.Common().Args[1]); len(lin) == 1 {
			for t := range lin {
				amtOK = t == "*msg.Amount"
			}
		}
		R.Add("C14-cancel", key, "AddClaimed(Eden, msg.Amount) under remaining == 0", P.Pos(P.InstrPos(c)), zero && amtOK,
			"Eden is returned only when the whole requested amount was cancelled from not-yet-released vesting, and exactly that amount")
	}
	if n != 1 {
		R.Add("C14-cancel", key, "AddClaimed", P.Pos(fn.Pos()), false, "expected exactly one AddClaimed")
	}
}

func isPhiOf(phi, v ssa.Value) bool {
	p, ok := phi.(*ssa.Phi)
	if !ok {
		return false
	}
	for _, e := range p.Edges {
		if e == v {
			return true
		}
	}
	return false
}

func checkProcessVesting(P *core.Program, R *core.Report) {
	const key = "x/commitment/keeper.Keeper.ProcessTokenVesting"
	fn := P.Fn(key)
	if fn == nil {
		R.Add("C14-vest", key, "function", "-", false, "unresolved anchor")
		return
	}
	ff := P.Facts(fn)
	amount := ssa.Value(fn.Params[3])
	var deduct ssa.Instruction
	for _, c := range core.Calls(fn) {
		if calleeMatches(P, c, "x/commitment/keeper.Keeper.DeductClaimed") {
			args := c.Common().Args
			if ff.Fwd(args[len(args)-1]) == amount {
				deduct = c
			}
		}
	}
	total, claimed, start := false, false, false
	var totalSt ssa.Instruction
	for _, b := range fn.Blocks {
		for _, in := range b.Instrs {
			st, ok := in.(*ssa.Store)
			if !ok {
				continue
			}
			fa, ok := st.Addr.(*ssa.FieldAddr)
			if !ok || core.NamedName(fa.X.Type()) != "VestingTokens" {
				continue
			}
			switch core.FieldName(fa.X.Type(), fa.Field) {
			case "TotalAmount":
				total = ff.Fwd(st.Val) == amount
				totalSt = in
			case "ClaimedAmount":
				claimed = ff.LinOf(st.Val).IsZero()
			case "StartBlock":
				if c, ok := ff.Fwd(st.Val).(*ssa.Call); ok && core.CalleeName(c.Common()) == "BlockHeight" {
					start = true
				}
			}
		}
	}
	paired := deduct != nil && totalSt != nil && sameControl(ff, deduct, totalSt)
	R.Add("C14-vest", key, "DeductClaimed(amount) ↔ entry{Total: amount, Claimed: 0, Start: now}", P.Pos(fn.Pos()), total && claimed && start && paired,
		"the Eden put into vesting equals the new entry's total; the entry starts unclaimed at the current height; both on the same success paths")
	// persisted
	_, escapes := ff.SuccessExitReachableWithout(nil, func(in ssa.Instruction) bool {
		c, ok := in.(ssa.CallInstruction)
		return ok && calleeMatches(P, c, "x/commitment/keeper.Keeper.SetCommitments")
	})
	R.Add("C14-vest", key, "SetCommitments on every success path", P.Pos(fn.Pos()), !escapes, "the new entry must be stored")
}

func checkVestNow(P *core.Program, R *core.Report) {
	const key = "x/commitment/keeper.msgServer.VestNow"
	fn := P.Fn(key)
	if fn == nil {
		R.Add("C14-vest-now", key, "function", "-", false, "unresolved anchor")
		return
	}
	ff := P.Facts(fn)
	isMsgAmount := func(v ssa.Value) bool {
		return ff.AllOrigins(v, nil, func(o core.Origin) bool { return o.Kind == "param" && o.Name == "msg" && o.Path == ".Amount" })
	}
	deductOK, payOK := false, false
	for _, c := range core.Calls(fn) {
		if calleeMatches(P, c, "x/commitment/keeper.Keeper.DeductClaimed") {
			args := c.Common().Args
			deductOK = isMsgAmount(args[len(args)-1])
		}
		if P.EffectOf(c) == core.EffBankSend {
			_, _, coins := bankEnds(c)
			denoms, whole := coinDenomValues(ff, coins)
			_ = denoms
			if len(whole) == 0 {
				// find the NewCoin amount
				v := ff.Fwd(coins)
				var els []ssa.Value
				if call, ok := v.(*ssa.Call); ok && core.CalleeName(call.Common()) == "NewCoins" {
					els, _ = core.SliceLiteral(ff.Fwd(call.Common().Args[0]))
				} else {
					els, _ = core.SliceLiteral(v)
				}
				if len(els) == 1 {
					if nc, ok := ff.Fwd(els[0]).(*ssa.Call); ok && core.CalleeName(nc.Common()) == "NewCoin" {
						if qa, _, ok := mathCall(ff, nc.Common().Args[1], "Quo"); ok && len(qa) == 2 && isMsgAmount(qa[0]) {
							if _, isF := fieldLoad(ff, qa[1], "VestNowFactor"); isF {
								payOK = true
							}
						}
					}
				}
			}
		}
	}
	R.Add("C14-vest-now", key, "deduct msg.Amount ↔ pay msg.Amount.Quo(VestNowFactor)", P.Pos(fn.Pos()), deductOK && payOK, "vest-now pays exactly amount divided by the configured factor for the amount deducted")
}
