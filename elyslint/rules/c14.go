package rules

import (
	"os"
	"fmt"
	"strings"
	"math/big"
	"go/token"

	"elyslint/core"

	"golang.org/x/tools/go/ssa"
)

func init() { register("C14", checkC14) }

// fieldLoad: v is a load of <X>.<field>; returns X.
func fieldLoad(ff *core.FuncFacts, v ssa.Value, field string) (ssa.Value, bool) {
	v = ff.Fwd(v)
	switch x := v.(type) {
	case *ssa.UnOp:
		if x.Op == token.MUL {
			if fa, ok := x.X.(*ssa.FieldAddr); ok && core.FieldName(fa.X.Type(), fa.Field) == field {
				return ff.Fwd(fa.X), true
			}
		}
	case *ssa.Field:
		if core.FieldName(x.X.Type(), x.Field) == field {
			return ff.Fwd(x.X), true
		}
	}
	return nil, false
}

// mathCall: v is a static call of math.Int/Dec method or function `name`; returns args.
func mathCall(ff *core.FuncFacts, v ssa.Value, name string) ([]ssa.Value, *ssa.Call, bool) {
	c, ok := ff.Fwd(v).(*ssa.Call)
	if !ok || c.Common().IsInvoke() || c.Common().StaticCallee() == nil || c.Common().StaticCallee().Name() != name {
		return nil, nil, false
	}
	return c.Common().Args, c, true
}

func checkC14(P *core.Program, R *core.Report) {
	defer checkConfigApplied(P, R)
	R.Explanation = "Structural sentences of the vesting statement, decided on the five vesting handlers: VestedSoFar computes Total·t/NumBlocks with t clamped to NumBlocks (the φ's NumBlocks edge is taken exactly under elapsed > NumBlocks); " +
		"ClaimVesting builds the payout coin and advances ClaimedAmount to the same VestedSoFar value only under the must-hold fact (vested − claimed) > 0 (sign obligation; F-14 repaired), pays the claims to the sender; " +
		"CancelVest cancels per entry Min(remaining, Total − Claimed) of the same entry, lowers Total and the remaining counter by that same amount, starts from msg.Amount and credits AddClaimed(Eden, msg.Amount) only under remaining == 0; " +
		"ProcessTokenVesting deducts `amount` claimed Eden and creates an entry with TotalAmount = amount, ClaimedAmount = 0, StartBlock = current height on the same success paths; VestNow deducts msg.Amount and pays msg.Amount.Quo(VestNowFactor). " +
		"Linearity, monotonicity and 'never more than total' as numbers over heights are not decided (integer arithmetic over runtime values)."
	checkVestedSoFar(P, R)
	checkClaimVesting(P, R)
	checkCancelVest(P, R)
	checkProcessVesting(P, R)
	checkVestNow(P, R)
	checkEntryKept(P, R)
	checkScheduleWriters(P, R)
}

// checkScheduleWriters (who-may-write): the parameters of a running schedule — its length,
// its start and its denom — are fixed when the entry is created.  VestedSoFar is linear in
// (height − StartBlock)/NumBlocks, so a later writer of NumBlocks or StartBlock (a cancel that
// "keeps the release rate", a top-up that restarts the clock) changes what has been released
// at a given height: releases stop being linear or run ahead of the schedule.  Every store
// to these fields in consensus code goes into an entry created in the same function.
func checkScheduleWriters(P *core.Program, R *core.Report) {
	subjects := P.Reach(P.FindRoots().Consensus())
	n := 0
	for _, fn := range P.Funcs {
		if !subjects[fn] || core.IsGeneratedOrAux(P.File(fn.Pos())) || strings.HasSuffix(P.Key(fn), ".InitGenesis") {
			continue
		}
		for _, b := range fn.Blocks {
			for _, in := range b.Instrs {
				st, ok := in.(*ssa.Store)
				if !ok {
					continue
				}
				fa, ok := st.Addr.(*ssa.FieldAddr)
				if !ok || core.NamedName(fa.X.Type()) != "VestingTokens" {
					continue
				}
				f := core.FieldName(fa.X.Type(), fa.Field)
				if f != "NumBlocks" && f != "StartBlock" && f != "Denom" {
					continue
				}
				_, fresh := fa.X.(*ssa.Alloc)
				n++
				R.Add("C14-schedule-writers", P.Key(fn), "writes VestingTokens."+f, P.Pos(P.InstrPos(in)), fresh,
					"length, start and denom of a vesting entry are written only when the entry is created (an entry allocated in the same function)")
			}
		}
	}
	if n == 0 {
		R.Add("C14-schedule-writers", "-", "no writer of the schedule parameters found", "-", false, "expected the creating writer in ProcessTokenVesting (anchor changed)")
	}
}

func checkVestedSoFar(P *core.Program, R *core.Report) {
	const key = "x/commitment/types.VestingTokens.VestedSoFar"
	fn := P.Fn(key)
	if fn == nil {
		R.Add("C14-schedule", key, "function", "-", false, "unresolved anchor")
		return
	}
	ff := P.Facts(fn)
	bad := ""
	n := 0
	// the result, in polynomial normal form with the clamp recognised as Min, must be
	// ⌊Total · Min(height − StartBlock, NumBlocks) / NumBlocks⌋ — in whatever spelling
	role := func(_ string, v ssa.Value) (string, bool) {
		if v == nil {
			return "", false
		}
		v = ff.Fwd(v)
		for _, f := range [][2]string{{"TotalAmount", "TOTAL"}, {"NumBlocks", "N"}, {"StartBlock", "START"}} {
			if _, is := fieldLoad(ff, v, f[0]); is {
				return f[1], true
			}
		}
		if c, ok := v.(*ssa.Call); ok && core.CalleeName(c.Common()) == "BlockHeight" {
			return "HEIGHT", true
		}
		return "", false
	}
	want := core.ParseExpr("Trunc(TOTAL*Min(HEIGHT-START,N)/N)")
	for _, ex := range ff.Exits() {
		ret, ok := ex.Instr.(*ssa.Return)
		if !ok || len(ret.Results) != 1 {
			continue
		}
		n++
		p, okR := ff.PolyOf(ret.Results[0]).Rename(role)
		if !okR || !p.Equal(want) {
			bad = "result is " + p.String()
		}
	}
	R.Add("C14-schedule", key, "Total·min(elapsed,NumBlocks)/NumBlocks", P.Pos(fn.Pos()), bad == "" && n == 1, "VestedSoFar must follow the clamped linear schedule. "+bad)
}

// edgeAtoms: what the branch taken from pred to succ adds to the facts at the end of pred
// (must-hold facts only; atoms collected along one particular path are not facts).
func edgeAtoms(ff *core.FuncFacts, pred, succ *ssa.BasicBlock) []*core.Atom {
	return ff.EdgeFacts(pred, succ)
}

// isElapsed: BlockHeight() − StartBlock.
func isElapsed(ff *core.FuncFacts, v ssa.Value) bool {
	bo, ok := ff.Fwd(v).(*ssa.BinOp)
	if !ok || bo.Op != token.SUB {
		return false
	}
	_, isStart := fieldLoad(ff, bo.Y, "StartBlock")
	c, isCall := ff.Fwd(bo.X).(*ssa.Call)
	return isStart && isCall && core.CalleeName(c.Common()) == "BlockHeight"
}

func checkClaimVesting(P *core.Program, R *core.Report) {
	const key = "x/commitment/keeper.Keeper.ClaimVesting"
	fn := P.Fn(key)
	if fn == nil {
		R.Add("C14-claim", key, "function", "-", false, "unresolved anchor")
		return
	}
	ff := P.Facts(fn)
	// newClaim = vestedSoFar.Sub(vesting.ClaimedAmount)
	var newClaim *ssa.Call
	var vested ssa.Value
	for _, c := range core.Calls(fn) {
		if args, call, ok := mathCall(ff, c.(ssa.Value), "Sub"); ok && len(args) == 2 {
			if vc, isCall := ff.Fwd(args[0]).(*ssa.Call); isCall && core.CalleeName(vc.Common()) == "VestedSoFar" {
				if _, isClaimed := fieldLoad(ff, args[1], "ClaimedAmount"); isClaimed {
					newClaim, vested = call, vc
				}
			}
		}
	}
	if newClaim == nil {
		R.Add("C14-claim", key, "newClaim = VestedSoFar − ClaimedAmount", P.Pos(fn.Pos()), false, "payout amount is not computed as VestedSoFar(ctx).Sub(ClaimedAmount) (anchor changed)")
		return
	}
	ncArgs := newClaim.Common().Args
	positive := func(in ssa.Instruction) bool {
		for _, a := range ff.At(in) {
			if a.Rel == core.LT && a.A == core.ZeroMarker && ff.Fwd(a.B) == ssa.Value(newClaim) {
				return true
			}
			// the same fact spelled on the operands: claimed < vested
			if a.Rel == core.LT && a.B != nil && len(ncArgs) == 2 && ff.Fwd(a.B) == ff.Fwd(ncArgs[0]) {
				if _, isClaimed := fieldLoad(ff, a.A, "ClaimedAmount"); isClaimed {
					return true
				}
			}
		}
		return false
	}
	// every NewCoin built from newClaim is under newClaim > 0
	nCoin := 0
	for _, c := range core.Calls(fn) {
		if core.CalleeName(c.Common()) != "NewCoin" || len(c.Common().Args) != 2 || ff.Fwd(c.Common().Args[1]) != ssa.Value(newClaim) {
			continue
		}
		nCoin++
		R.Add("C14-claim", key, "payout coin sign", P.Pos(P.InstrPos(c)), positive(c), "sdk.NewCoin(denom, vested − claimed) is only reached when the difference is positive (a partial cancel can make it negative)")
	}
	if nCoin == 0 {
		R.Add("C14-claim", key, "payout coin", P.Pos(fn.Pos()), false, "no payout coin built from the vested − claimed difference (anchor changed)")
	}
	// ClaimedAmount advances to the same vested value, under the same guard
	nSt := 0
	for _, b := range fn.Blocks {
		for _, in := range b.Instrs {
			st, ok := in.(*ssa.Store)
			if !ok {
				continue
			}
			fa, ok := st.Addr.(*ssa.FieldAddr)
			if !ok || core.FieldName(fa.X.Type(), fa.Field) != "ClaimedAmount" || core.NamedName(fa.X.Type()) != "VestingTokens" {
				continue
			}
			nSt++
			R.Add("C14-claim", key, "ClaimedAmount := VestedSoFar", P.Pos(P.InstrPos(in)), ff.Fwd(st.Val) == vested && positive(in),
				"the claimed mark advances to exactly the vested value that was paid, and only when something was paid (never backwards)")
		}
	}
	if nSt != 1 {
		R.Add("C14-claim", key, "ClaimedAmount store", P.Pos(fn.Pos()), false, "expected exactly one update of ClaimedAmount")
	}
	// the accumulator of the payout coins: the Coins.Add call that takes a payout coin, and the
	// φs that carry it round the loop and across the guard
	acc := map[ssa.Value]bool{}
	for _, c := range core.Calls(fn) {
		if core.CalleeName(c.Common()) != "Add" || len(c.Common().Args) < 2 {
			continue
		}
		takes := false
		for _, a := range c.Common().Args[1:] {
			els, ok := core.SliceLiteral(ff.Fwd(a))
			if !ok {
				els = []ssa.Value{a}
			}
			for _, e := range els {
				if nc, ok := ff.Fwd(e).(*ssa.Call); ok && core.CalleeName(nc.Common()) == "NewCoin" && len(nc.Common().Args) == 2 && ff.Fwd(nc.Common().Args[1]) == ssa.Value(newClaim) {
					takes = true
				}
			}
		}
		if takes {
			acc[c.(ssa.Value)] = true
		}
	}
	for changed := true; changed; {
		changed = false
		for _, b := range fn.Blocks {
			for _, in := range b.Instrs {
				ph, ok := in.(*ssa.Phi)
				if !ok || acc[ph] {
					continue
				}
				for _, e := range ph.Edges {
					if acc[e] || acc[ff.Fwd(e)] {
						acc[ph] = true
						changed = true
					}
				}
			}
		}
	}
	isAcc := func(v ssa.Value) bool { return v != nil && (acc[v] || acc[ff.Fwd(v)]) }
	// the claims go to the sender
	var sends []ssa.Instruction
	for _, c := range core.Calls(fn) {
		if P.EffectOf(c) != core.EffBankSend {
			continue
		}
		from, to, coins := bankEnds(c)
		ok := isModuleAccount(ff, from, "commitment") && ff.AllOrigins(to, signerTransparent, func(o core.Origin) bool {
			return o.Kind == "param" && o.Name == "msg" && o.Path == ".Sender"
		})
		R.Add("C14-claim", key, "payout to msg.Sender", P.Pos(P.InstrPos(c)), ok, "vested tokens are paid from the commitment module to the claimer")
		if len(acc) > 0 {
			R.Add("C14-claim", key, "payout is the accumulated claims", P.Pos(P.InstrPos(c)), isAcc(coins),
				"the coins sent are the very sum of the per-schedule payouts whose ClaimedAmount was advanced — not a projection of it (one denom) or another value")
			if isAcc(coins) {
				sends = append(sends, c)
			}
		}
	}
	// the native token is minted for exactly the native part of what is paid, once: the mint's
	// amount is AmountOf(denom) of the accumulated claims and the mint is not repeated per entry
	if len(acc) > 0 {
		for _, c := range core.Calls(fn) {
			if P.EffectOf(c) != core.EffMint {
				continue
			}
			args := c.Common().Args
			coins := ff.Fwd(args[len(args)-1])
			okAmt := false
			els, isLit := core.SliceLiteral(coins)
			if isLit && len(els) == 1 {
				if nc, ok := ff.Fwd(els[0]).(*ssa.Call); ok && core.CalleeName(nc.Common()) == "NewCoin" && len(nc.Common().Args) == 2 {
					if ao, ok := ff.Fwd(nc.Common().Args[1]).(*ssa.Call); ok && core.CalleeName(ao.Common()) == "AmountOf" && len(ao.Common().Args) == 2 && isAcc(ao.Common().Args[0]) {
						okAmt = true
					}
				}
			}
			if isAcc(coins) {
				okAmt = true
			}
			// or the native coin looked up in the accumulated claims: acc.Find(native) (its coin)
			if !okAmt {
				var cand []ssa.Value
				if isLit {
					cand = els
				} else if nc, ok := coins.(*ssa.Call); ok && core.CalleeName(nc.Common()) == "NewCoins" && len(nc.Common().Args) == 1 {
					if e2, ok := core.SliceLiteral(ff.Fwd(nc.Common().Args[0])); ok {
						cand = e2
					} else {
						cand = []ssa.Value{nc.Common().Args[0]}
					}
				}
				if len(cand) == 1 {
					if ex, ok := ff.Fwd(cand[0]).(*ssa.Extract); ok && ex.Index == 1 {
						if fc, ok := ex.Tuple.(*ssa.Call); ok && core.CalleeName(fc.Common()) == "Find" && len(fc.Common().Args) == 2 && isAcc(fc.Common().Args[0]) {
							okAmt = true
						}
					}
				}
			}
			// or a separate running sum of the native per-entry payouts: Σ newClaim over the
			// entries whose denom is the native constant (≡ AmountOf(native) of the claims)
			if !okAmt && isLit && len(els) == 1 {
				if nc, ok := ff.Fwd(els[0]).(*ssa.Call); ok && core.CalleeName(nc.Common()) == "NewCoin" && len(nc.Common().Args) == 2 {
					okAmt = nativeRunningSum(ff, nc.Common().Args[1], newClaim, map[ssa.Value]bool{})
				}
			}
			_, again := core.ReachesWithout(fn, c, func(in ssa.Instruction) bool { return in == ssa.Instruction(c) }, nil)
			why := ""
			if again {
				why = "the mint can be executed more than once per claim (it lies in a loop) while the payout is made once"
			} else if !okAmt {
				why = "the minted amount is not the native part of the accumulated claims"
			}
			R.Add("C14-claim", key, "mint = native part of the payout, once", P.Pos(P.InstrPos(c)), okAmt && !again,
				"native tokens are created only for what this claim pays out. "+why)
		}
	}
	// everything booked as claimed is sent: a success exit is reached without the send only
	// where the accumulated claims are known to be empty / not positive
	if len(acc) > 0 {
		isSend := func(in ssa.Instruction) bool {
			for _, s := range sends {
				if s == in {
					return true
				}
			}
			return false
		}
		kinds := map[ssa.Instruction]core.ExitKind{}
		for _, e := range ff.Exits() {
			kinds[e.Instr] = e.Kind
		}
		x, esc := reachesPruned(ff, nil, func(in ssa.Instruction) bool {
			k, ok := kinds[in]
			return ok && (k == core.ExitSuccess || k == core.ExitBoth)
		}, isSend, func(a *core.Atom) bool {
			switch {
			case (a.Rel == core.LE || a.Rel == core.EQ) && a.B == core.ZeroMarker && isAcc(a.A):
				return true // ¬IsAllPositive / IsZero
			case a.Rel == core.TRUE:
				if c, ok := ff.Fwd(a.A).(*ssa.Call); ok && (core.CalleeName(c.Common()) == "Empty" || core.CalleeName(c.Common()) == "IsZero") && len(c.Common().Args) == 1 && isAcc(c.Common().Args[0]) {
					return true
				}
			case a.Rel == core.FALSE:
				if c, ok := ff.Fwd(a.A).(*ssa.Call); ok && (core.CalleeName(c.Common()) == "IsAllPositive") && len(c.Common().Args) == 1 && isAcc(c.Common().Args[0]) {
					return true
				}
			}
			return false
		})
		why := ""
		if esc {
			why = "a success exit at " + P.Pos(P.InstrPos(x)) + " is reachable without the payout although the accumulated claims may be positive"
		}
		R.Add("C14-claim", key, "claimed ⇒ sent", P.Pos(fn.Pos()), !esc && len(sends) > 0, "every success path on which something was booked as claimed passes the payout of the accumulated claims. "+why)
	}
}

func checkCancelVest(P *core.Program, R *core.Report) {
	const key = "x/commitment/keeper.msgServer.CancelVest"
	fn := P.Fn(key)
	if fn == nil {
		R.Add("C14-cancel", key, "function", "-", false, "unresolved anchor")
		return
	}
	ff := P.Facts(fn)
	// (1) the per-entry cancelled amount c: the amount an entry's TotalAmount is lowered by
	var cancelP *core.Poly
	var cancelAt ssa.Instruction
	bad := ""
	for _, b := range fn.Blocks {
		for _, in := range b.Instrs {
			st, ok := in.(*ssa.Store)
			if !ok {
				continue
			}
			fa, ok := st.Addr.(*ssa.FieldAddr)
			if !ok || core.FieldName(fa.X.Type(), fa.Field) != "TotalAmount" || core.NamedName(fa.X.Type()) != "VestingTokens" {
				continue
			}
			var oldLoad ssa.Value
			ff.LeafKey = func(v ssa.Value) (string, bool) {
				if ld, ok := v.(*ssa.UnOp); ok && ld.Op == token.MUL && sameLocation(ff, ld.X, fa) && oldLoad == nil {
					oldLoad = v
				}
				return "", false
			}
			whole := ff.PolyOf(st.Val)
			ff.LeafKey = nil
			if oldLoad == nil {
				bad = "TotalAmount is overwritten, not lowered"
				continue
			}
			oldP := ff.PolyOf(oldLoad)
			cancelP = oldP.Sub(whole)
			if whole.Sub(oldP).Add(cancelP).IsZero() == false || len(oldP.T) != 1 {
				bad = "TotalAmount is overwritten, not lowered"
				continue
			}
			for m := range oldP.T {
				if c, has := whole.T[m]; !has || c.Cmp(big.NewRat(1, 1)) != 0 {
					bad = "TotalAmount is overwritten, not lowered"
				}
			}
			cancelAt = in
			// the cancelled amount is Min(anything, TotalAmount − ClaimedAmount) of this very entry
			capOK := false
			for k := range cancelP.T {
				if oq := cancelP.Opq[k]; oq != nil && oq.Op == "Min" && len(cancelP.T) == 1 {
					for _, a := range oq.Args {
						ra, okR := a.Rename(func(_ string, v ssa.Value) (string, bool) {
							if v == nil {
								return "", false
							}
							if x, l := fieldLoad(ff, v, "TotalAmount"); l && x == ff.Fwd(fa.X) {
								return "TOTAL", true
							}
							if x, l := fieldLoad(ff, v, "ClaimedAmount"); l && x == ff.Fwd(fa.X) {
								return "CLAIMED", true
							}
							return "", false
						})
						if okR && ra.Equal(core.ParsePoly("TOTAL - CLAIMED")) {
							capOK = true
						}
					}
				}
			}
			R.Add("C14-cancel", key, "cancelAmount = Min(·, Total − Claimed)", P.Pos(P.InstrPos(in)), capOK,
				"per entry at most the not-yet-released part (TotalAmount − ClaimedAmount of the same entry) can be cancelled; TotalAmount is lowered by "+cancelP.String())
		}
	}
	if cancelP == nil {
		R.Add("C14-cancel", key, "Total −= cancelAmount", P.Pos(fn.Pos()), false, "no entry's TotalAmount is lowered (anchor changed). "+bad)
		return
	}
	R.Add("C14-cancel", key, "Total −= cancelAmount", P.Pos(P.InstrPos(cancelAt)), bad == "", "the entry's TotalAmount is lowered by exactly the cancelled amount. "+bad)
	// (2) the Eden credited back equals Σ cancelled amounts, modulo the equalities that hold
	// where it is credited (remaining == 0 with remaining = msg.Amount − Σ cancelled)
	// the SSA value of the per-entry cancelled amount
	var cancelV ssa.Value
	if len(cancelP.T) == 1 {
		for m, c := range cancelP.T {
			if c.Cmp(big.NewRat(1, 1)) == 0 {
				cancelV = cancelP.Leaf[m]
			}
		}
	}
	// isSumOfCancel: the opaque leaf k of p is Σ over the loop of exactly that value
	isSumOfCancel := func(p *core.Poly, k string) bool {
		oq := p.Opq[k]
		if oq == nil || !strings.HasPrefix(oq.Op, "Sum@") || len(oq.Args) != 1 || len(oq.Args[0].T) != 1 || cancelV == nil {
			return false
		}
		for m, c := range oq.Args[0].T {
			if c.Cmp(big.NewRat(1, 1)) == 0 && oq.Args[0].Leaf[m] != nil && ff.Fwd(oq.Args[0].Leaf[m]) == ff.Fwd(cancelV) {
				return true
			}
		}
		return false
	}
	n := 0
	credit := func(at ssa.Instruction, coin ssa.Value) {
		n++
		amt := ff.PolyOf(coin)
		ok := false
		detail := "credited " + amt.String()
		// direct: credited == Σ c
		if len(amt.T) == 1 {
			for k, c := range amt.T {
				if c.Cmp(big.NewRat(1, 1)) == 0 && isSumOfCancel(amt, k) {
					ok = true
				}
			}
		}
		// through an equality fact E == 0 with E = credited − Σ c (up to sign)
		for _, a := range ff.At(at) {
			if ok || a.Rel != core.EQ || a.A == nil || a.B == nil || a.B == core.NilMarker {
				continue
			}
			var e *core.Poly
			switch {
			case a.B == core.ZeroMarker && core.IsMathType(a.A.Type()):
				e = ff.PolyOf(a.A)
			case a.A == core.ZeroMarker && core.IsMathType(a.B.Type()):
				e = ff.PolyOf(a.B)
			case a.A != core.ZeroMarker && a.B != core.ZeroMarker && core.IsMathType(a.A.Type()) && core.IsMathType(a.B.Type()):
				e = ff.PolyOf(a.A).Sub(ff.PolyOf(a.B))
			default:
				continue
			}
			if os.Getenv("ELYSLINT_POLY_DEBUG") != "" {
				fmt.Fprintf(os.Stderr, "c14 credit fact %s: e=%s credited=%s\n", ff.AtomString(a), e, amt)
			}
			// e == ±(credited − Σ c): remove the Σ c term and compare the rest with ±credited
			for k, c := range e.T {
				if !isSumOfCancel(e, k) {
					continue
				}
				rest := e.Clone()
				delete(rest.T, k)
				switch {
				case c.Cmp(big.NewRat(-1, 1)) == 0 && rest.Equal(amt):
					ok = true
				case c.Cmp(big.NewRat(1, 1)) == 0 && rest.Equal(amt.Neg()):
					ok = true
				}
				if ok {
					detail += "; fact " + ff.AtomString(a)
				}
			}
		}
		R.Add("C14-cancel", key, "Eden credited = Σ cancelled", P.Pos(P.InstrPos(at)), ok,
			"Eden is returned only in the amount that was cancelled from not-yet-released vesting (directly, or msg.Amount under remaining == 0 with remaining = msg.Amount − Σ cancelled). "+detail)
	}
	for _, c := range core.Calls(fn) {
		if calleeMatches(P, c, "x/commitment/types.Commitments.AddClaimed") {
			credit(c, c.Common().Args[1])
		}
	}
	for _, b := range fn.Blocks {
		for _, in := range b.Instrs {
			st, ok := in.(*ssa.Store)
			if !ok {
				continue
			}
			if fa, ok := st.Addr.(*ssa.FieldAddr); ok && core.FieldName(fa.X.Type(), fa.Field) == "Claimed" && core.NamedName(fa.X.Type()) == "Commitments" {
				// Claimed = Claimed.Add(coin…)
				if args, _, isAdd := coinsCall(ff, st.Val, "Add"); isAdd && len(args) == 2 {
					credit(in, args[1])
				}
			}
		}
	}
	if n != 1 {
		R.Add("C14-cancel", key, "credit", P.Pos(fn.Pos()), false, "expected exactly one credit of claimed Eden")
	}
}

// coinsCall: v is a static call of an sdk.Coins method `name`; returns args.
func coinsCall(ff *core.FuncFacts, v ssa.Value, name string) ([]ssa.Value, *ssa.Call, bool) {
	c, ok := ff.Fwd(v).(*ssa.Call)
	if !ok || c.Common().IsInvoke() || c.Common().StaticCallee() == nil || c.Common().StaticCallee().Name() != name {
		return nil, nil, false
	}
	return c.Common().Args, c, true
}

func isPhiOf(phi, v ssa.Value) bool {
	p, ok := phi.(*ssa.Phi)
	if !ok {
		return false
	}
	for _, e := range p.Edges {
		if e == v {
			return true
		}
	}
	return false
}

func checkProcessVesting(P *core.Program, R *core.Report) {
	const key = "x/commitment/keeper.Keeper.ProcessTokenVesting"
	fn := P.Fn(key)
	if fn == nil {
		R.Add("C14-vest", key, "function", "-", false, "unresolved anchor")
		return
	}
	ff := P.Facts(fn)
	amount := ssa.Value(fn.Params[3])
	var deduct ssa.Instruction
	for _, c := range core.Calls(fn) {
		if calleeMatches(P, c, "x/commitment/keeper.Keeper.DeductClaimed") {
			args := c.Common().Args
			if ff.Fwd(args[len(args)-1]) == amount {
				deduct = c
			}
		}
		// or directly on the loaded record: commitments.SubClaimed(NewCoin(denom, amount))
		if calleeMatches(P, c, "x/commitment/types.Commitments.SubClaimed") {
			args := c.Common().Args
			if p := ff.PolyOf(args[len(args)-1]); p.Equal(ff.PolyOf(amount)) {
				deduct = c
			}
		}
	}
	total, claimed, start := false, false, false
	var totalSt ssa.Instruction
	for _, b := range fn.Blocks {
		for _, in := range b.Instrs {
			st, ok := in.(*ssa.Store)
			if !ok {
				continue
			}
			fa, ok := st.Addr.(*ssa.FieldAddr)
			if !ok || core.NamedName(fa.X.Type()) != "VestingTokens" {
				continue
			}
			switch core.FieldName(fa.X.Type(), fa.Field) {
			case "TotalAmount":
				total = ff.Fwd(st.Val) == amount
				totalSt = in
			case "ClaimedAmount":
				claimed = ff.LinOf(st.Val).IsZero()
			case "StartBlock":
				if c, ok := ff.Fwd(st.Val).(*ssa.Call); ok && core.CalleeName(c.Common()) == "BlockHeight" {
					start = true
				}
			}
		}
	}
	paired := deduct != nil && totalSt != nil && sameControl(ff, deduct, totalSt)
	R.Add("C14-vest", key, "DeductClaimed(amount) ↔ entry{Total: amount, Claimed: 0, Start: now}", P.Pos(fn.Pos()), total && claimed && start && paired,
		"the Eden put into vesting equals the new entry's total; the entry starts unclaimed at the current height; both on the same success paths")
	// persisted
	_, escapes := ff.SuccessExitReachableWithout(nil, func(in ssa.Instruction) bool {
		c, ok := in.(ssa.CallInstruction)
		return ok && calleeMatches(P, c, "x/commitment/keeper.Keeper.SetCommitments")
	})
	R.Add("C14-vest", key, "SetCommitments on every success path", P.Pos(fn.Pos()), !escapes, "the new entry must be stored")
	// every schedule total written here is the amount put into vesting on a NEW entry, and the
	// record that is stored is the one the Eden was deducted from (DeductClaimed returns the
	// modified copy; storing the copy loaded before it keeps the Eden and the schedule both)
	var deducts []ssa.Value
	for _, c := range core.Calls(fn) {
		if calleeMatches(P, c, "x/commitment/keeper.Keeper.DeductClaimed") || calleeMatches(P, c, "x/commitment/types.Commitments.SubClaimed") {
			deducts = append(deducts, c.(ssa.Value))
		}
	}
	for _, b := range fn.Blocks {
		for _, in := range b.Instrs {
			st, ok := in.(*ssa.Store)
			if !ok {
				continue
			}
			fa, ok := st.Addr.(*ssa.FieldAddr)
			if !ok || core.NamedName(fa.X.Type()) != "VestingTokens" || core.FieldName(fa.X.Type(), fa.Field) != "TotalAmount" {
				continue
			}
			_, fresh := fa.X.(*ssa.Alloc)
			R.Add("C14-vest", key, "schedule total written", P.Pos(P.InstrPos(in)), fresh && ff.Fwd(st.Val) == amount,
				"a vest opens a new entry whose total is the amount deducted; the total of an existing schedule is not raised here")
		}
	}
	for _, c := range core.Calls(fn) {
		if !calleeMatches(P, c, "x/commitment/keeper.Keeper.SetCommitments") {
			continue
		}
		args := c.Common().Args
		rec := args[len(args)-1]
		// flow-sensitive: the value that reaches this call (loads are forwarded to their
		// reaching store), every origin of which must carry the deduction
		os := ff.Origins(rec)
		carries := len(os) > 0
		for _, o := range os {
			one := false
			for _, d := range deducts {
				if o.Val == d {
					one = true // result of DeductClaimed
				}
				if dc, ok := d.(*ssa.Call); ok && calleeMatches(P, dc, "x/commitment/types.Commitments.SubClaimed") && len(dc.Common().Args) > 0 {
					// the very local the deduction was applied to in place (its address escapes to
					// SubClaimed, so loads of it are not forwarded): same variable, deduction first
					if o.Kind == "local" && core.Dominates(dc, c) {
						var al ssa.Value
						if u, isU := o.Val.(*ssa.UnOp); isU {
							al = u.X
						} else {
							al = o.Val
						}
						if al != nil && dc.Common().Args[0] == al {
							one = true
						}
					}
					for _, ro := range recordOrigins(ff, dc.Common().Args[0]) {
						if ro.Val == o.Val && o.Val != nil && core.Dominates(dc, c) {
							one = true // the record SubClaimed was called on, before this store
						}
					}
				}
			}
			if !one {
				carries = false
			}
		}
		R.Add("C14-vest", key, "stored record carries the deduction", P.Pos(P.InstrPos(c)), carries,
			"the commitments record stored after a vest is the one the vested Eden was deducted from")
	}
}

func checkVestNow(P *core.Program, R *core.Report) {
	const key = "x/commitment/keeper.msgServer.VestNow"
	fn := P.Fn(key)
	if fn == nil {
		R.Add("C14-vest-now", key, "function", "-", false, "unresolved anchor")
		return
	}
	ff := P.Facts(fn)
	isMsgAmount := func(v ssa.Value) bool {
		return ff.AllOrigins(v, nil, func(o core.Origin) bool { return o.Kind == "param" && o.Name == "msg" && o.Path == ".Amount" })
	}
	deductOK, payOK := false, false
	for _, c := range core.Calls(fn) {
		if calleeMatches(P, c, "x/commitment/keeper.Keeper.DeductClaimed") {
			args := c.Common().Args
			deductOK = isMsgAmount(args[len(args)-1])
		}
		if P.EffectOf(c) == core.EffBankSend {
			_, _, coins := bankEnds(c)
			denoms, whole := coinDenomValues(ff, coins)
			_ = denoms
			if len(whole) == 0 {
				// find the NewCoin amount
				v := ff.Fwd(coins)
				var els []ssa.Value
				if call, ok := v.(*ssa.Call); ok && core.CalleeName(call.Common()) == "NewCoins" {
					els, _ = core.SliceLiteral(ff.Fwd(call.Common().Args[0]))
				} else {
					els, _ = core.SliceLiteral(v)
				}
				if len(els) == 1 {
					if nc, ok := ff.Fwd(els[0]).(*ssa.Call); ok && core.CalleeName(nc.Common()) == "NewCoin" {
						if qa, _, ok := mathCall(ff, nc.Common().Args[1], "Quo"); ok && len(qa) == 2 && isMsgAmount(qa[0]) {
							if _, isF := fieldLoad(ff, qa[1], "VestNowFactor"); isF {
								payOK = true
							}
						}
					}
				}
			}
		}
	}
	R.Add("C14-vest-now", key, "deduct msg.Amount ↔ pay msg.Amount.Quo(VestNowFactor)", P.Pos(fn.Pos()), deductOK && payOK, "vest-now pays exactly amount divided by the configured factor for the amount deducted")
}

// checkEntryKept: a vesting entry disappears from the account's list only when nothing of it
// is left to release.  In every function that rebuilds the VestingTokens list in a loop
// (append of the entry into a fresh slice), each way through one iteration that does NOT
// append the entry must carry ClaimedAmount ≥ TotalAmount (== or ≥) of that entry.
func checkEntryKept(P *core.Program, R *core.Report) {
	for _, key := range []string{"x/commitment/keeper.Keeper.ClaimVesting", "x/commitment/keeper.msgServer.CancelVest"} {
		fn := P.Fn(key)
		if fn == nil {
			R.Add("C14-entry-kept", key, "function", "-", false, "unresolved anchor")
			continue
		}
		ff := P.Facts(fn)
		isKeep := func(in ssa.Instruction) bool {
			c, ok := in.(ssa.CallInstruction)
			if !ok {
				return false
			}
			b, isB := c.Common().Value.(*ssa.Builtin)
			return isB && b.Name() == "append" && strings.Contains(c.Common().Args[0].Type().String(), "VestingTokens")
		}
		var keepBlocks []*ssa.BasicBlock
		for _, b := range fn.Blocks {
			for _, in := range b.Instrs {
				if isKeep(in) {
					keepBlocks = append(keepBlocks, b)
				}
			}
		}
		if len(keepBlocks) == 0 {
			R.Add("C14-entry-kept", key, "rebuild loop", P.Pos(fn.Pos()), false, "no append of a vesting entry found (anchor changed)")
			continue
		}
		role := func(_ string, v ssa.Value) (string, bool) {
			if v == nil {
				return "", false
			}
			if _, is := fieldLoad(ff, v, "ClaimedAmount"); is {
				return "CLAIMED", true
			}
			if _, is := fieldLoad(ff, v, "TotalAmount"); is {
				return "TOTAL", true
			}
			return "", false
		}
		want := core.ParsePoly("CLAIMED - TOTAL")
		bad := ""
		nLatch := 0
		for _, b := range fn.Blocks {
			for _, sb := range b.Succs {
				if !sb.Dominates(b) || len(b.Instrs) == 0 {
					continue
				}
				inLoop := false
				for _, kb := range keepBlocks {
					if sb.Dominates(kb) {
						// the append lies inside this loop: it can get back to the header
						if _, back := core.ReachesWithout(fn, kb.Instrs[0], func(in ssa.Instruction) bool { return in.Block() == sb }, nil); back {
							inLoop = true
						}
					}
				}
				if !inLoop {
					continue
				}
				nLatch++
				paths, ok := ff.PathsTo(b.Instrs[len(b.Instrs)-1])
				if !ok {
					bad = "too many paths"
					continue
				}
				for _, p := range paths {
					kept := false
					for _, pb := range p.Blocks {
						for _, in := range pb.Instrs {
							if isKeep(in) {
								kept = true
							}
						}
					}
					if kept {
						continue
					}
					done := false
					atoms := append(append([]*core.Atom{}, p.Atoms...), ff.EdgeFacts(b, sb)...)
					for _, a := range atoms {
						if (a.Rel != core.EQ && a.Rel != core.LE) || a.A == nil || a.B == nil || a.A == core.ZeroMarker || a.B == core.ZeroMarker || a.B == core.NilMarker {
							continue
						}
						if !core.IsMathType(a.A.Type()) || !core.IsMathType(a.B.Type()) {
							continue
						}
						// LE(A,B): B − A ≥ 0 ; EQ either way
						d, okR := ff.PolyOf(a.B).Sub(ff.PolyOf(a.A)).Rename(role)
						if okR && (d.Equal(want) || (a.Rel == core.EQ && d.Neg().Equal(want))) {
							done = true
						}
					}
					if !done {
						bad = "an entry can be left out of the rebuilt list without ClaimedAmount ≥ TotalAmount"
					}
				}
			}
		}
		R.Add("C14-entry-kept", key, "entry dropped only when fully claimed", P.Pos(fn.Pos()), bad == "" && nLatch > 0,
			"rebuilding the vesting list keeps every entry that still has something to release. "+bad)
	}
}

// checkConfigApplied (C14-config-applied): "the configured factor" and the configured
// schedule length are what governance last set with MsgUpdateVestingInfo.  Every value the
// handler takes from the message must be written INTO the params record it then stores
// (directly, or into a literal that is appended to it) — not into some other copy, such
// as the pointer GetVestingInfo returns (a pointer to a copy of its own GetParams), which
// makes the update succeed and change nothing.
func checkConfigApplied(P *core.Program, R *core.Report) {
	const rule = "C14-config-applied"
	const key = "x/commitment/keeper.msgServer.UpdateVestingInfo"
	fn := P.Fn(key)
	if fn == nil {
		R.Add(rule, key, "function", "-", false, "unresolved anchor")
		return
	}
	ff := P.Facts(fn)
	var msg *ssa.Parameter
	for _, p := range fn.Params {
		if _, _, ok := isProtoMsg(p.Type()); ok {
			msg = p
		}
	}
	var rec *ssa.Alloc
	for _, c := range core.Calls(fn) {
		if core.CalleeName(c.Common()) == "SetParams" && len(c.Common().Args) >= 3 {
			rec = recordAlloc(ff, c.Common().Args[2])
		}
	}
	if msg == nil || rec == nil {
		R.Add(rule, key, "message / stored record", P.Pos(fn.Pos()), false, "no message parameter or no SetParams(record) found (anchor changed)")
		return
	}
	root := func(addr ssa.Value) ssa.Value {
		for d := 0; d < 8; d++ {
			switch x := addr.(type) {
			case *ssa.FieldAddr:
				addr = x.X
			case *ssa.IndexAddr:
				addr = x.X
			case *ssa.UnOp:
				if x.Op != token.MUL {
					return addr
				}
				addr = x.X
			default:
				return addr
			}
		}
		return addr
	}
	// does the content of alloc b flow into a store rooted at rec (append of a literal)?
	var flows func(v ssa.Value, depth int) bool
	flows = func(v ssa.Value, depth int) bool {
		if depth > 8 || v.Referrers() == nil {
			return false
		}
		for _, r := range *v.Referrers() {
			switch x := r.(type) {
			case *ssa.Store:
				if x.Val == v || x.Addr == v {
					rt := root(x.Addr)
					if rt == ssa.Value(rec) {
						return true
					}
					if al, ok := rt.(*ssa.Alloc); ok && al != v && x.Val == v && flows(al, depth+1) {
						return true
					}
				}
			case *ssa.UnOp, *ssa.Slice, *ssa.Phi, *ssa.ChangeType, *ssa.MakeInterface:
				if flows(x.(ssa.Value), depth+1) {
					return true
				}
			case *ssa.Call:
				if core.CalleeName(x.Common()) == "append" && flows(x, depth+1) {
					return true
				}
			}
		}
		return false
	}
	n := 0
	for _, b := range fn.Blocks {
		for _, in := range b.Instrs {
			st, ok := in.(*ssa.Store)
			if !ok {
				continue
			}
			fromMsg := false
			for _, o := range ff.Origins(st.Val) {
				if o.Kind == "param" && o.Name == msg.Name() && o.Path != "" {
					fromMsg = true
				}
			}
			if !fromMsg {
				continue
			}
			rt := root(st.Addr)
			if al, isAl := rt.(*ssa.Alloc); isAl && al.Comment == "varargs" {
				continue // argument packing (error formatting), not a record
			}
			n++
			good := rt == ssa.Value(rec)
			if al, isAl := rt.(*ssa.Alloc); isAl && !good {
				good = flows(al, 0)
			}
			R.Add(rule, key, "message value stored", P.Pos(P.InstrPos(st)), good,
				"a value taken from the message is written into the params record that is stored (or a literal appended to it), not into another copy")
		}
	}
	if n == 0 {
		R.Add(rule, key, "message values", P.Pos(fn.Pos()), false, "no value of the message is stored anywhere (anchor changed)")
	}
}

// nativeRunningSum: v is a loop accumulator that starts at zero and grows only by the
// per-entry payout `claim`, each time under a must-hold fact entry.Denom == <string constant>.
func nativeRunningSum(ff *core.FuncFacts, v ssa.Value, claim ssa.Value, seen map[ssa.Value]bool) bool {
	v = ff.Fwd(v)
	if seen[v] {
		return true
	}
	seen[v] = true
	switch x := v.(type) {
	case *ssa.Phi:
		for _, e := range x.Edges {
			if !nativeRunningSum(ff, e, claim, seen) {
				return false
			}
		}
		return true
	case *ssa.Call:
		if ff.LinOf(x).IsZero() {
			return true // math.ZeroInt()
		}
		if args, call, ok := mathCall(ff, x, "Add"); ok && len(args) == 2 && ff.Fwd(args[1]) == claim {
			denomFact := false
			for _, a := range ff.At(call) {
				if a.Rel != core.EQ || a.B == nil {
					continue
				}
				for _, pr := range [][2]ssa.Value{{a.A, a.B}, {a.B, a.A}} {
					if _, isDenom := fieldLoad(ff, pr[0], "Denom"); isDenom {
						if _, isConst := constString(ff, pr[1]); isConst {
							denomFact = true
						}
					}
				}
			}
			return denomFact && nativeRunningSum(ff, args[0], claim, seen)
		}
	}
	return false
}
