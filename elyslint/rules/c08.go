package rules

import (
	"go/token"
	"strings"

	"elyslint/core"

	"golang.org/x/tools/go/ssa"
)

func init() { register("C08", checkC08) }

func checkC08(P *core.Program, R *core.Report) {
	R.Explanation = "Two linear invariants decided for every consensus-reachable function: (A) leveragelp Pool.LeveragedLpAmount − Σ Position.LeveragedLpAmount = 0 and (B) Position.LeveragedLpAmount − shares committed at the position address = 0 " +
		"(amm JoinPoolNoSwap result / ExitPool share argument called with GetPositionAddress()); deltas on the same success paths must cancel symbolically and every updated record must reach its Set*/Destroy* call. " +
		"Also: DestroyPosition is reached exactly on the LeveragedLpAmount == 0 edge after the update and SetPosition on the other; the open-position counter is written only by OpenLong (+1, followed by the stored position), SetPosition's new-id branch and DestroyPosition (−1 on the same paths as the delete); " +
		"a leveragelp pool record handed to a persisting callee is fresh (loaded in the same loop iteration, not cached); the third-party close in CheckAndLiquidateUnhealthyPosition/CheckAndCloseAtStopLoss runs ForceCloseLong on a cache context written only when err == nil (R2 regression of the F-08 repair)."
	subjects := P.Reach(P.FindRoots().Consensus())
	posPersist := "x/leveragelp/keeper.Keeper.SetPosition|x/leveragelp/keeper.Keeper.DestroyPosition"
	specA := &LedgerSpec{
		Property: "C08", Rule: "C08-pool-vs-positions",
		Fields: []FieldLedger{
			{Pkg: "x/leveragelp/types", Type: "Pool", Field: "LeveragedLpAmount", Ledger: "Pool.LeveragedLpAmount", Persist: "x/leveragelp/keeper.Keeper.UpdatePoolHealth|x/leveragelp/keeper.Keeper.SetPool"},
			{Pkg: "x/leveragelp/types", Type: "Position", Field: "LeveragedLpAmount", Ledger: "Position.LeveragedLpAmount", Persist: posPersist},
		},
		Coeff:    map[string]int{"Pool.LeveragedLpAmount": 1, "Position.LeveragedLpAmount": -1},
		Helpers:  map[string]string{},
		AssignOK: map[string]string{},
		Exempt:   map[string]string{},
		Subjects: subjects,
	}
	CheckLedgers(P, R, specA)
	specB := &LedgerSpec{
		Property: "C08", Rule: "C08-position-vs-committed",
		Fields: []FieldLedger{
			{Pkg: "x/leveragelp/types", Type: "Position", Field: "LeveragedLpAmount", Ledger: "Position.LeveragedLpAmount"},
		},
		Calls: []CallLedger{
			{Callee: "x/leveragelp/types.AmmKeeper.JoinPoolNoSwap", Ledger: "Committed@position", Sign: 1, AmtRes: 1, AmtArg: -1},
			{Callee: "x/leveragelp/types.AmmKeeper.ExitPool", Ledger: "Committed@position", Sign: -1, AmtRes: -1, AmtArg: 4},
		},
		Coeff:    map[string]int{"Position.LeveragedLpAmount": 1, "Committed@position": -1},
		Helpers:  map[string]string{},
		AssignOK: map[string]string{},
		Exempt:   map[string]string{},
		Subjects: subjects,
	}
	CheckLedgers(P, R, specB)

	// the shares are committed at / exited from the position's own address
	for _, fn := range P.Funcs {
		if !subjects[fn] || !strings.HasPrefix(core.PkgRel(fn), "x/leveragelp/") {
			continue
		}
		ff := P.Facts(fn)
		for _, c := range core.Calls(fn) {
			k := P.CalleeKey(c.Common())
			if k != "x/leveragelp/types.AmmKeeper.JoinPoolNoSwap" && k != "x/leveragelp/types.AmmKeeper.ExitPool" {
				continue
			}
			sender := c.Common().Args[1]
			ok := ff.AllOrigins(sender, nil, func(o core.Origin) bool {
				return o.Kind == "call" && strings.HasSuffix(o.Name, "Position.GetPositionAddress")
			})
			R.Add("C08-position-address", P.Key(fn), "call "+k, P.Pos(P.InstrPos(c)), ok, "shares must be joined/exited for position.GetPositionAddress()")
		}
	}

	checkDestroyIffZero(P, R)
	checkModifiedPersistedX(P, R, modPersistSpec{Rule: "C08-pool-persisted", TypePkg: "x/leveragelp/types", TypeName: "Pool",
		Store: "x/leveragelp/keeper.Keeper.SetPool", Subjects: subjects, Scratch: map[string]string{}})
	checkModifiedPersistedX(P, R, modPersistSpec{Rule: "C08-position-persisted", TypePkg: "x/leveragelp/types", TypeName: "Position",
		Store: "x/leveragelp/keeper.Keeper.SetPosition", Alt: []string{"x/leveragelp/keeper.Keeper.DestroyPosition"}, Subjects: subjects, Scratch: map[string]string{}})
	checkOpenCounter(P, R, subjects)
	checkIdCounterMonotone(P, R, "C08-id-monotone", "x/leveragelp/keeper.Keeper.SetPositionCount", "Keeper.GetPositionCount", subjects)
	checkRecordFreshness(P, R, freshSpec{
		Rule: "C08-pool-fresh", Load: "x/leveragelp/keeper.Keeper.GetPool", Store: "x/leveragelp/keeper.Keeper.SetPool", Subjects: subjects,
		Tolerated: map[string]string{},
	})
	checkRecordFreshness(P, R, freshSpec{
		Rule: "C08-position-fresh", Load: "x/leveragelp/keeper.Keeper.GetPosition", Store: "x/leveragelp/keeper.Keeper.SetPosition", Subjects: subjects,
		Tolerated: map[string]string{},
		Sinks: map[string][]int{
			"x/leveragelp/keeper.Keeper.CheckAndLiquidateUnhealthyPosition": {2},
			"x/leveragelp/keeper.Keeper.CheckAndCloseAtStopLoss":            {2},
		},
	})
	checkIsolatedCall(P, R, "C08-close-isolated", "x/leveragelp/keeper.Keeper.CheckAndLiquidateUnhealthyPosition", llpFCL)
	checkIsolatedCall(P, R, "C08-close-isolated", "x/leveragelp/keeper.Keeper.CheckAndCloseAtStopLoss", llpFCL)
}

// checkDestroyIffZero: in ForceCloseLong, after Position.LeveragedLpAmount was reduced,
// DestroyPosition needs the fact amount == 0 and SetPosition the fact amount != 0.
func checkDestroyIffZero(P *core.Program, R *core.Report) {
	fn := P.Fn(llpFCL)
	if fn == nil {
		R.Add("C08-destroy-iff-zero", llpFCL, "function", "-", false, "unresolved anchor")
		return
	}
	ff := P.Facts(fn)
	var update ssa.Instruction
	for _, b := range fn.Blocks {
		for _, in := range b.Instrs {
			if st, ok := in.(*ssa.Store); ok {
				if fa, ok := st.Addr.(*ssa.FieldAddr); ok && core.FieldName(fa.X.Type(), fa.Field) == "LeveragedLpAmount" && core.NamedName(fa.X.Type()) == "Position" {
					update = in
				}
			}
		}
	}
	if update == nil {
		R.Add("C08-destroy-iff-zero", llpFCL, "position update", P.Pos(fn.Pos()), false, "no update of Position.LeveragedLpAmount found (anchor changed)")
		return
	}
	updated := ff.Fwd(update.(*ssa.Store).Val)
	isPosAmt := func(v ssa.Value, cmp ssa.Value) bool {
		if ff.Fwd(v) == updated {
			return true // the value just stored into Position.LeveragedLpAmount
		}
		if !fieldOfRecord(ff, v, "LeveragedLpAmount") {
			return false
		}
		// the comparison must be evaluated after the update
		ci, ok := cmp.(ssa.Instruction)
		return ok && core.Dominates(update, ci)
	}
	n := 0
	for _, c := range core.Calls(fn) {
		var want core.Rel
		switch {
		case calleeMatches(P, c, "x/leveragelp/keeper.Keeper.DestroyPosition"):
			want = core.EQ
		case calleeMatches(P, c, "x/leveragelp/keeper.Keeper.SetPosition"):
			want = core.NE
		default:
			continue
		}
		n++
		ok := false
		for _, a := range ff.At(c) {
			if a.Rel == want && a.B == core.ZeroMarker && isPosAmt(a.A, a.Src) {
				ok = true
			}
		}
		R.Add("C08-destroy-iff-zero", llpFCL, "call "+P.CalleeKey(c.Common()), P.Pos(P.InstrPos(c)), ok,
			"a position is destroyed exactly when its remaining LeveragedLpAmount is zero (and stored otherwise)")
	}
	if n < 2 {
		R.Add("C08-destroy-iff-zero", llpFCL, "Destroy/Set pair", P.Pos(fn.Pos()), false, "expected both DestroyPosition and SetPosition (anchor changed)")
	}
}

func checkOpenCounter(P *core.Program, R *core.Report, subjects map[*ssa.Function]bool) {
	const setCount = "x/leveragelp/keeper.Keeper.SetOpenPositionCount"
	sc := P.Fn(setCount)
	if sc == nil {
		R.Add("C08-counter", setCount, "function", "-", false, "unresolved anchor")
		return
	}
	allowed := map[string]string{
		"x/leveragelp/keeper.Keeper.OpenLong":        "+1 for a new position",
		"x/leveragelp/keeper.Keeper.SetPosition":     "+1 on the new-id branch",
		"x/leveragelp/keeper.Keeper.DestroyPosition": "−1 with the delete",
	}
	for _, e := range P.CG().In[sc] {
		if !subjects[e.Caller] {
			continue
		}
		ck := P.Key(e.Caller)
		if strings.HasSuffix(ck, ".InitGenesis") {
			continue
		}
		why, ok := allowed[ck]
		R.Add("C08-counter", ck, "writes open-position counter", P.Pos(P.InstrPos(e.Site)), ok, "only OpenLong, SetPosition and DestroyPosition may write the counter. "+why)
	}
	// OpenLong: counter+1 then ProcessOpenLong on all success paths; ProcessOpenLong stores the position
	if fn := P.Fn("x/leveragelp/keeper.Keeper.OpenLong"); fn != nil {
		ff := P.Facts(fn)
		for _, c := range core.Calls(fn) {
			if !calleeMatches(P, c, setCount) {
				continue
			}
			arg := ff.Fwd(c.Common().Args[len(c.Common().Args)-1])
			plus1 := false
			if bo, ok := arg.(*ssa.BinOp); ok && bo.Op == token.ADD {
				if k, ok := bo.Y.(*ssa.Const); ok && k.Value != nil && k.Value.ExactString() == "1" {
					plus1 = ff.AllOrigins(bo.X, nil, func(o core.Origin) bool {
						return o.Kind == "call" && strings.HasSuffix(o.Name, "Keeper.GetOpenPositionCount")
					})
				}
			}
			_, escapes := ff.SuccessExitReachableWithout(c, func(in ssa.Instruction) bool {
				cc, ok := in.(ssa.CallInstruction)
				return ok && calleeMatches(P, cc, "x/leveragelp/keeper.Keeper.ProcessOpenLong")
			})
			R.Add("C08-counter", "x/leveragelp/keeper.Keeper.OpenLong", "counter + 1 then open", P.Pos(P.InstrPos(c)), plus1 && !escapes,
				"OpenLong writes GetOpenPositionCount()+1 and every success path continues into ProcessOpenLong")
		}
	} else {
		R.Add("C08-counter", "x/leveragelp/keeper.Keeper.OpenLong", "function", "-", false, "unresolved anchor")
	}
	if fn := P.Fn("x/leveragelp/keeper.Keeper.ProcessOpenLong"); fn != nil {
		ff := P.Facts(fn)
		_, escapes := ff.SuccessExitReachableWithout(nil, func(in ssa.Instruction) bool {
			cc, ok := in.(ssa.CallInstruction)
			return ok && calleeMatches(P, cc, "x/leveragelp/keeper.Keeper.SetPosition")
		})
		R.Add("C08-counter", "x/leveragelp/keeper.Keeper.ProcessOpenLong", "success ⇒ SetPosition", P.Pos(fn.Pos()), !escapes, "a counted open must store the position on every success path")
	}
	if fn := P.Fn("x/leveragelp/keeper.Keeper.DestroyPosition"); fn != nil {
		ff := P.Facts(fn)
		var del, set ssa.Instruction
		for _, c := range core.Calls(fn) {
			if P.EffectOf(c) == core.EffStoreWrite && core.CalleeName(c.Common()) == "Delete" {
				del = c
			}
			if calleeMatches(P, c, setCount) {
				set = c
			}
		}
		ok := del != nil && set != nil && sameControl(ff, del, set)
		minus1 := false
		if set != nil {
			arg := set.(ssa.CallInstruction).Common().Args
			for _, o := range ff.Origins(arg[len(arg)-1]) {
				if bo, isB := o.Val.(*ssa.BinOp); isB && bo.Op == token.SUB {
					if k, isK := bo.Y.(*ssa.Const); isK && k.Value != nil && k.Value.ExactString() == "1" {
						minus1 = true
					}
				}
			}
		}
		R.Add("C08-counter", "x/leveragelp/keeper.Keeper.DestroyPosition", "delete ↔ counter − 1", P.Pos(fn.Pos()), ok && minus1,
			"the store delete and the counter decrement lie on the same success paths")
	} else {
		R.Add("C08-counter", "x/leveragelp/keeper.Keeper.DestroyPosition", "function", "-", false, "unresolved anchor")
	}
}

// checkIsolatedCall (R2 regression form): inside fnKey every call of target receives a
// context forked with CacheContext(), and the fork's write function is called only where
// the target's error is known to be nil.
func checkIsolatedCall(P *core.Program, R *core.Report, rule, fnKey, target string) {
	fn := P.Fn(fnKey)
	if fn == nil {
		R.Add(rule, fnKey, "function", "-", false, "unresolved anchor")
		return
	}
	ff := P.Facts(fn)
	n := 0
	for _, c := range core.Calls(fn) {
		if !calleeMatches(P, c, target) {
			continue
		}
		n++
		ok, why := isolatedCall(P, ff, c)
		R.Add(rule, fnKey, "call "+target, P.Pos(P.InstrPos(c)), ok, "the call must run on a CacheContext whose write is invoked only when its error is nil. "+why)
	}
	if n == 0 {
		R.Add(rule, fnKey, "call "+target, P.Pos(fn.Pos()), false, "call not found (anchor changed)")
	}
}

// isolatedCall decides the isolation shape for one call site.
func isolatedCall(P *core.Program, ff *core.FuncFacts, c ssa.CallInstruction) (bool, string) {
	// find the ctx argument (type sdk.Context) and its fork
	var fork *ssa.Call
	for _, a := range c.Common().Args {
		if core.NamedName(a.Type()) != "Context" {
			continue
		}
		for _, o := range ff.Origins(a) {
			if o.Kind == "call" && strings.HasSuffix(o.Name, "types.Context.CacheContext") && o.Path == "#0" {
				fork, _ = o.Val.(*ssa.Call)
			} else {
				return false, "context argument is not the result of CacheContext() (" + o.String() + ")"
			}
		}
	}
	if fork == nil {
		return false, "no CacheContext() fork feeds the call"
	}
	// the error result of c
	var errVal ssa.Value
	if v, ok := c.(ssa.Value); ok && v.Referrers() != nil {
		sig := c.Common().Signature()
		ei := core.ErrResultIndex(sig)
		if sig.Results().Len() == 1 && ei == 0 {
			errVal = v
		}
		for _, r := range *v.Referrers() {
			if ex, ok := r.(*ssa.Extract); ok && ex.Index == ei {
				errVal = ex
			}
		}
	}
	if errVal == nil {
		return false, "the call's error result is not used"
	}
	// every invocation of the write function (Extract #1 of the fork) needs err == nil
	nWrites := 0
	for _, r := range *fork.Referrers() {
		ex, ok := r.(*ssa.Extract)
		if !ok || ex.Index != 1 || ex.Referrers() == nil {
			continue
		}
		for _, wr := range writeCalls(ff, ex) {
			nWrites++
			if !core.Dominates(c, wr) {
				return false, "write() at " + P.Pos(P.InstrPos(wr)) + " is not after the call"
			}
			okNil := false
			for _, a := range ff.At(wr) {
				if a.Rel == core.EQ && a.B == core.NilMarker && ff.Fwd(a.A) == ff.Fwd(errVal) {
					okNil = true
				}
			}
			if !okNil {
				return false, "write() at " + P.Pos(P.InstrPos(wr)) + " is reachable with a non-nil error"
			}
		}
	}
	if nWrites == 0 {
		return true, "fork is never written (dry run)"
	}
	return true, ""
}

// writeCalls finds the calls of a func value (possibly stored in a local and reloaded).
func writeCalls(ff *core.FuncFacts, fv ssa.Value) []ssa.Instruction {
	var out []ssa.Instruction
	seen := map[ssa.Value]bool{}
	var walk func(v ssa.Value)
	walk = func(v ssa.Value) {
		if seen[v] || v.Referrers() == nil {
			return
		}
		seen[v] = true
		for _, r := range *v.Referrers() {
			switch x := r.(type) {
			case ssa.CallInstruction:
				if x.Common().Value == v {
					out = append(out, x)
				}
			case *ssa.Store:
				if x.Val == v {
					// stored in a local: find loads of that slot that forward to v
					if a, ok := x.Addr.(*ssa.Alloc); ok && a.Referrers() != nil {
						for _, ar := range *a.Referrers() {
							if ld, ok := ar.(*ssa.UnOp); ok && ff.Fwd(ld) == v {
								walk(ld)
							}
						}
					}
				}
			case *ssa.Phi:
				walk(x)
			}
		}
	}
	walk(fv)
	// the function value carried through a struct field or a by-value copy: any dynamic call
	// in the function whose callee forwards to it
	have := map[ssa.Instruction]bool{}
	for _, o := range out {
		have[o] = true
	}
	for _, c := range core.Calls(ff.Fn) {
		cc := c.Common()
		if cc.IsInvoke() || cc.StaticCallee() != nil || have[c] {
			continue
		}
		if _, isB := cc.Value.(*ssa.Builtin); isB {
			continue
		}
		if ff.Fwd(cc.Value) == fv {
			out = append(out, c)
		}
	}
	return out
}
