package rules

import (
	"fmt"
	"go/types"
	"os"
	"sort"
	"strings"

	"elyslint/core"

	"golang.org/x/tools/go/ssa"
)

func init() { register("C17", checkC17) }

// msgRoot describes one Msg handler.
type msgRoot struct {
	Fn      *ssa.Function
	Key     string
	Module  string
	ReqType *types.Named
	Msg     *ssa.Parameter
	Signer  string // Go field name of the proto signer
}

func msgRoots(P *core.Program, R *core.Report) []*msgRoot {
	signers, err := protoSigners(P.Dir)
	if err != nil {
		R.Undecided("C17-roots", "-", "proto signer options", "-", err.Error())
		return nil
	}
	var out []*msgRoot
	for _, fn := range P.FindRoots().Msg {
		key := P.Key(fn)
		if len(fn.Params) < 3 {
			R.Undecided("C17-roots", key, "signature", P.Pos(fn.Pos()), "MsgServer method without (recv, ctx, msg) parameters")
			continue
		}
		msg := fn.Params[2]
		nt := core.AsNamed(msg.Type())
		if nt == nil {
			R.Undecided("C17-roots", key, "request type", P.Pos(fn.Pos()), "request parameter is not a named message type")
			continue
		}
		parts := strings.Split(core.PkgRel(fn), "/")
		mod := ""
		if len(parts) >= 2 {
			mod = parts[1]
		}
		mr := &msgRoot{Fn: fn, Key: key, Module: mod, ReqType: nt, Msg: msg}
		if s, ok := signers[mod][nt.Obj().Name()]; ok {
			mr.Signer = s
		} else {
			R.Undecided("C17-roots", key, "proto signer of "+nt.Obj().Name(), P.Pos(fn.Pos()), "no cosmos.msg.v1.signer option found for this message in proto/elys/"+mod+"/tx.proto")
			continue
		}
		if !hasField(nt, mr.Signer) {
			R.Undecided("C17-roots", key, "signer field "+mr.Signer, P.Pos(fn.Pos()), "generated Go struct has no field for the proto signer")
			continue
		}
		out = append(out, mr)
	}
	return out
}

func hasField(nt *types.Named, name string) bool {
	st, ok := nt.Underlying().(*types.Struct)
	if !ok {
		return false
	}
	for i := 0; i < st.NumFields(); i++ {
		if st.Field(i).Name() == name {
			return true
		}
	}
	return false
}

// authorityAtom looks for  <recv>.…authority == <msg>.<field>  among atoms and returns the
// message field compared.
func authorityAtom(ff *core.FuncFacts, atoms []*core.Atom, msg *ssa.Parameter) (string, bool) {
	for _, a := range atoms {
		if a.Rel != core.EQ || a.B == nil {
			continue
		}
		for _, pair := range [][2]ssa.Value{{a.A, a.B}, {a.B, a.A}} {
			isAuth := ff.AllOrigins(pair[0], nil, func(o core.Origin) bool {
				return o.Kind == "param" && strings.HasSuffix(o.Path, ".authority")
			})
			if !isAuth {
				continue
			}
			os := ff.Origins(pair[1])
			if len(os) == 1 && os[0].Kind == "param" && os[0].Val == ssa.Value(msg) && strings.Count(os[0].Path, ".") == 1 {
				return strings.TrimPrefix(os[0].Path, "."), true
			}
		}
	}
	return "", false
}

type c17Class struct {
	Class  string `json:"class"`
	Reason string `json:"reason"`
	// AllowedAddrFields: non-signer message fields that may be used as addresses (credit-only
	// recipients, third-party targets guarded elsewhere), each with a reason.
	AllowedAddrFields map[string]string `json:"allowed_addr_fields,omitempty"`
	// KeyCalls: callee keys that must receive a signer-derived argument (owner-keyed lookups).
	KeyCalls []string `json:"key_calls,omitempty"`
	// Guards: boolean results that must hold (TRUE) at every state-changing site; the
	// producing call must receive a signer-derived argument.
	Guards []c17Guard `json:"guards,omitempty"`
	// Forward: for batch handlers, the single-item handler every effect must go through.
	Forward string `json:"forward,omitempty"`
}

type c17Guard struct {
	Call string `json:"call"`
	Path string `json:"path"`
}

func checkC17(P *core.Program, R *core.Report) {
	R.Explanation = "For every Msg handler (enumerated from the MsgServer interfaces; signer field read from the proto signer option): " +
		"GOV handlers — every state-changing call site and every success exit is dominated by the must-hold fact keeper.authority == msg.<proto signer field>; " +
		"tradeshield update/cancel — every state-changing site has the must-hold fact order.OwnerAddress == msg.OwnerAddress for the order loaded by msg.OrderId; " +
		"owner-keyed handlers — the frozen per-account lookups/debits receive an address derived from the proto signer field and no other message field is used as an account address unless frozen with a reason; " +
		"an unclassifiable handler fails. Decides the guard structure on all paths; does not decide ante-handler signature verification (trusted SDK)."
	roots := msgRoots(P, R)
	var table map[string]c17Class
	if err := loadTable("c17_classes.json", &table); err != nil {
		R.Undecided("C17-table", "-", "tables/c17_classes.json", "-", err.Error())
		return
	}
	R.Analysed["msg_roots"] = len(roots)
	classCount := map[string]int{}
	debug := os.Getenv("ELYSLINT_INVENTORY") != ""
	for _, mr := range roots {
		ff := P.Facts(mr.Fn)
		hasAuth := hasField(mr.ReqType, "Authority")
		tc, inTable := table[mr.Key]
		class := tc.Class
		if hasAuth {
			class = "GOV"
		}
		if class == "" && debug {
			uses := msgAddrUses(P, mr.Fn, mr.Msg, 0, map[*ssa.Function]bool{})
			var us []string
			for f, u := range uses {
				us = append(us, fmt.Sprintf("%s→%s", f, strings.Join(u, ",")))
			}
			sort.Strings(us)
			fmt.Printf("INV %-60s signer=%-14s class=?? fields: %s\n", mr.Key, mr.Signer, strings.Join(us, " ; "))
			for _, sc := range signerCalls(P, mr) {
				fmt.Printf("INV      signer-call %s\n", sc)
			}
		}
		if class == "" {
			R.Add("C17-classify", mr.Key, "class", P.Pos(mr.Fn.Pos()), false,
				"Msg handler is neither a governance message (no Authority field) nor listed in tables/c17_classes.json: unclassified handlers are not allowed")
			continue
		}
		_ = inTable
		classCount[class]++
		uses := msgAddrUses(P, mr.Fn, mr.Msg, 0, map[*ssa.Function]bool{})
		if debug {
			var us []string
			for f, u := range uses {
				us = append(us, fmt.Sprintf("%s→%s", f, strings.Join(u, ",")))
			}
			sort.Strings(us)
			fmt.Printf("INV %-60s signer=%-14s class=%-10s fields: %s\n", mr.Key, mr.Signer, class, strings.Join(us, " ; "))
		}
		switch class {
		case "GOV":
			checkGov(P, R, mr, ff)
		case "OWNER-CHECK":
			checkOwnerCheck(P, R, mr, ff, tc)
			checkAddrFields(P, R, mr, uses, tc, true)
		case "OWNER-FORWARD":
			checkForward(P, R, mr, ff, tc, roots)
		case "OWNER-KEYED", "OPEN":
			checkAddrFields(P, R, mr, uses, tc, true)
			checkKeyCalls(P, R, mr, tc)
			if len(tc.KeyCalls) == 0 {
				R.Add("C17-table", mr.Key, "key_calls", P.Pos(mr.Fn.Pos()), false, "class "+class+" needs at least one frozen owner-keyed call")
			}
		case "GUARDED":
			checkAddrFields(P, R, mr, uses, tc, true)
			checkGuards(P, R, mr, ff, tc)
		case "PERMISSIONLESS":
			// third parties may trigger these by design; what they may do is decided by the
			// guard obligations of C10 / C20. Here: no message field is used as an account
			// address except the frozen target lists.
			checkAddrFields(P, R, mr, uses, tc, false)
		case "DISABLED":
			n := 0
			for _, c := range core.Calls(mr.Fn) {
				if w, why := P.SiteMayWrite(c); w && ff.Reachable(c) {
					n++
					R.Add("C17-disabled", mr.Key, "effect "+P.CalleeKey(c.Common()), P.Pos(P.InstrPos(c)), false, "handler frozen as disabled changes state: "+shortWhy(why))
				}
			}
			for _, e := range ff.Exits() {
				if e.Kind != core.ExitError && e.Kind != core.ExitPanic {
					n++
					R.Add("C17-disabled", mr.Key, "success exit", P.Pos(P.InstrPos(e.Instr)), false, "handler frozen as disabled can succeed; it must be classified and guarded")
				}
			}
			if n == 0 {
				R.Add("C17-disabled", mr.Key, "always rejects", P.Pos(mr.Fn.Pos()), true, "no state-changing site and no success exit")
			}
		case "STATE-ONLY":
			checkAddrFields(P, R, mr, uses, tc, false)
			checkNoFunds(P, R, mr)
		default:
			R.Add("C17-classify", mr.Key, "class "+class, P.Pos(mr.Fn.Pos()), false, "unknown class in tables/c17_classes.json")
		}
	}
	R.Extra["class_sizes"] = classCount
	// stale table entries are unresolved anchors
	keys := map[string]bool{}
	for _, mr := range roots {
		keys[mr.Key] = true
	}
	for k := range table {
		if !keys[k] {
			R.Add("C17-table", k, "table entry", "-", false, "tables/c17_classes.json names a handler that no longer exists (unresolved anchor)")
		}
	}
}

// checkGov: every write site and success exit requires keeper.authority == msg.<signer>.
func checkGov(P *core.Program, R *core.Report, mr *msgRoot, ff *core.FuncFacts) {
	n := 0
	check := func(in ssa.Instruction, what string) {
		if !ff.Reachable(in) {
			return
		}
		n++
		field, ok := authorityAtom(ff, ff.At(in), mr.Msg)
		pos := P.Pos(P.InstrPos(in))
		switch {
		case !ok:
			R.Add("C17-gov-guard", mr.Key, what, pos, false,
				"state-changing site / success exit reachable without the must-hold fact keeper.authority == msg."+mr.Signer)
		case field != mr.Signer:
			R.Add("C17-gov-guard", mr.Key, what, pos, false,
				fmt.Sprintf("authority is compared with msg.%s but the proto signer field is %s", field, mr.Signer))
		default:
			R.Add("C17-gov-guard", mr.Key, what, pos, true, "dominated by keeper.authority == msg."+field)
		}
	}
	for _, c := range core.Calls(mr.Fn) {
		if w, why := P.SiteMayWrite(c); w {
			check(c, "effect "+P.CalleeKey(c.Common())+" ("+shortWhy(why)+")")
		}
	}
	for _, e := range ff.Exits() {
		if e.Kind == core.ExitSuccess || e.Kind == core.ExitBoth {
			check(e.Instr, "success exit")
		}
	}
	if n == 0 {
		R.Add("C17-gov-guard", mr.Key, "no effect and no success exit", P.Pos(mr.Fn.Pos()), false, "handler has no analysable site")
	}
}

func shortWhy(s string) string {
	if len(s) > 80 {
		return s[:80]
	}
	return s
}

// msgAddrUses finds which string fields of the message are used as account addresses:
// converted by AccAddressFromBech32/MustAccAddressFromBech32 or passed on as address
// strings. It follows the message into callees that receive it whole (depth ≤ 3).
func msgAddrUses(P *core.Program, fn *ssa.Function, msg ssa.Value, depth int, seen map[*ssa.Function]bool) map[string][]string {
	out := map[string][]string{}
	if seen[fn] || depth > 3 {
		return out
	}
	seen[fn] = true
	add := func(f, use string) {
		for _, u := range out[f] {
			if u == use {
				return
			}
		}
		out[f] = append(out[f], use)
	}
	ff := P.Facts(fn)
	// the request may be copied into a local (value receiver style): treat loads as the same
	isMsg := func(v ssa.Value) bool {
		v = ff.Fwd(v)
		if v == msg {
			return true
		}
		if u, ok := v.(*ssa.UnOp); ok {
			return ff.Fwd(u.X) == msg
		}
		return false
	}
	for _, b := range fn.Blocks {
		for _, in := range b.Instrs {
			switch x := in.(type) {
			case *ssa.FieldAddr:
				if isMsg(x.X) {
					fname := core.FieldName(x.X.Type(), x.Field)
					if isStringField(x.X.Type(), x.Field) {
						for _, u := range addrUsesOf(P, ff, x, 0) {
							add(fname, u)
						}
					}
				}
			case *ssa.Field:
				if isMsg(x.X) {
					fname := core.FieldName(x.X.Type(), x.Field)
					if isStringField(x.X.Type(), x.Field) {
						for _, u := range addrUsesOfVal(P, ff, x, 0, map[ssa.Value]bool{}) {
							add(fname, u)
						}
					}
				}
			case ssa.CallInstruction:
				cc := x.Common()
				for i, a := range cc.Args {
					if !isMsg(a) {
						continue
					}
					for _, t := range P.Callees(x) {
						pi := i
						if cc.IsInvoke() {
							pi = i + 1
						}
						if pi < len(t.Params) {
							for f, us := range msgAddrUses(P, t, t.Params[pi], depth+1, seen) {
								for _, u := range us {
									add(f, u)
								}
							}
						}
					}
				}
			}
		}
	}
	return out
}

func isStringField(t types.Type, i int) bool {
	n := core.AsNamed(t)
	if n == nil {
		return false
	}
	st, ok := n.Underlying().(*types.Struct)
	if !ok || i >= st.NumFields() {
		return false
	}
	b, ok := st.Field(i).Type().Underlying().(*types.Basic)
	return ok && b.Kind() == types.String
}

func addrUsesOf(P *core.Program, ff *core.FuncFacts, addr ssa.Value, depth int) []string {
	var out []string
	if addr.Referrers() == nil {
		return nil
	}
	for _, r := range *addr.Referrers() {
		if u, ok := r.(*ssa.UnOp); ok {
			out = append(out, addrUsesOfVal(P, ff, u, depth, map[ssa.Value]bool{})...)
		}
	}
	return out
}

// addrUsesOfVal: how a string value is used as an address.
func addrUsesOfVal(P *core.Program, ff *core.FuncFacts, v ssa.Value, depth int, seen map[ssa.Value]bool) []string {
	if seen[v] || depth > 6 || v.Referrers() == nil {
		return nil
	}
	seen[v] = true
	var out []string
	for _, r := range *v.Referrers() {
		switch x := r.(type) {
		case *ssa.Call:
			name := core.CalleeName(x.Common())
			switch name {
			case "AccAddressFromBech32", "MustAccAddressFromBech32", "ValAddressFromBech32":
				out = append(out, "bech32")
				continue
			}
			key := P.CalleeKey(x.Common())
			if strings.HasPrefix(key, "fmt.") || strings.HasPrefix(key, "cosmossdk.io/errors") || strings.Contains(key, "types.NewAttribute") ||
				strings.HasPrefix(key, "strings.") || strings.Contains(key, ".Logger.") || strings.HasPrefix(key, "errors.") {
				continue // diagnostics
			}
			out = append(out, "arg:"+key)
		case *ssa.Phi:
			out = append(out, addrUsesOfVal(P, ff, x, depth+1, seen)...)
		case *ssa.Store:
			if x.Val == v {
				base, _ := storeTarget(x.Addr)
				out = append(out, "stored:"+base)
			}
		case *ssa.BinOp:
			out = append(out, "compared")
		case *ssa.MakeInterface, *ssa.Slice, *ssa.Convert, *ssa.ChangeType:
			if val, ok := r.(ssa.Value); ok {
				out = append(out, addrUsesOfVal(P, ff, val, depth+1, seen)...)
			}
		}
	}
	return out
}

func storeTarget(addr ssa.Value) (string, bool) {
	switch x := addr.(type) {
	case *ssa.FieldAddr:
		return core.NamedName(x.X.Type()) + "." + core.FieldName(x.X.Type(), x.Field), true
	case *ssa.IndexAddr:
		return "elem", true
	case *ssa.Alloc:
		return "local " + x.Comment, true
	}
	return "?", false
}

// checkAddrFields: a non-signer message field used as an account address must be frozen.
func checkAddrFields(P *core.Program, R *core.Report, mr *msgRoot, uses map[string][]string, tc c17Class, needSigner bool) {
	fields := make([]string, 0, len(uses))
	for f := range uses {
		fields = append(fields, f)
	}
	sort.Strings(fields)
	signerUsed := false
	for _, f := range fields {
		isAddr := false
		for _, u := range uses[f] {
			if u == "bech32" {
				isAddr = true
			}
		}
		if f == mr.Signer {
			if len(uses[f]) > 0 {
				signerUsed = true
			}
			continue
		}
		if !isAddr {
			continue
		}
		if reason, ok := tc.AllowedAddrFields[f]; ok {
			R.Add("C17-addr-field", mr.Key, "msg."+f, P.Pos(mr.Fn.Pos()), true, "non-signer address field frozen: "+reason)
		} else {
			R.Add("C17-addr-field", mr.Key, "msg."+f, P.Pos(mr.Fn.Pos()), false,
				fmt.Sprintf("message field %s is converted to an account address but is not the proto signer (%s) and is not frozen in tables/c17_classes.json", f, mr.Signer))
		}
	}
	if needSigner {
		R.Add("C17-signer-used", mr.Key, "msg."+mr.Signer, P.Pos(mr.Fn.Pos()), signerUsed,
			"the proto signer field must be read by the handler (it identifies whose state may change)")
	}
}

// checkGuards: every state-changing site needs TRUE atoms produced by the frozen guard
// calls, and each guard call must receive a signer-derived argument.
// checkGuardBody (C17-guard-body): a frozen guard that is a boolean function of this module
// (an allow-list membership test) answers true only where it established an equality that
// involves the value it was asked about: every way to return true carries a must-hold
// `param == …` fact.  A shortcut that answers true for an empty list, a nil record or a flag
// opens the guarded message to everyone while every caller still "checks" the guard.
var guardBodyDone = map[string]bool{}

func checkGuardBody(P *core.Program, R *core.Report, callKey string) {
	fn := P.Fn(callKey)
	if fn == nil || len(fn.Blocks) == 0 || fn.Signature.Results().Len() != 1 {
		return
	}
	if b, ok := fn.Signature.Results().At(0).Type().Underlying().(*types.Basic); !ok || b.Kind() != types.Bool {
		return
	}
	ff := P.Facts(fn)
	asked := map[ssa.Value]bool{}
	for i, p := range fn.Params {
		if i == 0 && fn.Signature.Recv() != nil {
			continue
		}
		asked[p] = true
	}
	aboutParam := func(atoms []*core.Atom) bool {
		for _, a := range atoms {
			if a.Rel != core.EQ || a.B == nil {
				continue
			}
			for _, v := range []ssa.Value{a.A, a.B} {
				if v == core.ZeroMarker || v == core.NilMarker {
					continue
				}
				for _, o := range ff.Origins(v) {
					if o.Kind == "param" && asked[o.Val] {
						return true
					}
				}
			}
		}
		return false
	}
	isTrue := func(v ssa.Value) bool {
		c, ok := v.(*ssa.Const)
		return ok && c.Value != nil && c.Value.String() == "true"
	}
	bad := ""
	n := 0
	for _, b := range fn.Blocks {
		ret, ok := b.Instrs[len(b.Instrs)-1].(*ssa.Return)
		if !ok || len(ret.Results) != 1 {
			continue
		}
		r := ret.Results[0]
		switch x := r.(type) {
		case *ssa.Const:
			if isTrue(x) {
				n++
				if !aboutParam(ff.At(ret)) {
					bad = "`return true` at " + P.Pos(P.InstrPos(ret)) + " is not under an equality involving the value asked about"
				}
			}
		case *ssa.Phi:
			for i, e := range x.Edges {
				if !isTrue(e) {
					continue
				}
				n++
				pred := x.Block().Preds[i]
				atoms := append(ff.OutFacts(pred), ff.EdgeFacts(pred, x.Block())...)
				if !aboutParam(atoms) {
					bad = "a path answering true (into " + P.Pos(P.InstrPos(ret)) + ") is not under an equality involving the value asked about"
				}
			}
		default:
			// the result of a comparison or of another predicate: nothing to decide here
		}
	}
	if n == 0 {
		return
	}
	R.Add("C17-guard-body", callKey, "answers true only on a match", P.Pos(fn.Pos()), bad == "", "an allow-list guard says yes only where it found the asked value. "+bad)
}

func checkGuards(P *core.Program, R *core.Report, mr *msgRoot, ff *core.FuncFacts, tc c17Class) {
	for _, g := range tc.Guards {
		if g.Path == "" && !guardBodyDone[g.Call+"|"+R.View+"|"+fmt.Sprint(P == nil)] {
			checkGuardBody(P, R, g.Call)
		}
	}
	if len(tc.Guards) == 0 {
		R.Add("C17-table", mr.Key, "guards", P.Pos(mr.Fn.Pos()), false, "class GUARDED needs frozen guards")
		return
	}
	isSigner := func(v ssa.Value) bool {
		return ff.AllOrigins(v, signerTransparent, func(o core.Origin) bool {
			return o.Kind == "param" && o.Val == ssa.Value(mr.Msg) && o.Path == "."+mr.Signer
		})
	}
	n := 0
	for _, c := range core.Calls(mr.Fn) {
		w, why := P.SiteMayWrite(c)
		if !w || !ff.Reachable(c) {
			continue
		}
		n++
		for _, g := range tc.Guards {
			ok := false
			for _, a := range ff.At(c) {
				if a.Rel != core.TRUE {
					continue
				}
				os := ff.Origins(a.A)
				if len(os) != 1 || os[0].Kind != "call" || os[0].Path != g.Path {
					continue
				}
				call, _ := os[0].Val.(*ssa.Call)
				if call == nil || !calleeMatches(P, call, g.Call) {
					continue
				}
				for _, arg := range call.Common().Args {
					if isSigner(arg) {
						ok = true
					}
				}
			}
			R.Add("C17-guard", mr.Key, "effect "+P.CalleeKey(c.Common())+" needs "+g.Call+g.Path, P.Pos(P.InstrPos(c)), ok,
				"state-changing site ("+shortWhy(why)+") must be dominated by a true result of "+g.Call+g.Path+" evaluated on the signer msg."+mr.Signer)
		}
	}
	if n == 0 {
		R.Add("C17-guard", mr.Key, "no effect site", P.Pos(mr.Fn.Pos()), false, "handler has no state-changing site (anchor changed)")
	}
}

func calleeMatches(P *core.Program, c ssa.CallInstruction, key string) bool {
	if P.CalleeKey(c.Common()) == key {
		return true
	}
	for _, t := range P.Callees(c) {
		if P.Key(t) == key {
			return true
		}
	}
	return false
}

// checkForward: batch handlers — every state-changing site is a call of the frozen
// single-item handler with a request whose signer field is the batch message's signer.
func checkForward(P *core.Program, R *core.Report, mr *msgRoot, ff *core.FuncFacts, tc c17Class, roots []*msgRoot) {
	var target *msgRoot
	for _, r := range roots {
		if r.Key == tc.Forward {
			target = r
		}
	}
	if target == nil {
		R.Add("C17-forward", mr.Key, tc.Forward, P.Pos(mr.Fn.Pos()), false, "frozen single-item handler not found (unresolved anchor)")
		return
	}
	n := 0
	for _, c := range core.Calls(mr.Fn) {
		w, why := P.SiteMayWrite(c)
		if !w || !ff.Reachable(c) {
			continue
		}
		n++
		if !calleeMatches(P, c, tc.Forward) {
			R.Add("C17-forward", mr.Key, "effect "+P.CalleeKey(c.Common()), P.Pos(P.InstrPos(c)), false,
				"batch handler changes state ("+shortWhy(why)+") other than through "+tc.Forward)
			continue
		}
		// the request argument: a composite literal whose <target signer> field is msg.<signer>
		args := c.Common().Args
		req := args[len(args)-1]
		ok := false
		if alloc, isAlloc := req.(*ssa.Alloc); isAlloc && alloc.Referrers() != nil {
			for _, r := range *alloc.Referrers() {
				fa, isFA := r.(*ssa.FieldAddr)
				if !isFA || core.FieldName(fa.X.Type(), fa.Field) != target.Signer || fa.Referrers() == nil {
					continue
				}
				for _, rr := range *fa.Referrers() {
					if st, isSt := rr.(*ssa.Store); isSt && st.Addr == fa {
						ok = ff.AllOrigins(st.Val, nil, func(o core.Origin) bool {
							return o.Kind == "param" && o.Val == ssa.Value(mr.Msg) && o.Path == "."+mr.Signer
						})
					}
				}
			}
		}
		R.Add("C17-forward", mr.Key, "call "+tc.Forward, P.Pos(P.InstrPos(c)), ok,
			fmt.Sprintf("the forwarded request's %s must be the batch message's signer msg.%s", target.Signer, mr.Signer))
	}
	if n == 0 {
		R.Add("C17-forward", mr.Key, "no effect site", P.Pos(mr.Fn.Pos()), false, "handler has no state-changing site (anchor changed)")
	}
}

// checkNoFunds: state-only handlers must not reach a bank transfer, mint or burn.
func checkNoFunds(P *core.Program, R *core.Report, mr *msgRoot) {
	mt := P.Summary("mayTransfer", func(fn *ssa.Function) bool {
		for _, c := range core.Calls(fn) {
			switch P.EffectOf(c) {
			case core.EffBankSend, core.EffMint, core.EffBurn:
				return true
			}
		}
		return false
	})
	R.Add("C17-state-only", mr.Key, "no bank effect reachable", P.Pos(mr.Fn.Pos()), !mt[mr.Fn],
		"a handler without authority/owner binding must not reach a bank transfer, mint or burn")
}

// checkKeyCalls: frozen owner-keyed lookups/debits must receive a signer-derived argument.
func checkKeyCalls(P *core.Program, R *core.Report, mr *msgRoot, tc c17Class) {
	for _, kc := range tc.KeyCalls {
		found, ok := findSignerCall(P, mr.Fn, mr.Msg, mr.Signer, kc, nil, 0, map[*ssa.Function]bool{})
		switch {
		case !found:
			R.Add("C17-owner-keyed", mr.Key, kc, P.Pos(mr.Fn.Pos()), false, "frozen owner-keyed call no longer reached from the handler (unresolved anchor)")
		case !ok:
			R.Add("C17-owner-keyed", mr.Key, kc, P.Pos(mr.Fn.Pos()), false, "owner-keyed call does not receive an address derived from msg."+mr.Signer)
		default:
			R.Add("C17-owner-keyed", mr.Key, kc, P.Pos(mr.Fn.Pos()), true, "receives an address derived from msg."+mr.Signer)
		}
	}
}

// signerTransparent lets the slice pass through address conversions.
func signerTransparent(c *ssa.Call) []ssa.Value {
	switch core.CalleeName(c.Common()) {
	case "AccAddressFromBech32", "MustAccAddressFromBech32", "String", "GetSigners":
		return c.Common().Args
	}
	return nil
}

// findSignerCall searches fn (and callees that receive the message or signer-derived
// values, depth ≤ 3) for calls to `target`; ok if EVERY such call has an argument whose
// origins are exactly msg.<signer> (or a signer-derived parameter).
func findSignerCall(P *core.Program, fn *ssa.Function, msg ssa.Value, signer, target string, signerParams map[ssa.Value]bool, depth int, seen map[*ssa.Function]bool) (found, ok bool) {
	if seen[fn] || depth > 3 {
		return false, true
	}
	seen[fn] = true
	ff := P.Facts(fn)
	ok = true
	isSignerVal := func(v ssa.Value) bool {
		// helpers that merely repackage the message (msg.Parties() → {Sender: decode(msg.Sender)})
		// are expanded through their bodies
		os := P.DeepOrigins(ff, v, "", signerTransparent, 3)
		if len(os) == 0 {
			return false
		}
		for _, o := range os {
			if signerParams[o.Val] && o.Path == "" {
				continue
			}
			if msg != nil && o.Kind == "param" && o.Val == msg {
				p := strings.TrimPrefix(o.Path, "#0") // tuple extract of conversion
				if p == "."+signer || p == "#0."+signer || strings.HasSuffix(p, "."+signer) {
					continue
				}
			}
			return false
		}
		return true
	}
	for _, c := range core.Calls(fn) {
		cc := c.Common()
		key := P.CalleeKey(cc)
		matches := key == target
		for _, t := range P.Callees(c) {
			if P.Key(t) == target {
				matches = true
			}
		}
		if matches {
			found = true
			has := false
			for _, a := range cc.Args {
				if isSignerVal(a) {
					has = true
				}
			}
			if !has {
				ok = false
			}
			continue
		}
		// descend into callees receiving msg or signer-derived values
		for _, t := range P.Callees(c) {
			sp := map[ssa.Value]bool{}
			var nmsg ssa.Value
			for i, a := range cc.Args {
				pi := i
				if cc.IsInvoke() {
					pi = i + 1
				}
				if pi >= len(t.Params) {
					continue
				}
				if msg != nil && ff.Fwd(a) == msg {
					nmsg = t.Params[pi]
				} else if isSignerVal(a) {
					sp[t.Params[pi]] = true
				}
			}
			if nmsg != nil || len(sp) > 0 {
				f2, ok2 := findSignerCall(P, t, nmsg, signer, target, sp, depth+1, seen)
				if f2 {
					found = true
					if !ok2 {
						ok = false
					}
				}
			}
		}
	}
	return found, ok
}

// checkOwnerCheck: tradeshield update/cancel — effects require order.OwnerAddress == msg.OwnerAddress.
func checkOwnerCheck(P *core.Program, R *core.Report, mr *msgRoot, ff *core.FuncFacts, tc c17Class) {
	n := 0
	for _, c := range core.Calls(mr.Fn) {
		w, why := P.SiteMayWrite(c)
		if !w || !ff.Reachable(c) {
			continue
		}
		n++
		ok := false
		for _, a := range ff.At(c) {
			if a.Rel != core.EQ || a.B == nil {
				continue
			}
			for _, pair := range [][2]ssa.Value{{a.A, a.B}, {a.B, a.A}} {
				msgSide := ff.AllOrigins(pair[0], nil, func(o core.Origin) bool {
					return o.Kind == "param" && o.Val == ssa.Value(mr.Msg) && o.Path == "."+mr.Signer
				})
				recSide := ff.AllOrigins(pair[1], nil, func(o core.Origin) bool {
					if !(o.Kind == "call" && o.Path == "#0.OwnerAddress" && strings.Contains(o.Name, "GetPending")) {
						return false
					}
					// the stored order must be the one named by msg.OrderId
					call, _ := o.Val.(*ssa.Call)
					if call == nil {
						return false
					}
					for _, arg := range call.Common().Args {
						if ff.AllOrigins(arg, nil, func(ao core.Origin) bool {
							return ao.Kind == "param" && ao.Val == ssa.Value(mr.Msg) && ao.Path == ".OrderId"
						}) {
							return true
						}
					}
					return false
				})
				if msgSide && recSide {
					ok = true
				}
			}
		}
		R.Add("C17-owner-check", mr.Key, "effect "+P.CalleeKey(c.Common()), P.Pos(P.InstrPos(c)), ok,
			"state-changing site ("+shortWhy(why)+") must be dominated by storedOrder.OwnerAddress == msg."+mr.Signer)
	}
	if n == 0 {
		R.Add("C17-owner-check", mr.Key, "no effect site", P.Pos(mr.Fn.Pos()), false, "handler has no state-changing site to guard (anchor changed)")
	}
}

// signerCalls lists (inventory only) the calls reached from the handler (following the
// message and signer-derived values, depth ≤ 3) that receive a signer-derived argument.
func signerCalls(P *core.Program, mr *msgRoot) []string {
	var out []string
	seenS := map[string]bool{}
	var walk func(fn *ssa.Function, msg ssa.Value, sp map[ssa.Value]bool, depth int, seen map[*ssa.Function]bool)
	walk = func(fn *ssa.Function, msg ssa.Value, sp map[ssa.Value]bool, depth int, seen map[*ssa.Function]bool) {
		if seen[fn] || depth > 3 {
			return
		}
		seen[fn] = true
		ff := P.Facts(fn)
		isSignerVal := func(v ssa.Value) bool {
			return ff.AllOrigins(v, signerTransparent, func(o core.Origin) bool {
				if sp[o.Val] && o.Path == "" {
					return true
				}
				return msg != nil && o.Kind == "param" && o.Val == msg && strings.HasSuffix(o.Path, "."+mr.Signer)
			})
		}
		for _, c := range core.Calls(fn) {
			cc := c.Common()
			name := core.CalleeName(cc)
			if name == "AccAddressFromBech32" || name == "MustAccAddressFromBech32" || name == "String" {
				continue
			}
			has := false
			for _, a := range cc.Args {
				if isSignerVal(a) {
					has = true
				}
			}
			if has {
				w, _ := P.SiteMayWrite(c)
				line := fmt.Sprintf("d%d %s write=%v", depth, P.CalleeKey(cc), w)
				if !seenS[line] {
					seenS[line] = true
					out = append(out, line)
				}
			}
			for _, t := range P.Callees(c) {
				nsp := map[ssa.Value]bool{}
				var nmsg ssa.Value
				for i, a := range cc.Args {
					pi := i
					if cc.IsInvoke() {
						pi = i + 1
					}
					if pi >= len(t.Params) {
						continue
					}
					if msg != nil && ff.Fwd(a) == msg {
						nmsg = t.Params[pi]
					} else if isSignerVal(a) {
						nsp[t.Params[pi]] = true
					}
				}
				if nmsg != nil || len(nsp) > 0 {
					walk(t, nmsg, nsp, depth+1, seen)
				}
			}
		}
	}
	walk(mr.Fn, mr.Msg, nil, 0, map[*ssa.Function]bool{})
	return out
}
