package rules

import (
	"os"
	"fmt"
	"go/token"
	"strings"

	"elyslint/core"

	"golang.org/x/tools/go/ssa"
)

func init() { register("C13", checkC13) }

func checkC13(P *core.Program, R *core.Report) {
	R.Explanation = "R9 symbolic split conservation on the three masterchef collectors: amounts are evaluated to linear forms over the collected whole with uninterpreted portion coefficients (MulDecTruncate(x,p) ↦ p·x, PortionCoins(x,p) ↦ p·x, TruncateDecimal/NewDecCoinsFromCoins ↦ identity; truncation dust stays with the payer); bank transfers are classified by account provenance; " +
		"S1: the masterchef module's net inflow equals the amount the function reports as credited to LPs; S2: in rest := whole.Sub(Portion(whole', p)) whole ≡ whole' (this rule reported F-13a); the module account is never a payer in the gas/perpetual collectors (F-13b). " +
		"External incentives: the amount funded is AmountPerBlock·(ToBlock − FromBlock) and the crediting window is FromBlock < h ≤ ToBlock (same count), credited per block with AmountPerBlock of the same record. ClaimRewards: the payout coin is RewardPending (truncated) of the record whose RewardPending is reset to zero on the same paths and stored/removed, and the accumulated coins are paid from the module. " +
		"Checkpoints: UpdateUserRewardPending dominates UpdateUserRewardDebt for the same (pool, denom, user) with the matching deposit flag; the amounts handed to AfterBond/AfterUnbond/AfterJoinPool/AfterExitPool are the committed/uncommitted/minted/burnt share amounts themselves and masterchef's hooks forward them unchanged; masterchef's AmmHooks and StableStakeHooks are registered; a pool-info record modified in ProcessExternalRewardsDistribution reaches SetPoolInfo before it is dropped. Σ pending ≤ balance as a number, Eden (virtual) rewards and dust accounting are not decided."
	checkSameKeyDelete(P, R, "C13-same-record", func(k string) bool { return os.Getenv("ELYSLINT_SAMEKEY_ALL") != "" || strings.HasPrefix(k, "x/masterchef/") })
	checkSplits(P, R)
	checkRewardDenomsAppendOnly(P, R)
	checkExternalIncentive(P, R)
	checkClaimRewards(P, R)
	checkCheckpoints(P, R)
	checkHookAmounts(P, R)
	w := hookWiring(P)
	R.Add("C13-wiring", "app/keepers.NewAppKeeper", "AmmKeeper.SetHooks", "app/keepers/keepers.go", indexOf(w["x/amm/keeper"], "x/masterchef/keeper.AmmHooks") >= 0, "masterchef AmmHooks registered: "+strings.Join(w["x/amm/keeper"], ", "))
	R.Add("C13-wiring", "app/keepers.NewAppKeeper", "StablestakeKeeper.SetHooks", "app/keepers/keepers.go", indexOf(w["x/stablestake/keeper"], "x/masterchef/keeper.StableStakeHooks") >= 0, "masterchef StableStakeHooks registered: "+strings.Join(w["x/stablestake/keeper"], ", "))
	checkModifiedPersisted(P, R, "C13-modified-persisted", "x/masterchef/keeper.Keeper.ProcessExternalRewardsDistribution", "x/masterchef/keeper.Keeper.GetPoolInfo", "x/masterchef/keeper.Keeper.SetPoolInfo")
}

// splitLin: linear form with TruncateDecimal#0 / NewDecCoinsFromCoins as identity.
func splitLin(ff *core.FuncFacts, v ssa.Value) core.Lin {
	ff.IdentityCalls = map[string]bool{"TruncateDecimal": true}
	defer func() { ff.IdentityCalls = nil }()
	return linOfArg(ff, v)
}

func checkSplits(P *core.Program, R *core.Report) {
	type collector struct {
		key      string
		credited func(fn *ssa.Function, ff *core.FuncFacts) (core.Lin, bool)
		payerMC  bool // masterchef module may pay (DEX revenue passes through it)
	}
	retCredited := func(fn *ssa.Function, ff *core.FuncFacts) (core.Lin, bool) {
		// the DecCoins returned on the final success exit (the one without IsZero shortcut)
		var best core.Lin
		found := false
		for _, ex := range ff.Exits() {
			if ex.Kind != core.ExitSuccess {
				continue
			}
			ret := ex.Instr.(*ssa.Return)
			l := splitLin(ff, ret.Results[0])
			if l.IsZero() {
				continue
			}
			best, found = l, true
		}
		return best, found
	}
	for _, c := range []collector{
		{"x/masterchef/keeper.Keeper.CollectGasFees", retCredited, false},
		{"x/masterchef/keeper.Keeper.CollectPerpRevenue", retCredited, false},
		{"x/masterchef/keeper.Keeper.CollectDEXRevenue$1", func(fn *ssa.Function, ff *core.FuncFacts) (core.Lin, bool) {
			// amountLPsCollected = amountLPsCollected.Add(x…)
			for _, cl := range core.Calls(fn) {
				sc := cl.Common().StaticCallee()
				if sc == nil || sc.Name() != "Add" || sc.Signature.Recv() == nil || core.NamedName(sc.Signature.Recv().Type()) != "DecCoins" {
					continue
				}
				return splitLin(ff, cl.Common().Args[1]), true
			}
			return nil, false
		}, true},
	} {
		fn := P.Fn(c.key)
		if fn == nil {
			R.Add("C13-split", c.key, "function", "-", false, "unresolved anchor")
			continue
		}
		ff := P.Facts(fn)
		net := core.Lin{}
		nSend := 0
		payer := ""
		for _, cl := range core.Calls(fn) {
			if P.EffectOf(cl) != core.EffBankSend {
				continue
			}
			nSend++
			from, to, coins := bankEnds(cl)
			amt := splitLin(ff, coins)
			if isModuleAccount(ff, to, "masterchef") {
				net = net.Plus(amt, 1)
			}
			if isModuleAccount(ff, from, "masterchef") {
				net = net.Plus(amt, -1)
				payer = P.Pos(P.InstrPos(cl))
			}
		}
		cred, ok := c.credited(fn, ff)
		R.Add("C13-split", c.key, "S1 module net inflow ≡ credited to LPs", P.Pos(fn.Pos()), ok && nSend >= 3 && net.Equal(cred),
			fmt.Sprintf("net inflow of the masterchef module: %s ; credited: %s", net.String(), cred.String()))
		if !c.payerMC {
			R.Add("C13-split", c.key, "module account is not a payer", P.Pos(fn.Pos()), payer == "", "staker/provider/protocol portions are paid by the account that holds them, not out of the LP reward pot. "+payer)
		}
		// S2: rest := whole.Sub(PortionCoins(whole', p))
		for _, cl := range core.Calls(fn) {
			sc := cl.Common().StaticCallee()
			if sc == nil || sc.Name() != "Sub" || sc.Signature.Recv() == nil || core.NamedName(sc.Signature.Recv().Type()) != "Coins" {
				continue
			}
			pc, isC := ff.Fwd(cl.Common().Args[1]).(*ssa.Call)
			if !isC || core.CalleeName(pc.Common()) != "PortionCoins" {
				continue
			}
			whole := splitLin(ff, cl.Common().Args[0])
			whole2 := splitLin(ff, pc.Common().Args[0])
			R.Add("C13-split", c.key, "S2 portion of its own whole", P.Pos(P.InstrPos(cl)), whole.Equal(whole2),
				fmt.Sprintf("rest = whole − portion(whole'): whole = %s ; whole' = %s", whole.String(), whole2.String()))
		}
	}
}

func checkExternalIncentive(P *core.Program, R *core.Report) {
	const key = "x/masterchef/keeper.msgServer.AddExternalIncentive"
	fn := P.Fn(key)
	if fn == nil {
		R.Add("C13-external-incentive", key, "function", "-", false, "unresolved anchor")
	} else {
		ff := P.Facts(fn)
		isMsg := func(v ssa.Value, f string) bool {
			return originsAll(ff, v, func(o core.Origin) bool { return o.Kind == "param" && o.Name == "msg" && o.Path == "."+f })
		}
		funded := false
		for _, c := range core.Calls(fn) {
			if P.EffectOf(c) != core.EffBankSend {
				continue
			}
			_, to, coins := bankEnds(c)
			if !isModuleAccount(ff, to, "masterchef") {
				continue
			}
			els, _ := core.SliceLiteral(ff.Fwd(coins))
			if len(els) != 1 {
				continue
			}
			nc, isC := ff.Fwd(els[0]).(*ssa.Call)
			if !isC || core.CalleeName(nc.Common()) != "NewCoin" {
				continue
			}
			// AmountPerBlock.Mul(NewInt(ToBlock - FromBlock))
			m, _, ok := mathCall(ff, nc.Common().Args[1], "Mul")
			if !ok || len(m) != 2 || !isMsg(m[0], "AmountPerBlock") {
				continue
			}
			ni, _, ok := mathCall(ff, m[1], "NewInt")
			if !ok || len(ni) != 1 {
				continue
			}
			bo, isB := ff.Fwd(ni[0]).(*ssa.BinOp)
			if isB && bo.Op == token.SUB && isMsg(bo.X, "ToBlock") && isMsg(bo.Y, "FromBlock") && isMsg(nc.Common().Args[0], "RewardDenom") {
				funded = true
			}
		}
		// the stored record carries the same fields
		stored := 0
		for _, b := range fn.Blocks {
			for _, in := range b.Instrs {
				st, ok := in.(*ssa.Store)
				if !ok {
					continue
				}
				fa, ok := st.Addr.(*ssa.FieldAddr)
				if !ok || core.NamedName(fa.X.Type()) != "ExternalIncentive" {
					continue
				}
				f := core.FieldName(fa.X.Type(), fa.Field)
				switch f {
				case "FromBlock", "ToBlock", "AmountPerBlock", "RewardDenom", "PoolId":
					if isMsg(st.Val, f) {
						stored++
					}
				}
			}
		}
		R.Add("C13-external-incentive", key, "funded = AmountPerBlock·(ToBlock − FromBlock)", P.Pos(fn.Pos()), funded && stored == 5, "the incentive record stores exactly the message's window and rate, and the module receives rate × window length")
	}
	const key2 = "x/masterchef/keeper.Keeper.ProcessExternalRewardsDistribution"
	fn2 := P.Fn(key2)
	if fn2 == nil {
		R.Add("C13-external-incentive", key2, "function", "-", false, "unresolved anchor")
		return
	}
	ff := P.Facts(fn2)
	n := 0
	for _, c := range core.Calls(fn2) {
		if !calleeMatches(P, c, "x/masterchef/keeper.Keeper.UpdateAccPerShare") {
			continue
		}
		n++
		args := c.Common().Args
		recOK := fieldOfRecordAny(ff, args[2], "PoolId") && fieldOfRecordAny(ff, args[3], "RewardDenom") && fieldOfRecordAny(ff, args[4], "AmountPerBlock")
		lo, hi := false, false
		for _, a := range ff.At(c) {
			if a.B == nil {
				continue
			}
			isH := func(v ssa.Value) bool {
				c, ok := ff.Fwd(v).(*ssa.Call)
				return ok && core.CalleeName(c.Common()) == "BlockHeight"
			}
			if a.Rel == core.LT && fieldOfRecordAny(ff, a.A, "FromBlock") && isH(a.B) {
				lo = true
			}
			if a.Rel == core.LE && isH(a.A) && fieldOfRecordAny(ff, a.B, "ToBlock") {
				hi = true
			}
		}
		R.Add("C13-external-incentive", key2, "credit AmountPerBlock in FromBlock < h ≤ ToBlock", P.Pos(P.InstrPos(c)), recOK && lo && hi, "exactly ToBlock − FromBlock blocks are credited, each with the record's own rate, pool and denom")
	}
	if n != 1 {
		R.Add("C13-external-incentive", key2, "UpdateAccPerShare", P.Pos(fn2.Pos()), false, "expected exactly one crediting call (anchor changed)")
	}
}

// fieldOfRecordAny: v is <anything>.<field> (last path component).
func fieldOfRecordAny(ff *core.FuncFacts, v ssa.Value, field string) bool {
	return originsAll(ff, v, func(o core.Origin) bool { return strings.HasSuffix(o.Path, "."+field) })
}

func checkClaimRewards(P *core.Program, R *core.Report) {
	const key = "x/masterchef/keeper.Keeper.ClaimRewards"
	fn := P.Fn(key)
	if fn == nil {
		R.Add("C13-claim", key, "function", "-", false, "unresolved anchor")
		return
	}
	ff := P.Facts(fn)
	var coin, reset ssa.Instruction
	for _, c := range core.Calls(fn) {
		if core.CalleeName(c.Common()) != "NewCoin" || len(c.Common().Args) != 2 {
			continue
		}
		if t, _, ok := mathCall(ff, c.Common().Args[1], "TruncateInt"); ok && len(t) == 1 {
			if _, isP := fieldLoad(ff, t[0], "RewardPending"); isP {
				coin = c
			}
		}
	}
	for _, b := range fn.Blocks {
		for _, in := range b.Instrs {
			if st, ok := in.(*ssa.Store); ok {
				if fa, ok := st.Addr.(*ssa.FieldAddr); ok && core.FieldName(fa.X.Type(), fa.Field) == "RewardPending" && ff.LinOf(st.Val).IsZero() {
					reset = in
				}
			}
		}
	}
	paired := coin != nil && reset != nil && coin.Block() == reset.Block()
	if paired {
		// coin is read before the reset
		paired = core.Dominates(coin, reset)
	}
	R.Add("C13-claim", key, "payout coin ↔ RewardPending reset", P.Pos(fn.Pos()), paired, "what is paid is the pending amount that is reset to zero in the same step")
	// persisted: after reset, Set or Remove before loop continues / exit
	if reset != nil {
		_, esc := core.ReachesWithout(fn, reset, func(in ssa.Instruction) bool {
			if _, isRet := in.(*ssa.Return); isRet {
				return true
			}
			c, ok := in.(ssa.CallInstruction)
			return ok && calleeMatches(P, c, "x/masterchef/keeper.Keeper.GetUserRewardInfo")
		}, func(in ssa.Instruction) bool {
			c, ok := in.(ssa.CallInstruction)
			return ok && (calleeMatches(P, c, "x/masterchef/keeper.Keeper.SetUserRewardInfo") || calleeMatches(P, c, "x/masterchef/keeper.Keeper.RemoveUserRewardInfo"))
		})
		R.Add("C13-claim", key, "reset is stored", P.Pos(P.InstrPos(reset)), !esc, "the reset record is stored or removed before the next record is loaded")
	}
	// checkpoint before reading pending: AfterWithdraw(…, 0) dominates GetUserRewardInfo
	var aw, get ssa.Instruction
	for _, c := range core.Calls(fn) {
		if calleeMatches(P, c, "x/masterchef/keeper.Keeper.AfterWithdraw") {
			aw = c
		}
		if calleeMatches(P, c, "x/masterchef/keeper.Keeper.GetUserRewardInfo") {
			get = c
		}
	}
	R.Add("C13-claim", key, "checkpoint before payout", P.Pos(fn.Pos()), aw != nil && get != nil && core.Dominates(aw, get), "pending is brought up to date (AfterWithdraw with zero) before it is read")
	// payout from the module to the recipient parameter
	okPay := false
	for _, c := range core.Calls(fn) {
		if !strings.HasSuffix(P.CalleeKey(c.Common()), "CommitmentKeeper.SendCoinsFromModuleToAccount") {
			continue
		}
		args := c.Common().Args
		okPay = isModuleAccount(ff, args[1], "masterchef") && ff.Fwd(args[2]) == ssa.Value(fn.Params[4])
	}
	R.Add("C13-claim", key, "paid from the masterchef module to the recipient", P.Pos(fn.Pos()), okPay, "")
}

func checkCheckpoints(P *core.Program, R *core.Report) {
	// AfterDeposit / AfterWithdraw: for every reward denom of the pool (a loop over
	// GetRewardDenoms(ctx, poolId)) the user's pending reward is settled at the old balance
	// (UpdateUserRewardPending with the hook's own pool, user, amount and the right direction
	// flag) before the debt is re-based (UpdateUserRewardDebt, same pool, denom, user).  The
	// two calls may sit in the hook itself or in helpers it hands its arguments to; roles are
	// followed through the calls.
	for _, h := range []struct{ fn, dep string }{
		{"x/masterchef/keeper.Keeper.AfterDeposit", "true"},
		{"x/masterchef/keeper.Keeper.AfterWithdraw", "false"},
	} {
		fn := P.Fn(h.fn)
		if fn == nil || len(fn.Params) < 5 {
			R.Add("C13-checkpoint", h.fn, "function", "-", false, "unresolved anchor")
			continue
		}
		bind := map[ssa.Value]string{fn.Params[2]: "POOL", fn.Params[3]: "USER", fn.Params[4]: "AMOUNT"}
		ok, why := checkpointIn(P, fn, bind, h.dep, 0)
		R.Add("C13-checkpoint", h.fn, "pending(old balance, direction "+h.dep+") before debt, for every reward denom", P.Pos(fn.Pos()), ok,
			"the user's pending reward is settled at the old balance before the debt is re-based on the new one, for the same pool, denom and user, on every reward denom of the pool. "+why)
	}
}

// checkpointIn looks for the pending/debt pair in fn under the role binding of its values.
func checkpointIn(P *core.Program, fn *ssa.Function, bind map[ssa.Value]string, dep string, depth int) (bool, string) {
	if depth > 3 || fn.Blocks == nil {
		return false, "not found"
	}
	ff := P.Facts(fn)
	role := func(v ssa.Value) string {
		v = ff.Fwd(v)
		if r, ok := bind[v]; ok {
			return r
		}
		if k, ok := v.(*ssa.Const); ok && k.Value != nil {
			return "CONST:" + k.Value.String()
		}
		// an element of GetRewardDenoms(ctx, POOL)
		for _, o := range ff.Origins(v) {
			if c, ok := o.Val.(*ssa.Call); ok && o.Kind == "call" && strings.HasSuffix(o.Name, "Keeper.GetRewardDenoms") && strings.HasSuffix(o.Path, "[]") {
				a := c.Common().Args
				if r, ok := bind[ff.Fwd(a[len(a)-1])]; ok && r == "POOL" {
					return "DENOM"
				}
			}
		}
		return ""
	}
	var pend, debt ssa.CallInstruction
	for _, c := range core.Calls(fn) {
		if calleeMatches(P, c, "x/masterchef/keeper.Keeper.UpdateUserRewardPending") {
			pend = c
		}
		if calleeMatches(P, c, "x/masterchef/keeper.Keeper.UpdateUserRewardDebt") {
			debt = c
		}
	}
	if pend != nil && debt != nil {
		pa, da := pend.Common().Args, debt.Common().Args
		// (k, ctx, poolId, rewardDenom, user, isDeposit, amount) / (k, ctx, poolId, rewardDenom, user)
		switch {
		case !core.Dominates(pend, debt):
			return false, "the debt is re-based before the pending reward is settled"
		case role(pa[2]) != "POOL" || role(da[2]) != "POOL" || role(pa[4]) != "USER" || role(da[4]) != "USER":
			return false, "pool / user of the two calls are not the hook's own"
		case role(pa[3]) != "DENOM" || role(da[3]) != "DENOM" || ff.Fwd(pa[3]) != ff.Fwd(da[3]):
			return false, "the reward denom is not one and the same element of GetRewardDenoms(pool)"
		case role(pa[5]) != "CONST:"+dep:
			return false, "direction flag is " + role(pa[5]) + ", want " + dep
		case role(pa[6]) != "AMOUNT":
			return false, "amount is not the hook's amount"
		}
		return true, ""
	}
	// handed on to a helper
	for _, c := range core.Calls(fn) {
		sc := c.Common().StaticCallee()
		if sc == nil || !core.InModule(sc) || sc.Blocks == nil || core.PkgRel(sc) != core.PkgRel(fn) {
			continue
		}
		nb := map[ssa.Value]string{}
		n := 0
		for i, a := range c.Common().Args {
			if i < len(sc.Params) {
				if r := role(a); r != "" {
					nb[sc.Params[i]] = r
					if !strings.HasPrefix(r, "CONST:") {
						n++
					}
				}
			}
		}
		if n < 3 {
			continue
		}
		// constants travel as roles: a bound parameter with role CONST:x answers as that constant
		if ok, why := checkpointIn(P, sc, nb, dep, depth+1); ok {
			return true, ""
		} else if why != "not found" {
			return false, why
		}
	}
	return false, "not found"
}

// checkHookAmounts: the amount handed to the reward checkpoint hooks is the share amount
// that was committed / uncommitted.
func checkHookAmounts(P *core.Program, R *core.Report) {
	same := func(ff *core.FuncFacts, a, b ssa.Value) bool {
		if ff.Fwd(a) == ff.Fwd(b) {
			return true
		}
		la, lb := ff.LinOf(a), ff.LinOf(b)
		return len(la) == 1 && la.Equal(lb)
	}
	for _, h := range []struct {
		fn, hook, partner string
		hookArg, partArg  int // from the end of Args
	}{
		{"x/stablestake/keeper.msgServer.Bond", "x/stablestake/types.StableStakeHooks.AfterBond", "x/commitment/keeper.Keeper.CommitLiquidTokens", 1, 2},
		{"x/stablestake/keeper.msgServer.Unbond", "x/stablestake/types.StableStakeHooks.AfterUnbond", "x/commitment/keeper.Keeper.UncommitTokens", 1, 2},
		{ammApplyJoin, "x/amm/types.AmmHooks.AfterJoinPool", ammMintShare, 1, 1},
		{ammApplyExit, "x/amm/types.AmmHooks.AfterExitPool", "x/commitment/keeper.Keeper.UncommitTokens", 2, 2},
	} {
		fn := P.Fn(h.fn)
		if fn == nil {
			R.Add("C13-hook-amount", h.fn, "function", "-", false, "unresolved anchor")
			continue
		}
		ff := P.Facts(fn)
		var hv, pv ssa.Value
		for _, c := range core.Calls(fn) {
			a := c.Common().Args
			if P.CalleeKey(c.Common()) == h.hook {
				hv = a[len(a)-h.hookArg]
			}
			if calleeMatches(P, c, h.partner) && P.CalleeKey(c.Common()) != h.hook {
				pv = a[len(a)-h.partArg]
			}
		}
		R.Add("C13-hook-amount", h.fn, h.hook+" amount", P.Pos(fn.Pos()), hv != nil && pv != nil && same(ff, hv, pv),
			"the reward checkpoint hook is told the share amount that was actually committed / uncommitted (a different amount mis-credits pending rewards)")
	}
	// masterchef's hook receivers forward the amount unchanged
	for _, h := range []struct {
		fn, inner string
		param     int // index in fn.Params of the amount
	}{
		{"x/masterchef/keeper.AmmHooks.AfterJoinPool", "x/masterchef/keeper.Keeper.AfterJoinPool", 5},
		{"x/masterchef/keeper.AmmHooks.AfterExitPool", "x/masterchef/keeper.Keeper.AfterExitPool", 4},
		{"x/masterchef/keeper.StableStakeHooks.AfterBond", "x/masterchef/keeper.Keeper.AfterDeposit", 3},
		{"x/masterchef/keeper.StableStakeHooks.AfterUnbond", "x/masterchef/keeper.Keeper.AfterWithdraw", 3},
		{"x/masterchef/keeper.Keeper.AfterJoinPool", "x/masterchef/keeper.Keeper.AfterDeposit", 5},
		{"x/masterchef/keeper.Keeper.AfterExitPool", "x/masterchef/keeper.Keeper.AfterWithdraw", 4},
	} {
		fn := P.Fn(h.fn)
		if fn == nil {
			R.Add("C13-hook-amount", h.fn, "function", "-", false, "unresolved anchor")
			continue
		}
		ff := P.Facts(fn)
		ok := false
		if h.param < len(fn.Params) {
			for _, c := range core.Calls(fn) {
				if !calleeMatches(P, c, h.inner) {
					continue
				}
				for _, a := range c.Common().Args {
					if ff.Fwd(a) == ssa.Value(fn.Params[h.param]) {
						ok = true
					}
				}
			}
		}
		R.Add("C13-hook-amount", h.fn, "forwards the share amount", P.Pos(fn.Pos()), ok, "hook receiver passes the share amount on to "+h.inner+" by identity")
	}
}

// checkModifiedPersisted: a record loaded with `load` and then modified (field store) in
// fnKey must reach `persist` before the next load or an exit.
func checkModifiedPersisted(P *core.Program, R *core.Report, rule, fnKey, load, persist string) {
	fn := P.Fn(fnKey)
	if fn == nil {
		R.Add(rule, fnKey, "function", "-", false, "unresolved anchor")
		return
	}
	ff := P.Facts(fn)
	n := 0
	for _, b := range fn.Blocks {
		for _, in := range b.Instrs {
			st, ok := in.(*ssa.Store)
			if !ok {
				continue
			}
			fa, ok := st.Addr.(*ssa.FieldAddr)
			if !ok {
				continue
			}
			base, _ := baseOf(fa)
			al, isAlloc := base.(*ssa.Alloc)
			if !isAlloc {
				continue
			}
			fromLoad := false
			for _, o := range recordOrigins(ff, al) {
				if c, isC := o.Val.(*ssa.Call); isC && o.Kind == "call" && calleeMatches(P, c, load) {
					fromLoad = true
				}
			}
			if !fromLoad {
				continue
			}
			n++
			_, esc := core.ReachesWithout(fn, in, func(x ssa.Instruction) bool {
				if _, isRet := x.(*ssa.Return); isRet {
					return true
				}
				c, ok := x.(ssa.CallInstruction)
				return ok && calleeMatches(P, c, load)
			}, func(x ssa.Instruction) bool {
				c, ok := x.(ssa.CallInstruction)
				if !ok || !calleeMatches(P, c, persist) {
					return false
				}
				for _, a := range c.Common().Args {
					if u, isU := a.(*ssa.UnOp); isU && u.X == ssa.Value(al) {
						return true
					}
					if a == ssa.Value(al) {
						return true
					}
				}
				return false
			})
			R.Add(rule, fnKey, "modified "+core.FieldName(fa.X.Type(), fa.Field)+" ⇒ "+persist, P.Pos(P.InstrPos(in)), !esc, "a modified record must be stored before it is dropped (next load / return)")
		}
	}
	if n == 0 {
		R.Add(rule, fnKey, "modified record", P.Pos(fn.Pos()), false, "no modification found (anchor changed)")
	}
}

// checkRewardDenomsAppendOnly (C13-denoms-append-only, who-may-write): the deposit / withdraw
// hooks settle a user's reward debt for exactly the denoms listed in the pool's
// ExternalRewardDenoms.  A denom that is taken off the list stops being settled while the
// pool's accumulated-per-share figure for it stays; when an incentive in that denom runs again,
// shares that joined in between have no debt for the old accumulation and are credited rewards
// of blocks they were not in — more than was ever funded.  In consensus code the list only
// grows: every store to the field writes a fresh empty list into a new record, or
// append(<the same field>, …).
func checkRewardDenomsAppendOnly(P *core.Program, R *core.Report) {
	const rule = "C13-denoms-append-only"
	subjects := P.Reach(P.FindRoots().Consensus())
	n := 0
	for _, fn := range P.Funcs {
		if !subjects[fn] || core.IsGeneratedOrAux(P.File(fn.Pos())) || !strings.HasPrefix(P.Key(fn), "x/masterchef/") {
			continue
		}
		ff := P.Facts(fn)
		for _, b := range fn.Blocks {
			for _, in := range b.Instrs {
				st, ok := in.(*ssa.Store)
				if !ok {
					continue
				}
				fa, ok := st.Addr.(*ssa.FieldAddr)
				if !ok || core.FieldName(fa.X.Type(), fa.Field) != "ExternalRewardDenoms" || core.NamedName(fa.X.Type()) != "PoolInfo" {
					continue
				}
				n++
				good := false
				if _, fresh := fa.X.(*ssa.Alloc); fresh {
					if els, isLit := core.SliceLiteral(ff.Fwd(st.Val)); isLit && len(els) == 0 {
						good = true
					}
					if sl, ok := ff.Fwd(st.Val).(*ssa.Slice); ok {
						if _, isArr := sl.X.(*ssa.Alloc); isArr {
							good = true // a literal for a record created here
						}
					}
				}
				if c, ok := ff.Fwd(st.Val).(*ssa.Call); ok {
					if bi, isB := c.Common().Value.(*ssa.Builtin); isB && bi.Name() == "append" && len(c.Common().Args) == 2 {
						// append(old value of the same field, …)
						for _, o := range ff.Origins(c.Common().Args[0]) {
							if strings.HasSuffix(o.Path, ".ExternalRewardDenoms") {
								good = true
							}
						}
					}
				}
				R.Add(rule, P.Key(fn), "writes PoolInfo.ExternalRewardDenoms", P.Pos(P.InstrPos(in)), good,
					"the list of external reward denoms a pool settles debts for only grows (a new record starts empty, later writes are append(old, …))")
			}
		}
	}
	if n == 0 {
		R.Add(rule, "-", "writers of PoolInfo.ExternalRewardDenoms", "-", false, "none found (anchor changed)")
	}
}
