package rules

import (
	"fmt"
	"os"
	"go/constant"
	"go/token"
	"go/types"
	"strings"

	"elyslint/core"

	"golang.org/x/tools/go/ssa"
)

func init() { register("C20", checkC20) }

// escrowOf: the address is order.GetOrderAddress() — returns the order record root.
func escrowOf(ff *core.FuncFacts, v ssa.Value) (ssa.Value, bool) {
	os := ff.Origins(v)
	if len(os) != 1 || os[0].Kind != "call" {
		return nil, false
	}
	call, _ := os[0].Val.(*ssa.Call)
	if call == nil || len(call.Common().Args) != 1 {
		return nil, false
	}
	switch {
	case strings.HasSuffix(os[0].Name, "Order.GetOrderAddress"):
		return recordRoot(ff, call.Common().Args[0]), true
	case strings.HasSuffix(os[0].Name, "x/tradeshield/types.GetSpotOrderAddress"), strings.HasSuffix(os[0].Name, "x/tradeshield/types.GetPerpOrderAddress"):
		// the accessor's own body: the escrow address of the order whose id this is
		ids := ff.Origins(call.Common().Args[0])
		if len(ids) == 1 && strings.HasSuffix(ids[0].Path, ".OrderId") {
			return ids[0].Val, true
		}
		// the id the order was just stored under (create path)
		if len(ids) == 1 && ids[0].Kind == "call" && strings.Contains(ids[0].Name, "Keeper.AppendPending") {
			return ids[0].Val, true
		}
	}
	return nil, false
}

// recordRoot: canonical root of a struct value (parameter, call result or local alloc).
func recordRoot(ff *core.FuncFacts, v ssa.Value) ssa.Value {
	for _, o := range recordOrigins(ff, v) {
		if o.Path == "" || o.Path == "#0" {
			return o.Val
		}
	}
	os := ff.Origins(v)
	if len(os) > 0 {
		return os[0].Val
	}
	return v
}

// ownerOf: the address is MustAccAddressFromBech32(<record>.OwnerAddress) — returns the record root.
func ownerOf(ff *core.FuncFacts, v ssa.Value) (ssa.Value, bool) {
	os := ff.OriginsT(v, signerTransparent)
	if len(os) != 1 || !strings.HasSuffix(os[0].Path, ".OwnerAddress") {
		return nil, false
	}
	return os[0].Val, true
}

func tsConst(P *core.Program, name string) (constant.Value, bool) {
	if pkg := P.PkgByRel["x/tradeshield/types"]; pkg != nil {
		if c, ok := pkg.Types.Scope().Lookup(name).(*types.Const); ok {
			return c.Val(), true
		}
	}
	return nil, false
}

func checkC20(P *core.Program, R *core.Report) {
	defer checkEscrowNamespaces(P, R)
	R.Explanation = "Escrow safety as structure on every path: (1) every bank transfer whose source is an order escrow address (order.GetOrderAddress()) pays MustAccAddressFromBech32(OwnerAddress) of the same order record; " +
		"(2) create: the escrow transfer of the order's amount/collateral from the owner and the stored pending order lie on the same success paths; cancel: the refund and RemovePending* lie on the same success paths; " +
		"(3) execution: escrow release and RemovePending* are reached only under the trigger comparison of the frozen polarity table (stop-loss and limit-buy: market ≤ price; limit-sell: market ≥ price; perpetual limit-open: long market ≤ trigger, short market ≥ trigger — decided per acyclic path with the position discriminator, whose domain {LONG, SHORT} is enforced by the message's ValidateBasic, itself checked), with the market price taken for the order's own denoms / trading asset; " +
		"(4) ExecuteOrders runs every Execute*Order on a CacheContext whose write is called only under err == nil (regression form of the F-20 repair); (5) the order-id counters (which determine the escrow addresses) are written only by Append* with count+1 (or 1 on first use). Owner guards on update/cancel are decided under C17. 'Market price' being the right number is not decided."
	subjects := P.Reach(P.FindRoots().Consensus())
	// (1) escrow recipients
	n := 0
	for _, fn := range P.Funcs {
		if !subjects[fn] || !strings.HasPrefix(core.PkgRel(fn), "x/tradeshield/") {
			continue
		}
		ff := P.Facts(fn)
		for _, c := range core.Calls(fn) {
			if P.EffectOf(c) != core.EffBankSend {
				continue
			}
			from, to, _ := bankEnds(c)
			rec, isEscrow := escrowOf(ff, from)
			if !isEscrow {
				continue
			}
			n++
			own, isOwner := ownerOf(ff, to)
			ok := isOwner && (own == rec || sameRecord(ff, own, rec))
			R.Add("C20-escrow-recipient", P.Key(fn), "transfer from escrow", P.Pos(P.InstrPos(c)), ok, "escrowed funds may only be paid to the OwnerAddress of the same order")
		}
	}
	if n == 0 {
		R.Add("C20-escrow-recipient", "x/tradeshield", "transfers from escrow", "-", false, "no escrow release found (anchor changed)")
	}
	// (2) create / cancel pairs
	for _, cp := range []struct{ fn, store, amountField string }{
		{"x/tradeshield/keeper.msgServer.CreateSpotOrder", "x/tradeshield/keeper.Keeper.AppendPendingSpotOrder", "OrderAmount"},
		{"x/tradeshield/keeper.msgServer.CreatePerpetualOpenOrder", "x/tradeshield/keeper.Keeper.AppendPendingPerpetualOrder", "Collateral"},
	} {
		fn := P.Fn(cp.fn)
		if fn == nil {
			R.Add("C20-create-pair", cp.fn, "function", "-", false, "unresolved anchor")
			continue
		}
		ff := P.Facts(fn)
		var app, send ssa.Instruction
		sendOK := false
		for _, c := range core.Calls(fn) {
			if calleeMatches(P, c, cp.store) {
				app = c
			}
			if P.EffectOf(c) == core.EffBankSend {
				from, to, coins := bankEnds(c)
				_, toEscrow := escrowOf(ff, to)
				_, fromOwner := ownerOf(ff, from)
				amt := false
				_, whole := coinDenomValues(ff, coins)
				for _, w := range whole {
					for _, o := range ff.Origins(w) {
						if strings.HasSuffix(o.Path, "."+cp.amountField) {
							amt = true
						}
					}
				}
				if os.Getenv("ELYSLINT_DEBUG") != "" {
					fmt.Println("DBG create", cp.fn, "toEscrow", toEscrow, "fromOwner", fromOwner, "amt", amt, ff.Describe(to), "|", ff.Describe(from))
				}
				if toEscrow {
					send = c
					sendOK = fromOwner && amt
				}
			}
		}
		paired := app != nil && send != nil && sameControlFrom(ff, app, send)
		R.Add("C20-create-pair", cp.fn, "escrow transfer ↔ stored order", P.Pos(fn.Pos()), paired && sendOK,
			"a pending order is stored exactly when its "+cp.amountField+" was moved from the owner into the order's escrow")
		if app != nil && send != nil {
			CheckCallErrorGated(P, R, "C20-pair-error-gated", cp.fn, ff, send, []ssa.Instruction{app}, false, "escrow transfer")
		}
	}
	for _, cp := range []struct{ fn, remove, amountField string }{
		{"x/tradeshield/keeper.msgServer.CancelSpotOrder", "x/tradeshield/keeper.Keeper.RemovePendingSpotOrder", "OrderAmount"},
		{"x/tradeshield/keeper.msgServer.CancelPerpetualOrder", "x/tradeshield/keeper.Keeper.RemovePendingPerpetualOrder", "Collateral"},
	} {
		fn := P.Fn(cp.fn)
		if fn == nil {
			R.Add("C20-cancel-pair", cp.fn, "function", "-", false, "unresolved anchor")
			continue
		}
		ff := P.Facts(fn)
		var rm ssa.Instruction
		var sends []ssa.Instruction
		for _, c := range core.Calls(fn) {
			if calleeMatches(P, c, cp.remove) {
				rm = c
			}
			if P.EffectOf(c) == core.EffBankSend {
				if from, _, _ := bankEnds(c); from != nil {
					if _, isEscrow := escrowOf(ff, from); isEscrow {
						sends = append(sends, c)
					}
				}
			}
		}
		ok := rm != nil && len(sends) == 1
		if ok {
			// every success path passes the removal; the refund is either unconditional or skipped
			// only when the escrow balance is zero
			_, esc := ff.SuccessExitReachableWithout(nil, func(in ssa.Instruction) bool { return in == rm })
			ok = !esc
			if _, skip := ff.SuccessExitReachableWithout(nil, func(in ssa.Instruction) bool { return in == sends[0] }); skip {
				zeroSkip := false
				for _, a := range ff.At(sends[0]) {
					if a.Rel == core.FALSE || a.Rel == core.NE {
						for _, o := range ff.Origins(a.A) {
							if o.Kind == "call" && (strings.HasSuffix(o.Name, "Coins.IsZero") || strings.HasSuffix(o.Name, "GetAllBalances")) {
								zeroSkip = true
							}
						}
					}
				}
				ok = ok && zeroSkip
			}
		}
		R.Add("C20-cancel-pair", cp.fn, "refund ↔ RemovePending", P.Pos(fn.Pos()), ok, "cancelling removes the order and refunds the escrow (the refund may only be skipped for an empty escrow)")
		if rm != nil && len(sends) == 1 {
			CheckCallErrorGated(P, R, "C20-pair-error-gated", cp.fn, ff, sends[0], []ssa.Instruction{rm}, true, "escrow refund")
		}
		// the amount refunded is the escrow itself: everything the escrow address holds, or the
		// very coin the create handler escrowed (the order's own field, whole) — not a coin
		// re-assembled from a denom and an amount looked up separately
		if len(sends) == 1 {
			cc := sends[0].(ssa.CallInstruction).Common()
			coins := cc.Args[len(cc.Args)-1]
			full := false
			for _, o := range ff.Origins(coins) {
				if o.Kind == "call" && strings.HasSuffix(o.Name, "GetAllBalances") && o.Path == "" {
					full = true
				}
			}
			dn, whole := coinDenomValues(ff, coins)
			if !full && len(dn) > 0 && len(whole) == 0 {
				// NewCoin(order.X.Denom, order.X.Amount): the same coin spelled by its two fields
				full = true
				v := ff.Fwd(coins)
				var coinCalls []*ssa.Call
				if e, ok := core.SliceLiteral(v); ok {
					for _, x := range e {
						if c, ok := ff.Fwd(x).(*ssa.Call); ok {
							coinCalls = append(coinCalls, c)
						}
					}
				} else if call, ok := v.(*ssa.Call); ok && core.CalleeName(call.Common()) == "NewCoins" && len(call.Common().Args) == 1 {
					if e, ok := core.SliceLiteral(ff.Fwd(call.Common().Args[0])); ok {
						for _, x := range e {
							if c, ok := ff.Fwd(x).(*ssa.Call); ok {
								coinCalls = append(coinCalls, c)
							}
						}
					} else if c, ok := ff.Fwd(call.Common().Args[0]).(*ssa.Call); ok {
						coinCalls = append(coinCalls, c)
					}
				}
				if len(coinCalls) == 0 {
					full = false
				}
				for _, c := range coinCalls {
					if core.CalleeName(c.Common()) != "NewCoin" || len(c.Common().Args) != 2 {
						full = false
						continue
					}
					okD, okA := false, false
					for _, o := range ff.Origins(c.Common().Args[0]) {
						if strings.HasSuffix(o.Path, "."+cp.amountField+".Denom") {
							okD = true
						}
					}
					for _, o := range ff.Origins(c.Common().Args[1]) {
						if strings.HasSuffix(o.Path, "."+cp.amountField+".Amount") {
							okA = true
						}
					}
					if !okD || !okA {
						full = false
					}
				}
			}
			if !full && len(dn) == 0 && len(whole) > 0 {
				full = true
				for _, w := range whole {
					okW := false
					for _, o := range ff.Origins(w) {
						if strings.HasSuffix(o.Path, "."+cp.amountField) || (o.Kind == "call" && strings.HasSuffix(o.Name, "GetAllBalances") && o.Path == "") {
							okW = true
						}
					}
					if !okW {
						full = false
					}
				}
			}
			R.Add("C20-cancel-pair", cp.fn, "refund amount is the escrow", P.Pos(P.InstrPos(sends[0])), full,
				"the coins refunded are the whole escrow balance or the order's own "+cp.amountField+" coin")
		}
	}
	checkTriggers(P, R)
	checkOrderRebuiltComplete(P, R)
	// (4) isolation
	if fn := P.Fn("x/tradeshield/keeper.msgServer.ExecuteOrders"); fn != nil {
		ff := P.Facts(fn)
		ni := 0
		for _, c := range core.Calls(fn) {
			k := P.CalleeKey(c.Common())
			if !strings.HasPrefix(k, "x/tradeshield/keeper.Keeper.Execute") {
				// a dispatch through a table of executors counts once per executor it can reach
				n := 0
				for _, t := range P.Callees(c) {
					if strings.HasPrefix(P.Key(t), "x/tradeshield/keeper.Keeper.Execute") {
						n++
					}
				}
				if n == 0 {
					continue
				}
				ni += n - 1
				k = fmt.Sprintf("dispatch to %d executors", n)
			}
			ni++
			ok, why := isolatedCallPhi(P, ff, c)
			R.Add("C20-execute-isolated", "x/tradeshield/keeper.msgServer.ExecuteOrders", "call "+k, P.Pos(P.InstrPos(c)), ok, "each execution attempt runs on a CacheContext written only when no error occurred. "+why)
		}
		if ni < 4 {
			R.Add("C20-execute-isolated", "x/tradeshield/keeper.msgServer.ExecuteOrders", "Execute* calls", P.Pos(fn.Pos()), false, "expected the spot and perpetual execute calls (anchor changed)")
		}
	} else {
		R.Add("C20-execute-isolated", "x/tradeshield/keeper.msgServer.ExecuteOrders", "function", "-", false, "unresolved anchor")
	}
	// (5) id counters
	for _, cn := range []struct{ set, app, get string }{
		{"x/tradeshield/keeper.Keeper.SetPendingSpotOrderCount", "x/tradeshield/keeper.Keeper.AppendPendingSpotOrder", "GetPendingSpotOrderCount"},
		{"x/tradeshield/keeper.Keeper.SetPendingPerpetualOrderCount", "x/tradeshield/keeper.Keeper.AppendPendingPerpetualOrder", "GetPendingPerpetualOrderCount"},
	} {
		sf := P.Fn(cn.set)
		if sf == nil {
			R.Add("C20-order-id", cn.set, "function", "-", false, "unresolved anchor")
			continue
		}
		for _, e := range P.CG().In[sf] {
			ck := P.Key(e.Caller)
			if !subjects[e.Caller] || strings.HasSuffix(ck, ".InitGenesis") {
				continue
			}
			ok := ck == cn.app
			if ok {
				ff := P.Facts(e.Caller)
				c := e.Site.(ssa.CallInstruction)
				arg := ff.Fwd(c.Common().Args[len(c.Common().Args)-1])
				val := false
				switch x := arg.(type) {
				case *ssa.Const:
					val = x.Value != nil && x.Value.ExactString() == "1"
				case *ssa.BinOp:
					if k, isK := x.Y.(*ssa.Const); isK && x.Op == token.ADD && k.Value != nil && k.Value.ExactString() == "1" {
						val = true
					}
				case *ssa.Convert:
					if k, isK := x.X.(*ssa.Const); isK && k.Value != nil && k.Value.ExactString() == "1" {
						val = true
					}
				}
				ok = val
			}
			R.Add("C20-order-id", ck, "writes "+cn.set, P.Pos(P.InstrPos(e.Site)), ok, "order ids determine escrow addresses: the id counter only ever grows (written by Append* with count+1, or 1 on first use)")
		}
	}
}

func sameRecord(ff *core.FuncFacts, a, b ssa.Value) bool {
	if a == b {
		return true
	}
	// one is the alloc, the other the value stored into it
	for _, pr := range [][2]ssa.Value{{a, b}, {b, a}} {
		if u, ok := pr[0].(*ssa.UnOp); ok {
			if u.X == pr[1] {
				return true
			}
		}
		if al, ok := pr[0].(*ssa.Alloc); ok && al.Referrers() != nil {
			for _, r := range *al.Referrers() {
				if st, ok := r.(*ssa.Store); ok && st.Addr == ssa.Value(al) {
					for _, o := range ff.Origins(st.Val) {
						if o.Val == pr[1] {
							return true
						}
					}
				}
			}
		}
	}
	return false
}

// sameControlFrom: a dominates b and every success path through a passes b (b may have
// error exits before it).
func sameControlFrom(ff *core.FuncFacts, a, b ssa.Instruction) bool {
	if !core.Dominates(a, b) {
		return false
	}
	_, esc := ff.SuccessExitReachableWithout(a, func(in ssa.Instruction) bool { return in == b })
	return !esc
}

// checkTriggers: (3)
func checkTriggers(P *core.Program, R *core.Report) {
	type spec struct {
		fn    string
		rel   string // "le": market <= price ; "ge": market >= price
		perp  bool
		remov string
	}
	for _, s := range []spec{
		{"x/tradeshield/keeper.Keeper.ExecuteStopLossOrder", "le", false, "x/tradeshield/keeper.Keeper.RemovePendingSpotOrder"},
		{"x/tradeshield/keeper.Keeper.ExecuteLimitSellOrder", "ge", false, "x/tradeshield/keeper.Keeper.RemovePendingSpotOrder"},
		{"x/tradeshield/keeper.Keeper.ExecuteLimitBuyOrder", "le", false, "x/tradeshield/keeper.Keeper.RemovePendingSpotOrder"},
		{"x/tradeshield/keeper.Keeper.ExecuteLimitOpenOrder", "", true, "x/tradeshield/keeper.Keeper.RemovePendingPerpetualOrder"},
	} {
		fn := P.Fn(s.fn)
		if fn == nil {
			R.Add("C20-trigger", s.fn, "function", "-", false, "unresolved anchor")
			continue
		}
		ff := P.Facts(fn)
		isMarket := func(v ssa.Value) bool {
			return originsAll(ff, v, func(o core.Origin) bool {
				if o.Kind != "call" || o.Path != "#0" {
					return false
				}
				call, _ := o.Val.(*ssa.Call)
				if call == nil {
					return false
				}
				args := call.Common().Args
				if s.perp {
					if !strings.HasSuffix(o.Name, "PerpetualKeeper.GetAssetPrice") {
						return false
					}
					return fieldOfRecord(ff, args[len(args)-1], "TradingAsset")
				}
				if !strings.HasSuffix(o.Name, "Keeper.GetAssetPriceFromDenomInToDenomOut") {
					return false
				}
				return fieldOfRecord(ff, args[len(args)-2], "BaseDenom") && fieldOfRecord(ff, args[len(args)-1], "QuoteDenom")
			})
		}
		isPrice := func(v ssa.Value) bool {
			return originsAll(ff, v, func(o core.Origin) bool {
				if s.perp {
					return o.Kind == "param" && o.Path == ".TriggerPrice.Rate"
				}
				return o.Kind == "param" && o.Path == ".OrderPrice.Rate"
			})
		}
		nSites := 0
		for _, c := range core.Calls(fn) {
			sensitive := calleeMatches(P, c, s.remov)
			if P.EffectOf(c) == core.EffBankSend {
				if from, _, _ := bankEnds(c); from != nil {
					if _, isEscrow := escrowOf(ff, from); isEscrow {
						sensitive = true
					}
				}
			}
			if !sensitive {
				continue
			}
			nSites++
			construct := "before " + P.CalleeKey(c.Common())
			pos := P.Pos(P.InstrPos(c))
			if !s.perp {
				var ok bool
				if s.rel == "le" {
					ok = hasLE(ff, ff.At(c), isMarket, isPrice)
				} else {
					ok = hasLE(ff, ff.At(c), isPrice, isMarket)
				}
				R.Add("C20-trigger", s.fn, construct, pos, ok, "the order is touched only when market "+map[string]string{"le": "≤", "ge": "≥"}[s.rel]+" order price")
				continue
			}
			paths, okp := ff.PathsTo(c)
			if !okp {
				R.Undecided("C20-trigger", s.fn, construct, pos, "too many paths")
				continue
			}
			long, _ := tsConst(P, "PerpetualPosition_LONG")
			short, _ := tsConst(P, "PerpetualPosition_SHORT")
			bad := ""
			if len(paths) == 0 {
				bad = "no feasible path (anchor changed)"
			}
			for _, p := range paths {
				dir := ""
				for _, a := range p.Atoms {
					if a.Rel != core.EQ || a.B == nil {
						continue
					}
					for _, pr := range [][2]ssa.Value{{a.A, a.B}, {a.B, a.A}} {
						k, isK := pr[1].(*ssa.Const)
						if !isK || k.Value == nil || !fieldOfRecord(ff, pr[0], "Position") {
							continue
						}
						if long != nil && constant.Compare(k.Value, token.EQL, long) {
							dir = "LONG"
						}
						if short != nil && constant.Compare(k.Value, token.EQL, short) {
							dir = "SHORT"
						}
					}
				}
				switch dir {
				case "LONG":
					if !hasLE(ff, p.Atoms, isMarket, isPrice) {
						bad = "a LONG path reaches the site without market ≤ trigger"
					}
				case "SHORT":
					if !hasLE(ff, p.Atoms, isPrice, isMarket) {
						bad = "a SHORT path reaches the site without market ≥ trigger"
					}
				default:
					// position neither LONG nor SHORT: excluded by ValidateBasic (checked below)
				}
			}
			R.Add("C20-trigger", s.fn, construct, pos, bad == "", fmt.Sprintf("%d feasible paths; long: market ≤ trigger, short: market ≥ trigger. %s", len(paths), bad))
		}
		if nSites < 2 {
			R.Add("C20-trigger", s.fn, "sensitive sites", P.Pos(fn.Pos()), false, "expected the escrow release and the order removal (anchor changed)")
		}
	}
	// domain assumption: ValidateBasic restricts Position to {LONG, SHORT}
	const vb = "x/tradeshield/types.MsgCreatePerpetualOpenOrder.ValidateBasic"
	if fn := P.Fn(vb); fn != nil {
		ff := P.Facts(fn)
		long, _ := tsConst(P, "PerpetualPosition_LONG")
		short, _ := tsConst(P, "PerpetualPosition_SHORT")
		bad := ""
		n := 0
		for _, ex := range ff.Exits() {
			if ex.Kind != core.ExitSuccess {
				continue
			}
			n++
			paths, ok := ff.PathsTo(ex.Instr)
			if !ok {
				bad = "too many paths"
				continue
			}
			for _, p := range paths {
				good := false
				for _, a := range p.Atoms {
					if a.Rel != core.EQ || a.B == nil {
						continue
					}
					for _, pr := range [][2]ssa.Value{{a.A, a.B}, {a.B, a.A}} {
						k, isK := pr[1].(*ssa.Const)
						if isK && k.Value != nil && fieldOfRecord(ff, pr[0], "Position") &&
							((long != nil && constant.Compare(k.Value, token.EQL, long)) || (short != nil && constant.Compare(k.Value, token.EQL, short))) {
							good = true
						}
					}
				}
				if !good {
					bad = "a success path of ValidateBasic does not fix Position to LONG or SHORT"
				}
			}
		}
		R.Add("C20-trigger", vb, "Position ∈ {LONG, SHORT}", P.Pos(fn.Pos()), bad == "" && n > 0, "domain assumption of the perpetual trigger rule. "+bad)
	} else {
		R.Add("C20-trigger", vb, "function", "-", false, "unresolved anchor")
	}
}

// isolatedCallPhi generalises isolatedCall to `err` variables assigned on several switch
// arms: the write() call needs a must-hold  e == nil  where e is the call's own error or a φ
// that merges it only with other errors / nil.
func isolatedCallPhi(P *core.Program, ff *core.FuncFacts, c ssa.CallInstruction) (bool, string) {
	var fork *ssa.Call
	for _, a := range c.Common().Args {
		if core.NamedName(a.Type()) != "Context" {
			continue
		}
		for _, o := range ff.Origins(a) {
			if o.Kind == "call" && strings.HasSuffix(o.Name, "types.Context.CacheContext") && o.Path == "#0" {
				fork, _ = o.Val.(*ssa.Call)
			} else {
				return false, "context argument is not the result of CacheContext() (" + o.String() + ")"
			}
		}
	}
	if fork == nil {
		return false, "no CacheContext() fork feeds the call"
	}
	v, _ := c.(ssa.Value)
	var errVal ssa.Value
	if v != nil && v.Referrers() != nil {
		sig := c.Common().Signature()
		ei := core.ErrResultIndex(sig)
		if sig.Results().Len() == 1 && ei == 0 {
			errVal = v
		}
		for _, r := range *v.Referrers() {
			if ex, ok := r.(*ssa.Extract); ok && ex.Index == ei {
				errVal = ex
			}
		}
	}
	if errVal == nil {
		return false, "the call's error result is not used"
	}
	reaches := func(phi ssa.Value) bool {
		seen := map[ssa.Value]bool{}
		var walk func(x ssa.Value) bool
		walk = func(x ssa.Value) bool {
			x = ff.Fwd(x)
			if x == ff.Fwd(errVal) {
				return true
			}
			if seen[x] {
				return false
			}
			seen[x] = true
			if p, ok := x.(*ssa.Phi); ok {
				for _, e := range p.Edges {
					if walk(e) {
						return true
					}
				}
			}
			return false
		}
		return walk(phi)
	}
	nWrites := 0
	for _, r := range *fork.Referrers() {
		ex, ok := r.(*ssa.Extract)
		if !ok || ex.Index != 1 {
			continue
		}
		for _, wr := range writeCalls(ff, ex) {
			nWrites++
			okNil := false
			for _, a := range ff.At(wr) {
				if a.Rel == core.EQ && a.B == core.NilMarker && reaches(a.A) {
					okNil = true
				}
			}
			if !okNil {
				return false, "write() at " + P.Pos(P.InstrPos(wr)) + " is reachable with a non-nil error of this call"
			}
		}
	}
	if nWrites == 0 {
		return true, "fork is never written (dry run)"
	}
	return true, ""
}

// checkEscrowNamespaces (C20-escrow-namespace): spot and perpetual order ids come from two
// independent counters that both start at 1, so their escrow addresses must be derived in
// disjoint name spaces.  The address methods of the two order types reach (through the
// derivation functions) sets of format-string constants that are non-empty and disjoint,
// and each is applied to the order's own OrderId.  A copy-pasted derivation makes spot
// order N and perpetual order N share one escrow: cancelling one sweeps the other's funds.
func checkEscrowNamespaces(P *core.Program, R *core.Report) {
	const rule = "C20-escrow-namespace"
	consts := func(fn *ssa.Function) map[string]bool {
		out := map[string]bool{}
		seen := map[*ssa.Function]bool{}
		var walk func(f *ssa.Function, d int)
		walk = func(f *ssa.Function, d int) {
			if f == nil || seen[f] || d > 3 || f.Blocks == nil {
				return
			}
			seen[f] = true
			for _, b := range f.Blocks {
				for _, in := range b.Instrs {
					for _, op := range in.Operands(nil) {
						if op == nil || *op == nil {
							continue
						}
						if k, ok := (*op).(*ssa.Const); ok && k.Value != nil && k.Value.Kind() == constant.String && constant.StringVal(k.Value) != "" {
							out[constant.StringVal(k.Value)] = true
						}
					}
					if c, ok := in.(ssa.CallInstruction); ok {
						if sc := c.Common().StaticCallee(); sc != nil && strings.HasPrefix(P.Key(sc), "x/tradeshield/") {
							walk(sc, d+1)
						}
					}
				}
			}
		}
		walk(fn, 0)
		return out
	}
	spot := P.Fn("x/tradeshield/types.SpotOrder.GetOrderAddress")
	perp := P.Fn("x/tradeshield/types.PerpetualOrder.GetOrderAddress")
	if spot == nil || perp == nil {
		R.Add(rule, "x/tradeshield/types", "GetOrderAddress methods", "-", false, "unresolved anchor")
		return
	}
	cs, cp := consts(spot), consts(perp)
	disjoint := len(cs) > 0 && len(cp) > 0
	for k := range cs {
		if cp[k] {
			disjoint = false
		}
	}
	ownID := func(fn *ssa.Function) bool {
		ff := P.Facts(fn)
		for _, c := range core.Calls(fn) {
			if sc := c.Common().StaticCallee(); sc != nil && strings.HasPrefix(P.Key(sc), "x/tradeshield/") {
				for _, a := range c.Common().Args {
					for _, o := range ff.Origins(a) {
						if (o.Kind == "param" || o.Kind == "local") && strings.HasSuffix(o.Path, ".OrderId") {
							return true
						}
					}
				}
			}
		}
		return false
	}
	R.Add(rule, "x/tradeshield/types.SpotOrder.GetOrderAddress | PerpetualOrder.GetOrderAddress", "disjoint escrow name spaces", P.Pos(perp.Pos()), disjoint && ownID(spot) && ownID(perp),
		fmt.Sprintf("spot derivation constants %v, perpetual derivation constants %v: must be non-empty and disjoint, each applied to the order's own id", keysOf(cs), keysOf(cp)))
}

// checkOrderRebuiltComplete (C20-order-rebuilt): an order that is stored again from a
// literal assembled out of the loaded order (instead of the loaded record itself) carries
// every field of the record type — a field left out is silently reset to its zero value
// (OrderType 0 is STOPLOSS: an updated LIMITSELL then sells at any price below the limit).
func checkOrderRebuiltComplete(P *core.Program, R *core.Report) {
	const rule = "C20-order-rebuilt"
	n := 0
	for _, fn := range P.Funcs {
		k := P.Key(fn)
		if fn.Blocks == nil || !strings.HasPrefix(k, "x/tradeshield/keeper.") || core.IsGeneratedOrAux(P.File(fn.Pos())) {
			continue
		}
		ff := P.Facts(fn)
		for _, c := range core.Calls(fn) {
			ck := P.CalleeKey(c.Common())
			if !strings.HasSuffix(ck, "Keeper.SetPendingSpotOrder") && !strings.HasSuffix(ck, "Keeper.SetPendingPerpetualOrder") {
				continue
			}
			args := c.Common().Args
			rec := args[len(args)-1]
			// the record argument is a load of a local that was filled field by field
			ld, ok := rec.(*ssa.UnOp)
			if !ok {
				continue
			}
			al, ok := ld.X.(*ssa.Alloc)
			if !ok || al.Referrers() == nil {
				continue
			}
			st := core.AsNamed(al.Type().Underlying().(*types.Pointer).Elem())
			if st == nil {
				continue
			}
			str, ok := st.Underlying().(*types.Struct)
			if !ok {
				continue
			}
			whole, fromLoaded := false, false
			set := map[string]bool{}
			for _, r := range *al.Referrers() {
				switch x := r.(type) {
				case *ssa.Store:
					if x.Addr == ssa.Value(al) {
						whole = true // assigned as a whole (the loaded record itself)
					}
				case *ssa.FieldAddr:
					if x.Referrers() == nil {
						continue
					}
					for _, rr := range *x.Referrers() {
						if s2, ok := rr.(*ssa.Store); ok && s2.Addr == ssa.Value(x) {
							set[core.FieldName(x.X.Type(), x.Field)] = true
							for _, o := range ff.Origins(s2.Val) {
								if o.Kind == "call" && (strings.HasSuffix(o.Name, "Keeper.GetPendingSpotOrder") || strings.HasSuffix(o.Name, "Keeper.GetPendingPerpetualOrder")) {
									fromLoaded = true
								}
							}
						}
					}
				}
			}
			if whole || !fromLoaded {
				continue
			}
			n++
			var missing []string
			for i := 0; i < str.NumFields(); i++ {
				f := str.Field(i)
				if !f.Exported() || strings.HasPrefix(f.Name(), "XXX_") {
					continue
				}
				if !set[f.Name()] {
					missing = append(missing, f.Name())
				}
			}
			R.Add(rule, k, "order re-stored from a literal", P.Pos(P.InstrPos(c)), len(missing) == 0,
				"an order rebuilt from the loaded one sets every field of the record; missing: "+strings.Join(missing, ", "))
		}
	}
	R.Analysed["orders_rebuilt_from_literals"] = n
}
