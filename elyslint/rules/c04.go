package rules

import (
	"fmt"
	"os"
	"go/token"
	"strings"

	"elyslint/core"

	"golang.org/x/tools/go/ssa"
)

func init() { register("C04", checkC04) }

func checkC04(P *core.Program, R *core.Report) {
	defer checkMsgForward(P, R, "C04-msg-forward", func(k string) bool { return os.Getenv("ELYSLINT_MSGFWD_ALL") != "" || strings.HasPrefix(k, "x/amm/") || strings.HasPrefix(k, "x/tradeshield/") })
	R.Explanation = "Structural conditions of 'settles as requested or changes nothing', decided on every path: (1) the message handlers' dry run executes RouteExactAmount* on a CacheContext whose write function is never called, and the request is enqueued only under err == nil of the dry run; " +
		"(2) in ExecuteSwapRequests every ApplySwapRequest runs on a forked context, each write_i() is reached only under err_i == nil and only on paths that also delete the same request msg_i, and every trip round the batch loop deletes at least one request (so the queue drains and a request is applied at most once); " +
		"(3) all swap-request accessors take their store from ctx.TransientStore(k.transientStoreKey) (reset at commit: nothing lingers into later blocks); (4) limits: InternalSwapExactAmountIn reaches UpdatePoolForSwap only with ¬(out < tokenOutMinAmount) and InternalSwapExactAmountOut only with ¬(in > tokenInMaxAmount); the route functions hand the user's limit to the last (exact-in) / first (exact-out) hop by identity; " +
		"(5) exactness: the coin debited at the first hop is the request's TokenIn (exact-in) and the coin credited at the last hop is the request's TokenOut (exact-out), by identity flow; (6) hop recipients: on every hop except the last the recipient handed to InternalSwapExactAmount{In,Out} is the sender, so intermediate tokens never reach the final recipient and the next hop is paid from what the previous one produced (this rule found F-04). Which of two opposite requests wins and price effects are not decided."
	checkDryRun(P, R)
	checkBatch(P, R)
	checkTransientQueue(P, R)
	checkLimits(P, R)
	checkHopRecipients(P, R)
}

func checkDryRun(P *core.Program, R *core.Report) {
	for _, h := range []struct{ fn, route, enq string }{
		{"x/amm/keeper.Keeper.SwapExactAmountIn", "x/amm/keeper.Keeper.RouteExactAmountIn", "x/amm/keeper.Keeper.SetSwapExactAmountInRequests"},
		{"x/amm/keeper.Keeper.SwapExactAmountOut", "x/amm/keeper.Keeper.RouteExactAmountOut", "x/amm/keeper.Keeper.SetSwapExactAmountOutRequests"},
	} {
		fn := P.Fn(h.fn)
		if fn == nil {
			R.Add("C04-dry-run", h.fn, "function", "-", false, "unresolved anchor")
			continue
		}
		ff := P.Facts(fn)
		var route ssa.CallInstruction
		for _, c := range core.Calls(fn) {
			if calleeMatches(P, c, h.route) {
				route = c
			}
		}
		if route == nil {
			R.Add("C04-dry-run", h.fn, "call "+h.route, P.Pos(fn.Pos()), false, "dry run not found (anchor changed)")
			continue
		}
		ok, why := isolatedCall(P, ff, route)
		dry := ok && strings.Contains(why, "never written")
		R.Add("C04-dry-run", h.fn, "call "+h.route, P.Pos(P.InstrPos(route)), dry, "the acceptance-time execution is a dry run: forked context, write never called. "+why)
		// enqueue only when the dry run succeeded; message enqueued is the handler's own msg
		n := 0
		for _, c := range core.Calls(fn) {
			if !calleeMatches(P, c, h.enq) {
				continue
			}
			n++
			errNil := false
			var errVal ssa.Value
			if v, isV := route.(ssa.Value); isV && v.Referrers() != nil {
				for _, r := range *v.Referrers() {
					if ex, isE := r.(*ssa.Extract); isE && ex.Index == core.ErrResultIndex(route.Common().Signature()) {
						errVal = ex
					}
				}
			}
			for _, a := range ff.At(c) {
				if a.Rel == core.EQ && a.B == core.NilMarker && errVal != nil && ff.Fwd(a.A) == ff.Fwd(errVal) {
					errNil = true
				}
			}
			args := c.Common().Args
			isMsg := ff.Fwd(args[len(args)-2]) == ssa.Value(fn.Params[2])
			R.Add("C04-dry-run", h.fn, "enqueue", P.Pos(P.InstrPos(c)), errNil && isMsg && core.Dominates(route, c), "a request is queued only if it could be honoured at acceptance, and it is the handler's own message")
		}
		if n != 1 {
			R.Add("C04-dry-run", h.fn, "enqueue", P.Pos(fn.Pos()), false, "expected exactly one enqueue (anchor changed)")
		}
	}
}

func checkBatch(P *core.Program, R *core.Report) {
	const key = "x/amm/keeper.Keeper.ExecuteSwapRequests"
	fn := P.Fn(key)
	if fn == nil {
		R.Add("C04-batch", key, "function", "-", false, "unresolved anchor")
		return
	}
	ff := P.Facts(fn)
	const apply = "x/amm/keeper.Keeper.ApplySwapRequest"
	const del = "x/amm/keeper.Keeper.DeleteSwapRequest"
	var dels []ssa.CallInstruction
	for _, c := range core.Calls(fn) {
		if calleeMatches(P, c, del) {
			dels = append(dels, c)
		}
	}
	nApply := 0
	for _, c := range core.Calls(fn) {
		if !calleeMatches(P, c, apply) {
			continue
		}
		nApply++
		ok, why := isolatedCall(P, ff, c)
		R.Add("C04-batch", key, "ApplySwapRequest isolated", P.Pos(P.InstrPos(c)), ok && !strings.Contains(why, "never written"), "each request runs on its own fork written only under its own err == nil. "+why)
		// every write of this fork lies on paths that delete the same msg
		msg := ff.Fwd(c.Common().Args[len(c.Common().Args)-1])
		var fork *ssa.Call
		for _, a := range c.Common().Args {
			if core.NamedName(a.Type()) == "Context" {
				for _, o := range ff.Origins(a) {
					if call, isC := o.Val.(*ssa.Call); isC && o.Path == "#0" {
						fork = call
					}
				}
			}
		}
		if fork == nil || fork.Referrers() == nil {
			continue
		}
		for _, r := range *fork.Referrers() {
			ex, isE := r.(*ssa.Extract)
			if !isE || ex.Index != 1 {
				continue
			}
			for _, wr := range writeCalls(ff, ex) {
				// from the write, neither the loop head nor an exit is reachable without deleting msg
				_, escapes := core.ReachesWithout(fn, wr, func(in ssa.Instruction) bool {
					if _, isRet := in.(*ssa.Return); isRet {
						return true
					}
					c2, isC := in.(ssa.CallInstruction)
					return isC && calleeMatches(P, c2, "x/amm/keeper.Keeper.SelectOneSwapRequest")
				}, func(in ssa.Instruction) bool {
					for _, d := range dels {
						if in == ssa.Instruction(d) && ff.Fwd(d.Common().Args[len(d.Common().Args)-2]) == msg {
							return true
						}
					}
					return false
				})
				paired := !escapes
				R.Add("C04-batch", key, "write ⇒ delete same request", P.Pos(P.InstrPos(wr)), paired, "a request that is applied is removed from the queue on the same paths (applied at most once)")
			}
		}
	}
	if nApply == 0 {
		R.Add("C04-batch", key, "ApplySwapRequest sites", P.Pos(fn.Pos()), false, fmt.Sprintf("expected the isolated attempts, found %d (anchor changed)", nApply))
	}
	// loop drain: from the selection at the loop head no path returns to it without a delete
	var sel ssa.CallInstruction
	for _, c := range core.Calls(fn) {
		if calleeMatches(P, c, "x/amm/keeper.Keeper.SelectOneSwapRequest") {
			sel = c
		}
	}
	if sel == nil {
		R.Add("C04-batch", key, "loop head", P.Pos(fn.Pos()), false, "SelectOneSwapRequest not found (anchor changed)")
		return
	}
	_, again := core.ReachesWithout(fn, sel, func(in ssa.Instruction) bool { return in == ssa.Instruction(sel) }, func(in ssa.Instruction) bool {
		c, ok := in.(ssa.CallInstruction)
		return ok && calleeMatches(P, c, del)
	})
	R.Add("C04-batch", key, "every iteration deletes a request", P.Pos(P.InstrPos(sel)), !again, "the batch loop makes progress: no way back to the selection without removing a request (the queue is empty when it ends)")
	// the loop only ends when the selection finds nothing
	endOK := true
	for _, ex := range ff.Exits() {
		if ex.Kind == core.ExitPanic {
			continue
		}
		found := false
		for _, a := range ff.At(ex.Instr) {
			if a.Rel == core.EQ {
				for _, pr := range [][2]ssa.Value{{a.A, a.B}, {a.B, a.A}} {
					if k, isK := pr[1].(*ssa.Const); isK && k.Value != nil && k.Value.ExactString() == "0" {
						for _, o := range ff.Origins(pr[0]) {
							if o.Val == ssa.Value(sel.(*ssa.Call)) && o.Path == "#1" {
								found = true
							}
						}
					}
				}
			}
		}
		if !found {
			endOK = false
		}
	}
	R.Add("C04-batch", key, "ends only on an empty queue", P.Pos(fn.Pos()), endOK, "the function returns only when SelectOneSwapRequest finds no request")
}

func checkTransientQueue(P *core.Program, R *core.Report) {
	n := 0
	for _, fn := range P.Funcs {
		if core.PkgRel(fn) != "x/amm/keeper" || fn.Parent() != nil {
			continue
		}
		name := fn.Name()
		if !strings.Contains(name, "SwapExactAmount") && !strings.Contains(name, "SwapRequestIndex") {
			continue
		}
		if !strings.HasSuffix(P.File(fn.Pos()), "batch_processing.go") {
			continue
		}
		ff := P.Facts(fn)
		stores := 0
		bad := ""
		for _, c := range core.Calls(fn) {
			nm := core.CalleeName(c.Common())
			pkg := P.CalleeKey(c.Common())
			isAccess := (nm == "Set" || nm == "Delete" || nm == "Get" || nm == "Has") && strings.Contains(pkg, "store")
			isIter := nm == "KVStorePrefixIterator" || nm == "KVStoreReversePrefixIterator"
			if !isAccess && !isIter {
				continue
			}
			stores++
			var st ssa.Value
			if isIter {
				st = c.Common().Args[0]
			} else if c.Common().IsInvoke() {
				st = c.Common().Value
			} else {
				st = c.Common().Args[0]
			}
			ok := ff.AllOrigins(st, func(cl *ssa.Call) []ssa.Value {
				if core.CalleeName(cl.Common()) == "NewStore" {
					return cl.Common().Args[:1]
				}
				return nil
			}, func(o core.Origin) bool {
				if !(o.Kind == "call" && strings.HasSuffix(o.Name, "types.Context.TransientStore")) {
					return false
				}
				call, _ := o.Val.(*ssa.Call)
				return call != nil && fieldOfRecord(ff, call.Common().Args[len(call.Common().Args)-1], "transientStoreKey")
			})
			if !ok {
				bad = "store access at " + P.Pos(P.InstrPos(c)) + " is not on ctx.TransientStore(k.transientStoreKey)"
			}
		}
		if stores == 0 {
			continue
		}
		n++
		R.Add("C04-transient-queue", P.Key(fn), "queue storage", P.Pos(fn.Pos()), bad == "", "swap requests live in the transient store (cleared at commit). "+bad)
	}
	if n < 8 {
		R.Add("C04-transient-queue", "x/amm/keeper batch_processing.go", "accessors", "-", false, fmt.Sprintf("expected ≥ 8 request accessors, found %d (anchor changed)", n))
	}
}

func checkLimits(P *core.Program, R *core.Report) {
	// (4) guards before UpdatePoolForSwap
	for _, h := range []struct {
		fn    string
		limit int // parameter index
		le    bool
	}{
		{"x/amm/keeper.Keeper.InternalSwapExactAmountIn", 7, true},   // min <= out
		{"x/amm/keeper.Keeper.InternalSwapExactAmountOut", 6, false}, // in <= max
	} {
		fn := P.Fn(h.fn)
		if fn == nil {
			R.Add("C04-limit", h.fn, "function", "-", false, "unresolved anchor")
			continue
		}
		ff := P.Facts(fn)
		limit := ssa.Value(fn.Params[h.limit])
		n := 0
		for _, c := range core.Calls(fn) {
			if !calleeMatches(P, c, "x/amm/keeper.Keeper.UpdatePoolForSwap") {
				continue
			}
			n++
			ok := false
			args := c.Common().Args
			for _, a := range ff.At(c) {
				if a.Rel != core.LE || a.B == nil {
					continue
				}
				if h.le {
					// tokenOutMinAmount <= amount of the tokenOut coin handed to UpdatePoolForSwap
					if ff.Fwd(a.A) == limit && sameCoinAmount(ff, a.B, args[6]) {
						ok = true
					}
				} else {
					if ff.Fwd(a.B) == limit && sameCoinAmount(ff, a.A, args[5]) {
						ok = true
					}
				}
			}
			R.Add("C04-limit", h.fn, "before UpdatePoolForSwap", P.Pos(P.InstrPos(c)), ok, "settlement is reached only within the caller's limit (the compared amount is the one settled)")
		}
		if n != 1 {
			R.Add("C04-limit", h.fn, "UpdatePoolForSwap", P.Pos(fn.Pos()), false, "expected exactly one settlement call (anchor changed)")
		}
	}
	// limit and exactness flow in the route functions
	if fn := P.Fn("x/amm/keeper.Keeper.RouteExactAmountIn"); fn != nil {
		ff := P.Facts(fn)
		for _, c := range core.Calls(fn) {
			if !calleeMatches(P, c, "x/amm/keeper.Keeper.InternalSwapExactAmountIn") {
				continue
			}
			args := c.Common().Args
			// min argument: φ(NewInt(1), tokenOutMinAmount) with the limit on the last-hop edge
			limOK := phiSelectsOnLastHop(ff, args[7], fn.Params[6])
			// tokenIn: first hop = the parameter, later = NewCoin(prev denom, prev out)
			inOK, other := false, true
			for _, o := range recordOrigins(ff, args[5]) {
				switch {
				case o.Kind == "param" && o.Val == ssa.Value(fn.Params[5]) && o.Path == "":
					inOK = true
				case o.Kind == "call" && strings.HasSuffix(o.Name, "types.NewCoin"):
				default:
					other = false
				}
			}
			inOK = inOK && other
			R.Add("C04-limit", "x/amm/keeper.Keeper.RouteExactAmountIn", "min-out reaches the last hop", P.Pos(P.InstrPos(c)), limOK, "tokenOutMinAmount is enforced at the last hop (identity flow)")
			R.Add("C04-exact", "x/amm/keeper.Keeper.RouteExactAmountIn", "first hop debits TokenIn", P.Pos(P.InstrPos(c)), inOK, "the coin debited at the first hop is the request's TokenIn itself")
		}
	} else {
		R.Add("C04-limit", "x/amm/keeper.Keeper.RouteExactAmountIn", "function", "-", false, "unresolved anchor")
	}
	if fn := P.Fn("x/amm/keeper.Keeper.RouteExactAmountOut"); fn != nil {
		ff := P.Facts(fn)
		// insExpected[0] = tokenInMaxAmount
		limOK := false
		for _, b := range fn.Blocks {
			for _, in := range b.Instrs {
				st, ok := in.(*ssa.Store)
				if !ok {
					continue
				}
				ia, ok := st.Addr.(*ssa.IndexAddr)
				if !ok {
					continue
				}
				if k, isK := ia.Index.(*ssa.Const); isK && k.Value != nil && k.Value.ExactString() == "0" && ff.Fwd(st.Val) == ssa.Value(fn.Params[5]) {
					if strings.Contains(ia.X.Type().String(), "math.Int") {
						limOK = true
					}
				}
			}
		}
		for _, c := range core.Calls(fn) {
			if !calleeMatches(P, c, "x/amm/keeper.Keeper.InternalSwapExactAmountOut") {
				continue
			}
			args := c.Common().Args
			// max argument is insExpected[i]
			isIdx := false
			if ld, ok := ff.Fwd(args[6]).(*ssa.UnOp); ok {
				if _, ok := ld.X.(*ssa.IndexAddr); ok {
					isIdx = true
				}
			}
			outOK, other := false, true
			for _, o := range recordOrigins(ff, args[7]) {
				switch {
				case o.Kind == "param" && o.Val == ssa.Value(fn.Params[6]) && o.Path == "":
					outOK = true
				case o.Kind == "call" && strings.HasSuffix(o.Name, "types.NewCoin"):
				default:
					other = false
				}
			}
			outOK = outOK && other
			R.Add("C04-limit", "x/amm/keeper.Keeper.RouteExactAmountOut", "max-in reaches the first hop", P.Pos(P.InstrPos(c)), limOK && isIdx, "insExpected[0] is overwritten by tokenInMaxAmount and each hop is bounded by insExpected[i]")
			R.Add("C04-exact", "x/amm/keeper.Keeper.RouteExactAmountOut", "last hop credits TokenOut", P.Pos(P.InstrPos(c)), outOK, "the coin credited at the last hop is the request's TokenOut itself")
		}
	} else {
		R.Add("C04-limit", "x/amm/keeper.Keeper.RouteExactAmountOut", "function", "-", false, "unresolved anchor")
	}
}

// sameCoinAmount: v is the Amount of the coin value `coin` (or the same math.Int value).
func sameCoinAmount(ff *core.FuncFacts, v, coin ssa.Value) bool {
	v = ff.Fwd(v)
	coin = ff.Fwd(coin)
	if v == coin {
		return true
	}
	a := ff.LinOf(v)
	b := ff.LinOf(coin)
	return len(a) == 1 && a.Equal(b)
}

// phiSelectsOnLastHop: v is φ(other, want) where the `want` edge is taken under
// len(routes)-1 == i.
func phiSelectsOnLastHop(ff *core.FuncFacts, v ssa.Value, want ssa.Value) bool {
	phi, ok := ff.Fwd(v).(*ssa.Phi)
	if !ok {
		// the same selection kept in a local struct that is re-assigned on the last hop
		if cases, ok := ff.MemCases(v); ok {
			sel := false
			for _, vc := range cases {
				if vc.Val != want {
					continue
				}
				last := false
				for _, a := range vc.Facts {
					if a.Rel == core.EQ && a.B != nil && (isLastIndexExpr(ff, a.A) || isLastIndexExpr(ff, a.B)) {
						last = true
					}
				}
				if !last {
					return false // the final value can be selected off the last hop
				}
				sel = true
			}
			return sel
		}
		return false
	}
	for i, e := range phi.Edges {
		if ff.Fwd(e) != want {
			continue
		}
		pred := phi.Block().Preds[i]
		for _, a := range edgeOrBlockAtoms(ff, pred, phi.Block()) {
			if os.Getenv("ELYSLINT_POLY_DEBUG") != "" {
				fmt.Fprintf(os.Stderr, "c04 lasthop edge b%d: %s\n", pred.Index, ff.AtomString(a))
			}
			if a.Rel == core.EQ && a.B != nil && (isLastIndexExpr(ff, a.A) || isLastIndexExpr(ff, a.B)) {
				return true
			}
		}
	}
	return false
}

func edgeOrBlockAtoms(ff *core.FuncFacts, pred, succ *ssa.BasicBlock) []*core.Atom {
	out := ff.At(pred.Instrs[len(pred.Instrs)-1])
	out = append(out, edgeAtoms(ff, pred, succ)...)
	return out
}

// isLastIndexExpr: len(x) - 1
func isLastIndexExpr(ff *core.FuncFacts, v ssa.Value) bool {
	bo, ok := ff.Fwd(v).(*ssa.BinOp)
	if !ok || bo.Op != token.SUB {
		return false
	}
	k, isK := bo.Y.(*ssa.Const)
	if !isK || k.Value == nil || k.Value.ExactString() != "1" {
		return false
	}
	_, isLen := lenOf(ff, bo.X)
	return isLen
}

// checkHopRecipients: (6)
func checkHopRecipients(P *core.Program, R *core.Report) {
	for _, h := range []struct{ fn, inner string }{
		{"x/amm/keeper.Keeper.RouteExactAmountIn", "x/amm/keeper.Keeper.InternalSwapExactAmountIn"},
		{"x/amm/keeper.Keeper.RouteExactAmountOut", "x/amm/keeper.Keeper.InternalSwapExactAmountOut"},
	} {
		fn := P.Fn(h.fn)
		if fn == nil {
			R.Add("C04-hop-recipient", h.fn, "function", "-", false, "unresolved anchor")
			continue
		}
		ff := P.Facts(fn)
		sender, recipient := ssa.Value(fn.Params[2]), ssa.Value(fn.Params[3])
		n := 0
		for _, c := range core.Calls(fn) {
			if !calleeMatches(P, c, h.inner) {
				continue
			}
			n++
			args := c.Common().Args
			sOK := ff.Fwd(args[2]) == sender
			rcp := ff.Fwd(args[3])
			rOK := false
			if _, isPhi := rcp.(*ssa.Phi); !isPhi {
				if cases, ok := ff.MemCases(args[3]); ok {
					hasSender, onlyKnown := false, true
					for _, vc := range cases {
						switch vc.Val {
						case sender:
							hasSender = true
						case recipient:
						default:
							onlyKnown = false
						}
					}
					rOK = hasSender && onlyKnown && phiSelectsOnLastHop(ff, args[3], recipient)
				}
			}
			if phi, isPhi := rcp.(*ssa.Phi); isPhi && len(phi.Edges) == 2 {
				hasSender := false
				for _, e := range phi.Edges {
					if ff.Fwd(e) == sender {
						hasSender = true
					}
				}
				rOK = hasSender && phiSelectsOnLastHop(ff, rcp, recipient)
			}
			R.Add("C04-hop-recipient", h.fn, "hop sender/recipient", P.Pos(P.InstrPos(c)), sOK && rOK,
				"every hop debits the sender; only the last hop pays the final recipient (earlier hops pay the sender, whose proceeds fund the next hop)")
		}
		if n != 1 {
			R.Add("C04-hop-recipient", h.fn, "hop call", P.Pos(fn.Pos()), false, "expected exactly one per-hop swap call (anchor changed)")
		}
	}
}
