package rules

import (
	"encoding/json"
	"fmt"
	"math/big"
	"os"
	"path/filepath"
	"strings"

	"elyslint/core"
)

// loadTable reads a frozen table from /verif/tables. Tables are never written at run time.
func loadTable(name string, v any) error {
	b, err := os.ReadFile(filepath.Join(core.VerifDir(), "tables", name))
	if err != nil {
		return err
	}
	return json.Unmarshal(b, v)
}

// ---- range tables (R10) ----------------------------------------------------------------

type rangeEntry struct {
	Range  string `json:"range"`
	Reason string `json:"reason"`
}

type rangeTable struct {
	Fields  map[string]rangeEntry `json:"fields"`
	Results map[string]rangeEntry `json:"results"`
	Params  map[string]rangeEntry `json:"params"`
	Ideal   map[string]string     `json:"ideal"`
	MonoUp  map[string]string     `json:"mono_up"`
}

// parseItv reads "[0,inf)", "(0,1]", "(-inf,inf)".
func parseItv(s string) (core.Itv, error) {
	s = strings.TrimSpace(s)
	if len(s) < 5 {
		return core.Top(), fmt.Errorf("bad interval %q", s)
	}
	loOpen, hiOpen := s[0] == '(', s[len(s)-1] == ')'
	parts := strings.Split(s[1:len(s)-1], ",")
	if len(parts) != 2 {
		return core.Top(), fmt.Errorf("bad interval %q", s)
	}
	var lo, hi *big.Rat
	if p := strings.TrimSpace(parts[0]); p != "-inf" {
		r, ok := new(big.Rat).SetString(p)
		if !ok {
			return core.Top(), fmt.Errorf("bad bound %q", p)
		}
		lo = r
	}
	if p := strings.TrimSpace(parts[1]); p != "inf" && p != "+inf" {
		r, ok := new(big.Rat).SetString(p)
		if !ok {
			return core.Top(), fmt.Errorf("bad bound %q", p)
		}
		hi = r
	}
	return core.Range(lo, hi, loOpen, hiOpen), nil
}

func loadRangeSpec(name string) (*core.RangeSpec, error) {
	var t rangeTable
	if err := loadTable(name, &t); err != nil {
		return nil, err
	}
	sp := &core.RangeSpec{Fields: map[string]core.Itv{}, Results: map[string]core.Itv{}, Params: map[string]core.Itv{}, Ideal: map[string]*big.Rat{}, MonoUp: map[string]bool{}}
	for _, m := range []struct {
		src map[string]rangeEntry
		dst map[string]core.Itv
	}{{t.Fields, sp.Fields}, {t.Results, sp.Results}, {t.Params, sp.Params}} {
		for k, e := range m.src {
			it, err := parseItv(e.Range)
			if err != nil {
				return nil, err
			}
			m.dst[k] = it
		}
	}
	for k, v := range t.Ideal {
		r, ok := new(big.Rat).SetString(v)
		if !ok {
			return nil, fmt.Errorf("bad ideal %q", v)
		}
		sp.Ideal[k] = r
	}
	for k := range t.MonoUp {
		sp.MonoUp[k] = true
	}
	return sp, nil
}

// LoadRangeSpec is exported for the debugging command.
func LoadRangeSpec(name string) (*core.RangeSpec, error) { return loadRangeSpec(name) }
