package rules

import (
	"encoding/json"
	"os"
	"path/filepath"

	"elyslint/core"
)

// loadTable reads a frozen table from /verif/tables. Tables are never written at run time.
func loadTable(name string, v any) error {
	b, err := os.ReadFile(filepath.Join(core.VerifDir(), "tables", name))
	if err != nil {
		return err
	}
	return json.Unmarshal(b, v)
}
