package rules

import (
	"go/types"
	"fmt"
	"strings"

	"elyslint/core"

	"golang.org/x/tools/go/ssa"
)

// Record freshness (DESIGN §2 R6, rule F1 for write-backs through callees).
//
// A record type has a loader (GetPool) and a persister (SetPool). A function "persists
// parameter i" when the value of that parameter can reach the persister's record argument,
// directly or through further calls. Every call that hands a record to such a parameter is
// a *persisting use*. The record handed over must be
//   (a) a parameter of the enclosing function (the caller is checked in turn),
//   (b) built by some other call (constructor), or
//   (c) the result of the loader — and then fresh: no path leads from the use back to
//       itself without re-executing the loader (a snapshot taken outside a loop whose body
//       persists it), and no call between the load and the use stores the same record type
//       through its *own* load.
// Anything else (map element, global, captured variable) is a cached snapshot.

type freshSpec struct {
	Rule     string
	Load     string // loader key
	Store    string // persister key
	Subjects map[*ssa.Function]bool
	// SequentialOK: "function key" → reason, for functions that hand the same snapshot to
	// two persisting callees in sequence where the second is only reached if the first did
	// not change the record (triaged by reading).
	Tolerated map[string]string
	// Sinks: additional consumers of the record ("function key" → parameter indexes incl.
	// receiver) that decide something from it (a third-party close, a health verdict): the
	// record handed to them must be as fresh as one that is persisted.
	Sinks map[string][]int
}

type paramRef struct {
	fn  *ssa.Function
	idx int
}

func persistsParams(P *core.Program, storeKey string) map[paramRef]bool {
	marked := map[paramRef]bool{}
	storeFn := P.Fn(storeKey)
	if storeFn == nil {
		return marked
	}
	// the persister persists its record parameter (last)
	marked[paramRef{storeFn, len(storeFn.Params) - 1}] = true
	for changed := true; changed; {
		changed = false
		for _, fn := range P.Funcs {
			ff := P.Facts(fn)
			for _, c := range core.Calls(fn) {
				for _, t := range P.Callees(c) {
					cc := c.Common()
					for ai, a := range cc.Args {
						pi := ai
						if cc.IsInvoke() {
							pi = ai + 1
						}
						if !marked[paramRef{t, pi}] {
							continue
						}
						for _, o := range recordOrigins(ff, a) {
							if o.Kind != "param" {
								continue
							}
							for i, p := range fn.Params {
								if ssa.Value(p) == o.Val && !marked[paramRef{fn, i}] {
									marked[paramRef{fn, i}] = true
									changed = true
								}
							}
						}
					}
				}
			}
		}
	}
	return marked
}

func checkRecordFreshness(P *core.Program, R *core.Report, spec freshSpec) {
	storeFn := P.Fn(spec.Store)
	if storeFn == nil || P.Fn(spec.Load) == nil {
		R.Add(spec.Rule, spec.Store, "loader/persister", "-", false, "unresolved anchor")
		return
	}
	marked := persistsParams(P, spec.Store)
	for k, idxs := range spec.Sinks {
		f := P.Fn(k)
		if f == nil {
			R.Add(spec.Rule, k, "deciding consumer", "-", false, "unresolved anchor")
			continue
		}
		for _, i := range idxs {
			marked[paramRef{f, i}] = true
		}
	}
	recType := P.Fn(spec.Load).Signature.Results().At(0).Type()
	mayStore := P.Summary("mayCall:"+spec.Store, func(fn *ssa.Function) bool { return fn == storeFn })
	// loader wrappers: functions whose first result is the loader's record (k.GetAmmPool → amm.GetPool)
	loaders := map[*ssa.Function]bool{P.Fn(spec.Load): true}
	for changed := true; changed; {
		changed = false
		for _, fn := range P.Funcs {
			if loaders[fn] || fn.Signature.Results().Len() == 0 || core.IsGeneratedOrAux(P.File(fn.Pos())) {
				continue
			}
			if !types.Identical(fn.Signature.Results().At(0).Type(), P.Fn(spec.Load).Signature.Results().At(0).Type()) {
				continue
			}
			ff := P.Facts(fn)
			all, any := true, false
			for _, ex := range ff.Exits() {
				ret, ok := ex.Instr.(*ssa.Return)
				if !ok || ex.Kind == core.ExitError || len(ret.Results) == 0 {
					continue
				}
				for _, o := range ff.Origins(ret.Results[0]) {
					c, isCall := o.Val.(*ssa.Call)
					isLd := false
					if o.Kind == "call" && isCall && (o.Path == "" || o.Path == "#0") {
						for _, t := range P.Callees(c) {
							if loaders[t] {
								isLd = true
							}
						}
					}
					if isLd {
						any = true
					} else if !(o.Kind == "call" && isCall && len(P.Callees(c)) == 0) { // zero-value constructors of other packages are fine
						all = false
					}
				}
			}
			if all && any {
				loaders[fn] = true
				changed = true
			}
		}
	}
	isLoaderCall := func(c *ssa.Call) bool {
		if calleeMatches(P, c, spec.Load) {
			return true
		}
		for _, t := range P.Callees(c) {
			if loaders[t] {
				return true
			}
		}
		return false
	}
	for _, fn := range P.Funcs {
		if !spec.Subjects[fn] || core.IsGeneratedOrAux(P.File(fn.Pos())) || fn == storeFn {
			continue
		}
		key := P.Key(fn)
		if strings.HasSuffix(key, ".InitGenesis") {
			continue // genesis import builds records from the genesis file
		}
		ff := P.Facts(fn)
		calls := core.Calls(fn)
		// a by-value record parameter re-bound to a freshly loaded record: from there on this
		// function works on (and persists) a record its caller does not have — the caller's copy,
		// which shared the parameter's backing arrays, silently goes stale and is written back later
		for _, prm := range fn.Params {
			if !types.Identical(prm.Type(), recType) || prm.Referrers() == nil {
				continue
			}
			for _, r := range *prm.Referrers() {
				st, ok := r.(*ssa.Store)
				if !ok || st.Val != ssa.Value(prm) {
					continue
				}
				spill, ok := st.Addr.(*ssa.Alloc)
				if !ok || spill.Referrers() == nil {
					continue
				}
				for _, r2 := range *spill.Referrers() {
					st2, ok := r2.(*ssa.Store)
					if !ok || st2.Addr != ssa.Value(spill) || st2 == st {
						continue
					}
					reloaded := false
					for _, o := range ff.Origins(st2.Val) {
						if c, ok := o.Val.(*ssa.Call); ok && o.Kind == "call" && isLoaderCall(c) {
							reloaded = true
						}
					}
					if reloaded {
						R.Add(spec.Rule, key, "record parameter "+prm.Name()+" re-bound to a reload", P.Pos(P.InstrPos(st2)), false,
							"a record received by value is replaced by a freshly loaded one: what this function then changes and stores is no longer what its caller holds, and the caller's later write-back discards it")
					}
				}
			}
		}
		for _, use := range calls {
			cc := use.Common()
			for ai, a := range cc.Args {
				pi := ai
				if cc.IsInvoke() {
					pi = ai + 1
				}
				persisting := false
				for _, t := range P.Callees(use) {
					if marked[paramRef{t, pi}] {
						persisting = true
					}
				}
				if !persisting {
					continue
				}
				construct := fmt.Sprintf("record handed to %s", P.CalleeKey(cc))
				pos := P.Pos(P.InstrPos(use))
				bad := ""
				for _, o := range recordOrigins(ff, a) {
					switch {
					case o.Kind == "param":
					case o.Kind == "call":
						ld, _ := o.Val.(*ssa.Call)
						if ld == nil || !isLoaderCall(ld) {
							// constructed / returned by another function — unless that function hands
							// out a copy it keeps in a map, a captured variable or a global (a cache)
							if ld != nil {
								for _, t := range P.Callees(ld) {
									if src := returnsCachedRecord(P, t, recType); src != "" {
										bad = "the record is returned by " + P.Key(t) + ", which hands out a cached copy (" + src + ") instead of loading it"
									}
								}
							}
							continue
						}
						// loop: use → use without reloading
						if _, again := core.ReachesWithout(fn, use, func(in ssa.Instruction) bool { return in == ssa.Instruction(use) },
							func(in ssa.Instruction) bool { return in == ssa.Instruction(ld) }); again {
							bad = "the snapshot loaded at " + P.Pos(P.InstrPos(ld)) + " is persisted again on a later loop iteration without being reloaded"
						}
						// a callee in between that stores the record through its own load
						for _, mid := range calls {
							if mid == use || ssa.Instruction(mid) == ssa.Instruction(ld) {
								continue
							}
							if !reachesInstr(fn, ld, mid) {
								continue
							}
							if _, ok := core.ReachesWithout(fn, mid, func(in ssa.Instruction) bool { return in == ssa.Instruction(use) },
								func(in ssa.Instruction) bool { return in == ssa.Instruction(ld) }); !ok {
								continue
							}
							// does mid receive this same snapshot (alias / copy)? then it is a sibling use
							sibling := false
							for _, ma := range mid.Common().Args {
								for _, mo := range recordOrigins(ff, ma) {
									if mo.Val == o.Val {
										sibling = true
									}
								}
							}
							if sibling {
								continue
							}
							for _, t := range P.Callees(mid) {
								if mayStore[t] {
									bad = "between the load at " + P.Pos(P.InstrPos(ld)) + " and this use, " + P.CalleeKey(mid.Common()) + " (" + P.Pos(P.InstrPos(mid)) + ") may store the same record through its own load"
								}
							}
						}
					default:
						// a variable captured by a function literal is the enclosing function's variable:
						// judged by what the enclosing function stores into it
						if fv, isFV := o.Val.(*ssa.FreeVar); isFV && capturedFromLoader(P, fn, fv, isLoaderCall) {
							continue
						}
						bad = "the record comes from a cached copy (" + o.String() + "), not from the loader, a parameter or a constructor"
					}
				}
				if why, ok := spec.Tolerated[key+" "+P.CalleeKey(cc)]; ok && bad != "" {
					R.Add(spec.Rule, key, construct, pos, true, "tolerated: "+why+" ["+bad+"]")
					continue
				}
				R.Add(spec.Rule, key, construct, pos, bad == "", "a persisted record must be fresh. "+bad)
			}
		}
	}
}

var _ = strings.HasPrefix

// recordOrigins: origins of a record argument; for a pointer to a local the origins of the
// values stored (whole) into that local.
func recordOrigins(ff *core.FuncFacts, a ssa.Value) []core.Origin {
	if al, ok := a.(*ssa.Alloc); ok && al.Referrers() != nil {
		var out []core.Origin
		for _, r := range *al.Referrers() {
			if st, ok := r.(*ssa.Store); ok && st.Addr == ssa.Value(al) {
				out = append(out, ff.Origins(st.Val)...)
			}
		}
		if len(out) > 0 {
			return out
		}
	}
	var out []core.Origin
	for _, o := range ff.Origins(a) {
		if o.Kind == "local" && o.Path == "" {
			if u, ok := o.Val.(*ssa.UnOp); ok {
				if al, ok := u.X.(*ssa.Alloc); ok && al.Referrers() != nil {
					// a local copy that was handed to callees by pointer: it is still the record
					// that was stored into it (parameter spill / loaded snapshot)
					n := 0
					for _, r := range *al.Referrers() {
						if st, ok := r.(*ssa.Store); ok && st.Addr == ssa.Value(al) {
							out = append(out, ff.Origins(st.Val)...)
							n++
						}
					}
					if n > 0 {
						continue
					}
				}
			}
		}
		out = append(out, o)
	}
	return out
}

// returnsCachedRecord: fn returns a record of type rec (or a pointer to one) that, on some
// non-error return, originates from a map element, a captured variable or a package-level
// variable — a memoised copy.  Returns a description of the source, or "".
func returnsCachedRecord(P *core.Program, fn *ssa.Function, rec types.Type) string {
	if fn == nil || len(fn.Blocks) == 0 || fn.Signature.Results().Len() == 0 {
		return ""
	}
	rt := fn.Signature.Results().At(0).Type()
	if pt, ok := rt.Underlying().(*types.Pointer); ok {
		rt = pt.Elem()
	}
	bt := rec
	if pt, ok := bt.Underlying().(*types.Pointer); ok {
		bt = pt.Elem()
	}
	if !types.Identical(rt, bt) {
		return ""
	}
	ff := P.Facts(fn)
	for _, ex := range ff.Exits() {
		ret, ok := ex.Instr.(*ssa.Return)
		if !ok || ex.Kind == core.ExitError || len(ret.Results) == 0 {
			continue
		}
		for _, o := range recordOrigins(ff, ret.Results[0]) {
			switch {
			case o.Kind == "freevar", o.Kind == "global":
				return o.String()
			case strings.Contains(o.Path, "[]") && o.Kind != "call" && o.Kind != "param":
				return o.String()
			}
			if lk, ok := o.Val.(*ssa.Lookup); ok {
				return "map element " + lk.X.Name()
			}
		}
	}
	return ""
}

// capturedFromLoader: fv is a free variable of the function literal fn; in the enclosing
// function the captured variable is a local that only ever receives loader results,
// parameters or other call results (it is not itself a cache: a map, a global, a field).
func capturedFromLoader(P *core.Program, fn *ssa.Function, fv *ssa.FreeVar, isLoader func(*ssa.Call) bool) bool {
	parent := fn.Parent()
	if parent == nil {
		return false
	}
	idx := -1
	for i, f := range fn.FreeVars {
		if f == fv {
			idx = i
		}
	}
	if idx < 0 {
		return false
	}
	pf := P.Facts(parent)
	found := false
	for _, b := range parent.Blocks {
		for _, in := range b.Instrs {
			mc, ok := in.(*ssa.MakeClosure)
			if !ok || mc.Fn != ssa.Value(fn) || idx >= len(mc.Bindings) {
				continue
			}
			al, ok := mc.Bindings[idx].(*ssa.Alloc)
			if !ok || al.Referrers() == nil {
				return false
			}
			for _, r := range *al.Referrers() {
				st, ok := r.(*ssa.Store)
				if !ok || st.Addr != ssa.Value(al) {
					continue
				}
				for _, o := range pf.Origins(st.Val) {
					switch o.Kind {
					case "param", "call", "zero", "const":
						found = true
					default:
						return false
					}
				}
			}
		}
	}
	return found
}
