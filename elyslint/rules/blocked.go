package rules

import (
	"go/ast"
	"sort"
	"strings"

	"elyslint/core"

	"golang.org/x/tools/go/ssa"
)

// Blocked recipients (C18-blocked-recipient, DESIGN §10.11).
//
// The bank keeper refuses account-style transfers (SendCoins, SendCoinsFromModuleToAccount)
// to every address on the app's blocklist: all module accounts except the ones
// app.BlockedModuleAccountAddrs() takes off it.  A transfer of that style whose recipient IS a
// module account, made while a block is being processed, therefore fails on every block once
// that account is (back) on the list — and block processing hands the error to the SDK or
// panics on it.  Both sides are in the source: the recipient's provenance
// (authtypes.NewModuleAddress(<const>)) and the delete(…) calls of the blocklist builder.
// Rule: every such recipient in consensus code reachable from block processing is a module
// account the blocklist builder unblocks (or not a registered module account at all).

func maccNames(P *core.Program) (map[string]bool, bool) {
	pkg := P.PkgByRel["app"]
	if pkg == nil {
		return nil, false
	}
	names := map[string]bool{}
	found := false
	for _, f := range pkg.Syntax {
		ast.Inspect(f, func(n ast.Node) bool {
			vs, ok := n.(*ast.ValueSpec)
			if !ok || len(vs.Names) != 1 || vs.Names[0].Name != "maccPerms" || len(vs.Values) != 1 {
				return true
			}
			cl, ok := vs.Values[0].(*ast.CompositeLit)
			if !ok {
				return true
			}
			found = true
			for _, el := range cl.Elts {
				if kv, ok := el.(*ast.KeyValueExpr); ok {
					if tv, ok := pkg.TypesInfo.Types[kv.Key]; ok && tv.Value != nil {
						names[strings.Trim(tv.Value.ExactString(), "\"")] = true
					}
				}
			}
			return false
		})
	}
	return names, found
}

func moduleAddrName(ff *core.FuncFacts, v ssa.Value) (string, bool) {
	name, all, any := "", true, false
	for _, o := range ff.OriginsT(v, signerTransparent) {
		call, _ := o.Val.(*ssa.Call)
		if o.Kind != "call" || call == nil || !strings.HasSuffix(o.Name, "auth/types.NewModuleAddress") || len(call.Common().Args) != 1 {
			all = false
			continue
		}
		s, ok := constString(ff, call.Common().Args[0])
		if !ok || (any && s != name) {
			all = false
			continue
		}
		name, any = s, true
	}
	return name, all && any
}

func unblockedModuleAccounts(P *core.Program) (map[string]bool, bool) {
	fn := P.Fn("app.ElysApp.BlockedModuleAccountAddrs")
	if fn == nil {
		return nil, false
	}
	ff := P.Facts(fn)
	out := map[string]bool{}
	for _, c := range core.Calls(fn) {
		b, ok := c.Common().Value.(*ssa.Builtin)
		if !ok || b.Name() != "delete" || len(c.Common().Args) != 2 {
			continue
		}
		if n, ok := moduleAddrName(ff, c.Common().Args[1]); ok {
			out[n] = true
		}
	}
	return out, true
}

func checkBlockedRecipients(P *core.Program, R *core.Report, rule string, subjects map[*ssa.Function]bool) {
	macc, ok1 := maccNames(P)
	unblocked, ok2 := unblockedModuleAccounts(P)
	if !ok1 || !ok2 {
		R.Add(rule, "app", "maccPerms / BlockedModuleAccountAddrs", "-", false, "unresolved anchor")
		return
	}
	var fns []*ssa.Function
	for fn := range subjects {
		fns = append(fns, fn)
	}
	sort.Slice(fns, func(i, j int) bool { return P.Key(fns[i]) < P.Key(fns[j]) })
	n := 0
	for _, fn := range fns {
		if core.IsGeneratedOrAux(P.File(fn.Pos())) || !core.InModule(fn) {
			continue
		}
		ff := P.Facts(fn)
		for _, c := range core.Calls(fn) {
			if P.EffectOf(c) != core.EffBankSend {
				continue
			}
			switch core.CalleeName(c.Common()) {
			case "SendCoins", "SendCoinsFromModuleToAccount":
			default:
				continue
			}
			_, to, _ := bankEnds(c)
			if to == nil {
				continue
			}
			name, isMod := moduleAddrName(ff, to)
			if !isMod {
				continue
			}
			n++
			ok := !macc[name] || unblocked[name]
			R.Add(rule, P.Key(fn), "account-style transfer to module account "+name, P.Pos(P.InstrPos(c)), ok,
				"the bank refuses account-style transfers to blocklisted addresses: a module account that receives one must be taken off the list in app.BlockedModuleAccountAddrs, or the transfer fails in every block that makes it")
		}
	}
	// one level up: a function that pays a recipient named by a field of its parameter (a
	// message's Sender) is called from block processing with a literal whose field is a module
	// account's address (estaking claims the provider pool's vested rewards this way)
	type paramSend struct {
		fn    *ssa.Function
		idx   int
		field string
		site  ssa.Instruction
	}
	var psends []paramSend
	for _, fn := range P.Funcs {
		if core.IsGeneratedOrAux(P.File(fn.Pos())) || !core.InModule(fn) || len(fn.Blocks) == 0 {
			continue
		}
		ff := P.Facts(fn)
		for _, c := range core.Calls(fn) {
			if P.EffectOf(c) != core.EffBankSend {
				continue
			}
			switch core.CalleeName(c.Common()) {
			case "SendCoins", "SendCoinsFromModuleToAccount":
			default:
				continue
			}
			_, to, _ := bankEnds(c)
			if to == nil {
				continue
			}
			os := ff.OriginsT(to, signerTransparent)
			if len(os) != 1 || os[0].Kind != "param" || strings.Count(os[0].Path, ".") != 1 {
				continue
			}
			for i, prm := range fn.Params {
				if ssa.Value(prm) == os[0].Val {
					psends = append(psends, paramSend{fn, i, strings.TrimPrefix(os[0].Path, "."), c})
				}
			}
		}
	}
	for _, ps := range psends {
		for _, e := range P.CG().In[ps.fn] {
			if !subjects[e.Caller] || core.IsGeneratedOrAux(P.File(e.Caller.Pos())) {
				continue
			}
			c, ok := e.Site.(ssa.CallInstruction)
			if !ok {
				continue
			}
			idx := ps.idx
			if c.Common().IsInvoke() {
				idx--
			}
			if idx < 0 || idx >= len(c.Common().Args) {
				continue
			}
			cf := P.Facts(e.Caller)
			al, ok := c.Common().Args[idx].(*ssa.Alloc)
			if !ok || al.Referrers() == nil {
				continue
			}
			for _, r := range *al.Referrers() {
				fa, ok := r.(*ssa.FieldAddr)
				if !ok || core.FieldName(fa.X.Type(), fa.Field) != ps.field || fa.Referrers() == nil {
					continue
				}
				for _, rr := range *fa.Referrers() {
					st, ok := rr.(*ssa.Store)
					if !ok || st.Addr != ssa.Value(fa) {
						continue
					}
					name, isMod := moduleAddrName(cf, st.Val)
					if !isMod {
						continue
					}
					n++
					ok2 := !macc[name] || unblocked[name]
					R.Add(rule, P.Key(e.Caller), "account-style transfer to module account "+name+" through "+P.Key(ps.fn), P.Pos(P.InstrPos(c)), ok2,
						"the callee pays the address in ."+ps.field+" with an account-style transfer ("+P.Pos(P.InstrPos(ps.site))+"), which the bank refuses for blocklisted addresses: the module account must be taken off the list in app.BlockedModuleAccountAddrs")
				}
			}
		}
	}
	R.Analysed["module_account_recipients"] = n
	if n == 0 {
		R.Add(rule, "-", "account-style transfers to module accounts", "-", false, "none found (anchor changed: the estaking provider payout was one)")
	}
}

// Parameter-named recipients (C18-param-recipient).  Where block processing pays, with an
// account-style transfer, an address it reads from the module's parameters
// (masterchef's ProtocolRevenueAddress), a parameter change that puts a blocklisted address
// there makes that transfer fail in every later block.  The only place to refuse it is the
// parameter handler: its SetParams is reached only under the fact that the bank does NOT
// block the new value of that field.
func checkParamRecipients(P *core.Program, R *core.Report, rule string, subjects map[*ssa.Function]bool) {
	type pf struct{ pkg, field string }
	found := map[pf]string{}
	for fn := range subjects {
		if core.IsGeneratedOrAux(P.File(fn.Pos())) || !core.InModule(fn) {
			continue
		}
		ff := P.Facts(fn)
		for _, c := range core.Calls(fn) {
			if P.EffectOf(c) != core.EffBankSend {
				continue
			}
			switch core.CalleeName(c.Common()) {
			case "SendCoins", "SendCoinsFromModuleToAccount":
			default:
				continue
			}
			_, to, _ := bankEnds(c)
			if to == nil {
				continue
			}
			for _, o := range ff.OriginsT(to, signerTransparent) {
				if o.Kind == "call" && strings.HasSuffix(o.Name, "Keeper.GetParams") && strings.Count(o.Path, ".") == 1 {
					pkg := core.PkgRel(fn)
					found[pf{pkg, strings.TrimPrefix(o.Path, ".")}] = P.Pos(P.InstrPos(c))
				}
			}
		}
	}
	var keys []pf
	for k := range found {
		keys = append(keys, k)
	}
	sort.Slice(keys, func(i, j int) bool { return keys[i].pkg+keys[i].field < keys[j].pkg+keys[j].field })
	for _, k := range keys {
		hk := k.pkg + ".msgServer.UpdateParams"
		h := P.Fn(hk)
		if h == nil {
			R.Add(rule, hk, "handler that sets ."+k.field, "-", false, "unresolved anchor: block processing pays the address in params."+k.field+" at "+found[k])
			continue
		}
		ff := P.Facts(h)
		n := 0
		for _, c := range core.Calls(h) {
			if !strings.HasSuffix(P.CalleeKey(c.Common()), "Keeper.SetParams") {
				continue
			}
			n++
			ok := false
			for _, a := range ff.At(c) {
				if a.Rel != core.FALSE {
					continue
				}
				if call, isCall := ff.Fwd(a.A).(*ssa.Call); isCall && blockedCheckOf(P, ff, call, k.field, 2) {
					ok = true
				}
			}
			R.Add(rule, hk, "SetParams only with an unblocked ."+k.field, P.Pos(P.InstrPos(c)), ok,
				"block processing pays params."+k.field+" with an account-style transfer ("+found[k]+"); the bank refuses blocklisted recipients, so the handler stores new parameters only under the fact that the bank does not block that address")
		}
		if n == 0 {
			R.Add(rule, hk, "SetParams", P.Pos(h.Pos()), false, "no SetParams call found (anchor changed)")
		}
	}
	R.Analysed["param_named_recipients"] = len(keys)
	if len(keys) == 0 {
		R.Add(rule, "-", "parameter-named recipients", "-", false, "none found (anchor changed: masterchef ProtocolRevenueAddress was one)")
	}
}

// blockedCheckOf: call is bank.BlockedAddr(x) with x derived from field, or a module helper
// whose result is such a call on the corresponding field of its parameter.
func blockedCheckOf(P *core.Program, ff *core.FuncFacts, call *ssa.Call, field string, depth int) bool {
	fromField := func(f *core.FuncFacts, v ssa.Value) bool {
		os := f.OriginsT(v, signerTransparent)
		if len(os) == 0 {
			return false
		}
		for _, o := range os {
			if !strings.HasSuffix(o.Path, "."+field) {
				return false
			}
		}
		return true
	}
	if core.CalleeName(call.Common()) == "BlockedAddr" {
		args := call.Common().Args
		return len(args) > 0 && fromField(ff, args[len(args)-1])
	}
	if depth == 0 {
		return false
	}
	sc := call.Common().StaticCallee()
	if sc == nil || !core.InModule(sc) || len(sc.Blocks) == 0 {
		return false
	}
	cf := P.Facts(sc)
	all, any := true, false
	for _, ex := range cf.Exits() {
		ret, ok := ex.Instr.(*ssa.Return)
		if !ok || len(ret.Results) == 0 {
			continue
		}
		inner, ok := cf.Fwd(ret.Results[0]).(*ssa.Call)
		if ok && blockedCheckOf(P, cf, inner, field, depth-1) {
			any = true
		} else {
			all = false
		}
	}
	return all && any
}
