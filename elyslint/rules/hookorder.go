package rules

import (
	"fmt"
	"os"
	"sort"
	"strings"

	"elyslint/core"

	"golang.org/x/tools/go/ssa"
)

// Store-before-hook (shared rule; DESIGN §10.9).  Hooks are how one module tells the others
// that a record changed; subscribers re-read the record from the store (perpetual re-reads
// the amm pool, distribution re-reads the commitments behind a virtual delegation, tier
// re-reads debts).  A record that is changed in memory BEFORE a hook call and written to
// the store only AFTER it makes every subscriber act on the old state — and the late
// write then overwrites whatever a subscriber stored meanwhile.
//
// Decided for every consensus-reachable function: for every call of a *Hooks interface
// method h and every later store call s = k.Set<Record>(ctx, r) reachable from h, the
// record r must not have been modified between its load and h (field store or mutating
// method on it before h) unless it is also stored before h.
type hookOrderFinding struct {
	fn     *ssa.Function
	hook   ssa.CallInstruction
	store  ssa.CallInstruction
	record string
}

func isHooksCall(P *core.Program, c ssa.CallInstruction) bool {
	cc := c.Common()
	if !cc.IsInvoke() {
		return false
	}
	n := core.NamedName(cc.Value.Type())
	// Before* hooks are told in advance by design: they must see the state before the change
	return strings.HasSuffix(n, "Hooks") && cc.Method != nil && !strings.HasPrefix(cc.Method.Name(), "Before")
}

// storeCallRecord: c is k.SetX(ctx, rec …) / k.SetX(ctx, &rec): returns the record argument.
func storeCallRecord(P *core.Program, c ssa.CallInstruction) (ssa.Value, string, bool) {
	cc := c.Common()
	sc := cc.StaticCallee()
	if sc == nil || sc.Signature.Recv() == nil || !strings.HasPrefix(sc.Name(), "Set") || len(cc.Args) < 3 {
		return nil, "", false
	}
	if core.NamedName(sc.Signature.Recv().Type()) != "Keeper" {
		return nil, "", false
	}
	rec := cc.Args[2]
	n := core.NamedName(rec.Type())
	if n == "" || n == "Int" || n == "LegacyDec" || n == "AccAddress" || n == "Coin" || n == "Coins" {
		return nil, "", false
	}
	return rec, n, true
}

func scanHookOrder(P *core.Program, subjects map[*ssa.Function]bool) (findings []hookOrderFinding, pairs int) {
	var fns []*ssa.Function
	for fn := range subjects {
		if fn.Blocks != nil && !core.IsGeneratedOrAux(P.File(fn.Pos())) {
			fns = append(fns, fn)
		}
	}
	sort.Slice(fns, func(i, j int) bool { return P.Key(fns[i]) < P.Key(fns[j]) })
	for _, fn := range fns {
		var hooks, stores []ssa.CallInstruction
		for _, c := range core.Calls(fn) {
			if isHooksCall(P, c) {
				hooks = append(hooks, c)
			} else if _, _, ok := storeCallRecord(P, c); ok {
				stores = append(stores, c)
			}
		}
		if len(hooks) == 0 || len(stores) == 0 {
			continue
		}
		ff := P.Facts(fn)
		for _, h := range hooks {
			hi := h.(ssa.Instruction)
			for _, s := range stores {
				si := s.(ssa.Instruction)
				if !reachesInstr(fn, hi, si) || reachesInstr(fn, si, hi) && loopOnly(fn, hi, si) {
					continue
				}
				rec, name, _ := storeCallRecord(P, s)
				pairs++
				// the local the record lives in
				al := recordAlloc(ff, rec)
				if al == nil {
					continue
				}
				// modified before the hook (a store into one of its fields, or a pointer-receiver
				// / by-pointer call on it, that can reach the hook) …
				modBefore := false
				for _, m := range allocMutations(ff, al) {
					if m != si && reachesInstr(fn, m, hi) {
						modBefore = true
					}
				}
				if !modBefore {
					continue
				}
				// … and not stored before the hook on the way
				storedBefore := false
				for _, s2 := range stores {
					s2i := s2.(ssa.Instruction)
					if s2 == s {
						continue
					}
					r2, _, _ := storeCallRecord(P, s2)
					if recordAlloc(ff, r2) == al && reachesInstr(fn, s2i, hi) {
						storedBefore = true
					}
				}
				if storedBefore {
					continue
				}
				findings = append(findings, hookOrderFinding{fn, h, s, name})
			}
		}
	}
	return
}

// loopOnly: s reaches h only around a loop back edge (both are in a loop body and s comes
// textually after h): the pair is still "hook, then store".
func loopOnly(fn *ssa.Function, h, s ssa.Instruction) bool { return false }

// recordAlloc: the local variable (Alloc) a record argument lives in: &local, or a load of it.
func recordAlloc(ff *core.FuncFacts, v ssa.Value) *ssa.Alloc {
	switch x := v.(type) {
	case *ssa.Alloc:
		return x
	case *ssa.UnOp:
		if al, ok := x.X.(*ssa.Alloc); ok {
			return al
		}
	}
	if al, ok := ff.Fwd(v).(*ssa.Alloc); ok {
		return al
	}
	if u, ok := ff.Fwd(v).(*ssa.UnOp); ok {
		if al, ok := u.X.(*ssa.Alloc); ok {
			return al
		}
	}
	return nil
}

// allocMutations: instructions that change the record held in al: stores into its fields
// (or elements of its slices), and calls that receive its address (pointer receiver or
// by-pointer argument) other than keeper store calls.
func allocMutations(ff *core.FuncFacts, al *ssa.Alloc) []ssa.Instruction {
	var out []ssa.Instruction
	var walk func(addr ssa.Value, depth int)
	walk = func(addr ssa.Value, depth int) {
		if depth > 4 || addr.Referrers() == nil {
			return
		}
		for _, r := range *addr.Referrers() {
			switch x := r.(type) {
			case *ssa.FieldAddr:
				walk(x, depth+1)
			case *ssa.IndexAddr:
				walk(x, depth+1)
			case *ssa.Store:
				if x.Addr == addr && depth > 0 {
					out = append(out, x)
				}
			case ssa.CallInstruction:
				if depth == 0 {
					cc := x.Common()
					name := core.CalleeName(cc)
					if strings.HasPrefix(name, "Set") || strings.HasPrefix(name, "Get") || strings.HasPrefix(name, "Is") || strings.HasPrefix(name, "Validate") || name == "String" {
						continue
					}
					if sc := cc.StaticCallee(); sc != nil && sc.Signature.Recv() != nil && len(cc.Args) > 0 && cc.Args[0] == addr {
						// pointer-receiver method on the record
						out = append(out, x.(ssa.Instruction))
					}
				}
			}
		}
	}
	walk(al, 0)
	return out
}

func checkStoreBeforeHook(P *core.Program, R *core.Report, rule string, keep func(fnKey, record string) bool) {
	roots := P.FindRoots()
	subjects := P.Reach(roots.Consensus())
	fs, pairs := scanHookOrder(P, subjects)
	R.Analysed["hook_then_store_pairs"] = pairs
	if os.Getenv("ELYSLINT_POLY_DEBUG") != "" {
		fmt.Fprintln(os.Stderr, "hookorder pairs:", pairs, "findings:", len(fs))
	}
	n := 0
	// one obligation per function that calls hooks and stores a record it changed
	type k2 struct{ fn, rec string }
	bad := map[k2]hookOrderFinding{}
	for _, f := range fs {
		bad[k2{P.Key(f.fn), f.record}] = f
	}
	seen := map[k2]bool{}
	var fns []*ssa.Function
	for fn := range subjects {
		if fn.Blocks != nil && !core.IsGeneratedOrAux(P.File(fn.Pos())) {
			fns = append(fns, fn)
		}
	}
	sort.Slice(fns, func(i, j int) bool { return P.Key(fns[i]) < P.Key(fns[j]) })
	for _, fn := range fns {
		hasHook := false
		for _, c := range core.Calls(fn) {
			if isHooksCall(P, c) {
				hasHook = true
			}
		}
		if !hasHook {
			continue
		}
		for _, c := range core.Calls(fn) {
			_, name, ok := storeCallRecord(P, c)
			if !ok {
				continue
			}
			k := k2{P.Key(fn), name}
			if seen[k] || (keep != nil && !keep(k.fn, name)) {
				continue
			}
			seen[k] = true
			n++
			if f, isBad := bad[k]; isBad {
				R.Add(rule, k.fn, "store of "+name+" vs hooks", P.Pos(P.InstrPos(f.store.(ssa.Instruction))), false,
					fmt.Sprintf("the %s record is changed before %s is called and stored only afterwards: subscribers that re-read it from the store act on the old state", name, P.CalleeKey(f.hook.Common())))
			} else {
				R.Add(rule, k.fn, "store of "+name+" vs hooks", P.Pos(P.InstrPos(c.(ssa.Instruction))), true, "a record changed before a hook call is stored before it")
			}
		}
	}
	if n == 0 {
		R.Add(rule, "-", "hook callers", "-", false, "no function both calls hooks and stores a record (anchor changed)")
	}
}
