package rules

import (
	"go/token"
	"go/ast"
	"go/types"
	"sort"
	"strings"

	"elyslint/core"

	"golang.org/x/tools/go/ssa"
)

func init() { register("C15", checkC15) }

// constDenoms: the denoms of a coins value when every coin is NewCoin(<string const>, …).
func constDenoms(ff *core.FuncFacts, coins ssa.Value) ([]string, bool) {
	denoms, whole := coinDenomValues(ff, unwrapSort(ff, coins))
	if len(whole) > 0 || len(denoms) == 0 {
		return nil, false
	}
	var out []string
	for _, d := range denoms {
		ss, ok := constStrings(ff, d)
		if !ok {
			return nil, false
		}
		out = append(out, ss...)
	}
	return out, true
}

// constStrings: the constant strings a value can be — a constant, or an element of a
// package-level slice that is initialised once with constants (a named list of denoms).
func constStrings(ff *core.FuncFacts, v ssa.Value) ([]string, bool) {
	if s, ok := constString(ff, v); ok {
		return []string{s}, true
	}
	u, ok := ff.Fwd(v).(*ssa.UnOp)
	if !ok || u.Op != token.MUL {
		return nil, false
	}
	ia, ok := u.X.(*ssa.IndexAddr)
	if !ok {
		return nil, false
	}
	ld, ok := ff.Fwd(ia.X).(*ssa.UnOp)
	if !ok || ld.Op != token.MUL {
		return nil, false
	}
	g, ok := ld.X.(*ssa.Global)
	if !ok {
		return nil, false
	}
	iv := ff.GlobalInit(g)
	if iv == nil || iv.Parent() == nil {
		return nil, false
	}
	iff := ff.P.Facts(iv.Parent())
	els, ok := core.SliceLiteral(iff.Fwd(iv))
	if !ok {
		return nil, false
	}
	var out []string
	for _, e := range els {
		s, ok := constString(iff, e)
		if !ok {
			return nil, false
		}
		out = append(out, s)
	}
	return out, len(out) > 0
}

// unwrapSort strips coins.Sort().
func unwrapSort(ff *core.FuncFacts, v ssa.Value) ssa.Value {
	v = ff.Fwd(v)
	if c, ok := v.(*ssa.Call); ok && core.CalleeName(c.Common()) == "Sort" && len(c.Common().Args) == 1 {
		return unwrapSort(ff, c.Common().Args[0])
	}
	return v
}

func paramConst(P *core.Program, name string) string {
	if pkg := P.PkgByRel["x/parameter/types"]; pkg != nil {
		if c, ok := pkg.Types.Scope().Lookup(name).(*types.Const); ok {
			s := c.Val().ExactString()
			return strings.Trim(s, "\"")
		}
	}
	return "?" + name
}

func checkC15(P *core.Program, R *core.Report) {
	R.Explanation = "Every consensus-reachable call of a bank MintCoins/BurnCoins primitive (resolved by callee, all modules) is classified by the provenance of the coins' denoms and must fall in one class: " +
		"share denom (GetPoolShareDenom / stablestake GetShareDenom — pairing with deposits decided by C02); the ELYS constant (vesting release: ClaimVesting, VestNow under the must-hold fact VestingDenom == Elys); " +
		"the commitment keeper's Mint/Burn wrappers, which strip Eden/EdenB into the claimed ledger before the bank call — every caller of a wrapper passes only coins built with the Eden/EdenB constants; the burner module burning its own balance. Anything else is a violation. " +
		"Upgrade-only MatchAmmBalances is not consensus-reachable. The Minter/Burner permissions in app/modules.go maccPerms equal the frozen table. SDK/IBC modules' own minting is out of scope."
	roots := P.FindRoots()
	subjects := P.Reach(roots.Consensus())
	elys, eden, edenb := paramConst(P, "Elys"), paramConst(P, "Eden"), paramConst(P, "EdenB")
	nSites := 0
	for _, fn := range P.Funcs {
		if !subjects[fn] || core.IsGeneratedOrAux(P.File(fn.Pos())) {
			continue
		}
		key := P.Key(fn)
		ff := P.Facts(fn)
		for _, c := range core.Calls(fn) {
			eff := P.EffectOf(c)
			isWrapper := (calleeMatches(P, c, "x/commitment/keeper.Keeper.MintCoins") || calleeMatches(P, c, "x/commitment/keeper.Keeper.BurnCoins")) &&
				!strings.Contains(P.CalleeKey(c.Common()), ".BankKeeper.") // a BankKeeper-typed field is wired to the real bank
			if eff != core.EffMint && eff != core.EffBurn && !isWrapper {
				continue
			}
			nSites++
			args := c.Common().Args
			coins := args[len(args)-1]
			pos := P.Pos(P.InstrPos(c))
			construct := eff + " " + P.CalleeKey(c.Common())
			if isWrapper && eff == "" {
				construct = "wrapper " + P.CalleeKey(c.Common())
			}
			switch {
			case isWrapper:
				ds, ok := constDenoms(ff, coins)
				good := ok
				for _, d := range ds {
					if d != eden && d != edenb {
						good = false
					}
				}
				R.Add("C15-mint-burn-class", key, construct, pos, good, "commitment Mint/Burn wrappers may only be handed coins built with the Eden/EdenB constants (virtual reward tokens kept in the claimed ledger); got denoms "+strings.Join(ds, ","))
			case key == "x/commitment/keeper.Keeper.MintCoins" || key == "x/commitment/keeper.Keeper.BurnCoins":
				// residual bank call of the wrapper: coins = input minus Eden/EdenB
				ok := ff.AllOrigins(coins, nil, func(o core.Origin) bool {
					return o.Kind == "call" && (strings.HasSuffix(o.Name, "Keeper.AddEdenEdenBOnModule") || strings.HasSuffix(o.Name, "Keeper.SubEdenEdenBOnModule"))
				})
				R.Add("C15-mint-burn-class", key, construct, pos, ok, "wrapper residual: the bank call receives what Add/SubEdenEdenBOnModule left after stripping Eden/EdenB")
			case isShareDenomCoins(ff, c, coins) != "":
				R.Add("C15-mint-burn-class", key, construct, pos, true, "share denom of "+isShareDenomCoins(ff, c, coins)+" (paired with deposits/withdrawals by C02)")
			case strings.HasPrefix(key, "x/burner/keeper."):
				// the burner burns from its own module account
				mod := args[len(args)-2]
				R.Add("C15-mint-burn-class", key, construct, pos, eff == core.EffBurn && isModuleAccount(ff, mod, "burner"), "burner module burns its own balance (explicit exception of the statement)")
			default:
				// ELYS vesting release: constant denom, or guard-refined denom
				ds, ok := constDenoms(ff, coins)
				good := ok && len(ds) > 0
				for _, d := range ds {
					if d != elys {
						good = false
					}
				}
				if !good {
					good = denomGuardedEq(ff, c, coins, elys)
				}
				isVest := key == "x/commitment/keeper.Keeper.ClaimVesting" || key == "x/commitment/keeper.msgServer.VestNow"
				R.Add("C15-mint-burn-class", key, construct, pos, good && isVest && eff == core.EffMint,
					"outside share tokens, wrappers and the burner only the vesting release may mint, and only the ELYS constant denom (directly or under the must-hold fact denom == Elys)")
			}
		}
	}
	R.Analysed["mint_burn_sites"] = nSites
	if m := P.Fn("x/amm/keeper.Keeper.MatchAmmBalances"); m != nil {
		R.Add("C15-upgrade-only", "x/amm/keeper.Keeper.MatchAmmBalances", "not consensus-reachable", P.Pos(m.Pos()), !subjects[m], "mints/burns arbitrary pool assets; upgrade-only")
	}
	checkStripHelpers(P, R, eden, edenb)
	checkMaccPerms(P, R)
}

// denomGuardedEq: all coins are NewCoin(d, …) where the must-hold facts at the site contain
// d == <const want>.
func denomGuardedEq(ff *core.FuncFacts, at ssa.Instruction, coins ssa.Value, want string) bool {
	denoms, whole := coinDenomValues(ff, coins)
	if len(whole) > 0 || len(denoms) == 0 {
		return false
	}
	for _, d := range denoms {
		ok := false
		do := ff.Origins(d)
		for _, a := range ff.At(at) {
			if a.Rel != core.EQ || a.B == nil {
				continue
			}
			for _, pr := range [][2]ssa.Value{{a.A, a.B}, {a.B, a.A}} {
				if s, isC := constString(ff, pr[1]); !isC || s != want {
					continue
				}
				oo := ff.Origins(pr[0])
				if len(oo) == 1 && len(do) == 1 && oo[0].Val == do[0].Val && oo[0].Path == do[0].Path {
					ok = true
				}
			}
		}
		if !ok {
			return false
		}
	}
	return true
}

// checkStripHelpers: Add/SubEdenEdenBOnModule subtract exactly the Eden and EdenB coins from
// what they return.
func checkStripHelpers(P *core.Program, R *core.Report, eden, edenb string) {
	for _, key := range []string{"x/commitment/keeper.Keeper.AddEdenEdenBOnModule", "x/commitment/keeper.Keeper.SubEdenEdenBOnModule"} {
		fn := P.Fn(key)
		if fn == nil {
			R.Add("C15-strip-helper", key, "function", "-", false, "unresolved anchor")
			continue
		}
		stripped := strippedDenoms(P, fn, 0)
		R.Add("C15-strip-helper", key, "strips Eden and EdenB", P.Pos(fn.Pos()), stripped[eden] && stripped[edenb] && len(stripped) == 2,
			"the helper must remove exactly the Eden and EdenB coins from the amount handed on to the bank")
	}
}

// checkMaccPerms reads the maccPerms composite literal of app/modules.go.
func checkMaccPerms(P *core.Program, R *core.Report) {
	var table map[string][]string
	if err := loadTable("c15_macc_perms.json", &table); err != nil {
		R.Undecided("C15-macc-perms", "app/modules.go", "tables/c15_macc_perms.json", "-", err.Error())
		return
	}
	pkg := P.PkgByRel["app"]
	if pkg == nil {
		R.Add("C15-macc-perms", "app", "package", "-", false, "unresolved anchor")
		return
	}
	got := map[string][]string{}
	found := false
	for _, f := range pkg.Syntax {
		ast.Inspect(f, func(n ast.Node) bool {
			vs, ok := n.(*ast.ValueSpec)
			if !ok || len(vs.Names) != 1 || vs.Names[0].Name != "maccPerms" || len(vs.Values) != 1 {
				return true
			}
			cl, ok := vs.Values[0].(*ast.CompositeLit)
			if !ok {
				return true
			}
			found = true
			for _, el := range cl.Elts {
				kv, ok := el.(*ast.KeyValueExpr)
				if !ok {
					continue
				}
				k := "?"
				if tv, ok := pkg.TypesInfo.Types[kv.Key]; ok && tv.Value != nil {
					k = strings.Trim(tv.Value.ExactString(), "\"")
				}
				var perms []string
				if pl, ok := kv.Value.(*ast.CompositeLit); ok {
					for _, pe := range pl.Elts {
						if tv, ok := pkg.TypesInfo.Types[pe]; ok && tv.Value != nil {
							perms = append(perms, strings.Trim(tv.Value.ExactString(), "\""))
						}
					}
				}
				sort.Strings(perms)
				got[k] = perms
			}
			return false
		})
	}
	if !found {
		R.Add("C15-macc-perms", "app", "maccPerms", "-", false, "maccPerms literal not found (anchor changed)")
		return
	}
	keys := map[string]bool{}
	for k := range got {
		keys[k] = true
	}
	for k := range table {
		keys[k] = true
	}
	var ks []string
	for k := range keys {
		ks = append(ks, k)
	}
	sort.Strings(ks)
	for _, k := range ks {
		g, gok := got[k]
		w, wok := table[k]
		sort.Strings(w)
		same := gok && wok && strings.Join(g, ",") == strings.Join(w, ",")
		// a module account without minter/burner permission may come and go freely
		if !same && !hasMintBurn(g) && !hasMintBurn(w) {
			same = true
		}
		R.Add("C15-macc-perms", "app.maccPerms", "module account "+k, "app/modules.go", same,
			"minter/burner permissions must equal the frozen table; source ["+strings.Join(g, ",")+"] table ["+strings.Join(w, ",")+"]")
	}
}

func hasMintBurn(perms []string) bool {
	for _, p := range perms {
		if p == "minter" || p == "burner" {
			return true
		}
	}
	return false
}

// strippedDenoms: the constant denoms whose coins fn subtracts from its coins parameter
// before handing the rest on; a function that only forwards its coins to another keeper
// method and returns that method's result strips what that method strips.
func strippedDenoms(P *core.Program, fn *ssa.Function, depth int) map[string]bool {
	ff := P.Facts(fn)
	stripped := map[string]bool{}
	for _, c := range core.Calls(fn) {
		sc := c.Common().StaticCallee()
		if sc == nil || sc.Name() != "Sub" || sc.Signature.Recv() == nil || core.NamedName(sc.Signature.Recv().Type()) != "Coins" {
			continue
		}
		if ds, ok := constDenoms(ff, c.Common().Args[1]); ok {
			for _, d := range ds {
				stripped[d] = true
			}
		}
	}
	if len(stripped) > 0 || depth >= 2 {
		return stripped
	}
	// pure delegation: every non-error return value is result #0 of one call that receives
	// the coins parameter unchanged
	var coinsParam ssa.Value
	for _, p := range fn.Params {
		if core.NamedName(p.Type()) == "Coins" {
			coinsParam = p
		}
	}
	if coinsParam == nil {
		return stripped
	}
	var target *ssa.Function
	for _, ex := range ff.Exits() {
		ret, ok := ex.Instr.(*ssa.Return)
		if !ok || len(ret.Results) == 0 {
			continue
		}
		v := ff.Fwd(ret.Results[0])
		if e, ok := v.(*ssa.Extract); ok && e.Index == 0 {
			v = e.Tuple
		}
		call, ok := v.(*ssa.Call)
		if !ok || call.Common().StaticCallee() == nil {
			return stripped
		}
		passes := false
		for _, a := range call.Common().Args {
			if ff.Fwd(a) == coinsParam {
				passes = true
			}
		}
		if !passes || (target != nil && target != call.Common().StaticCallee()) {
			return stripped
		}
		target = call.Common().StaticCallee()
	}
	if target != nil && target.Blocks != nil && core.InModule(target) {
		return strippedDenoms(P, target, depth+1)
	}
	return stripped
}
