package rules

import (
	"go/token"
	"fmt"
	"go/types"
	"sort"
	"strings"

	"elyslint/core"

	"golang.org/x/tools/go/ssa"
)

func init() { register("C19", checkC19) }

type c19Tables struct {
	MapRanges map[string]string `json:"map_ranges"` // function key → commutativity / ordering reason
	Ambient   map[string]string `json:"ambient"`    // "function key callee" → reason (telemetry only …)
	Globals   map[string]string `json:"globals"`    // "function key global" → reason
	// AbortOnError: frozen map ranges whose commutativity argument needs "a failure aborts the
	// block": the error of every call of the function must travel up to an abort.
	AbortOnError map[string]string `json:"abort_on_error"`
}

func checkC19(P *core.Program, R *core.Report) {
	R.Explanation = "Sources of nondeterminism are enumerated in every function reachable from consensus roots (Msg handlers, Begin/EndBlock, hooks, IBC callbacks, ante, InitGenesis) and from upgrade handlers: " +
		"(D1) every `range` over a Go map — accepted only if the loop merely collects into a slice that is sorted before use (checked) or is frozen with a commutativity reason; (D2) calls of time.Now/Since/Until, math/rand, crypto/rand, os.*, runtime introspection, `go` statements and `select` — accepted only when the value flows exclusively into telemetry/logging sinks (checked by forward slicing) or frozen; " +
		"(D3) stores to package-level variables and to keeper struct fields through pointer receivers — accepted only in wiring setters frozen with a reason; keeper structs may only hold codecs, store keys/services, strings, interfaces and pointers to keepers (no maps, slices, channels, counters); floating-point arithmetic in consensus code is reported. " +
		"Restart: every store key handed to an Elys keeper constructor in app/keepers comes from NewKVStoreKeys / NewTransientStoreKeys (never NewMemoryStoreKeys), and the AMM keeper's scratch store is the transient key, so per-block scratch is reset at commit and nothing consensus-relevant lives in process memory. Dependencies (SDK, IAVL, CometBFT) are out of scope."
	var T c19Tables
	if err := loadTable("c19_determinism.json", &T); err != nil {
		R.Undecided("C19-table", "-", "tables/c19_determinism.json", "-", err.Error())
		return
	}
	roots := P.FindRoots()
	subjects := P.Reach(roots.All())
	R.Analysed["subject_functions"] = len(subjects)
	usedMR, usedAmb, usedGl := map[string]bool{}, map[string]bool{}, map[string]bool{}
	var fns []*ssa.Function
	for fn := range subjects {
		fns = append(fns, fn)
	}
	sort.Slice(fns, func(i, j int) bool { return P.Key(fns[i]) < P.Key(fns[j]) })
	nFuncs := 0
	for _, fn := range fns {
		file := P.File(fn.Pos())
		if strings.HasSuffix(file, ".pb.go") || strings.HasSuffix(file, ".pb.gw.go") || strings.Contains(file, "/client/cli/") || strings.Contains(file, "/simulation/") {
			continue
		}
		nFuncs++
		key := P.Key(fn)
		for _, b := range fn.Blocks {
			for _, in := range b.Instrs {
				switch x := in.(type) {
				case *ssa.Range:
					if _, isMap := x.X.Type().Underlying().(*types.Map); !isMap {
						continue
					}
					pos := P.Pos(P.InstrPos(in))
					if sortedCollect(P, fn, x) {
						R.Add("C19-map-range", key, "range over map", pos, true, "the loop only collects into a slice that is sorted before it is used")
						continue
					}
					why, ok := T.MapRanges[key]
					usedMR[key] = true
					R.Add("C19-map-range", key, "range over map", pos, ok, "map iteration order is random per process: the loop must be order-insensitive. "+why)
				case *ssa.Go:
					R.Add("C19-ambient", key, "go statement", P.Pos(P.InstrPos(in)), false, "goroutines on the consensus path make results depend on scheduling")
				case *ssa.Select:
					if len(x.States) > 1 {
						R.Add("C19-ambient", key, "select", P.Pos(P.InstrPos(in)), false, "multi-way select is scheduler dependent")
					}
				case *ssa.BinOp:
					if b, ok := x.X.Type().Underlying().(*types.Basic); ok && (b.Info()&types.IsFloat) != 0 {
						why, ok := T.Ambient[key+" float"]
						usedAmb[key+" float"] = true
						R.Add("C19-ambient", key, "floating-point arithmetic", P.Pos(P.InstrPos(in)), ok, "floating point results may differ across platforms. "+why)
					}
				case *ssa.Store:
					if g, ok := globalRoot(x.Addr); ok {
						if fn.Name() == "init" || strings.HasPrefix(fn.Name(), "init#") {
							continue
						}
						gk := key + " " + g.Name()
						why, ok := T.Globals[gk]
						usedGl[gk] = true
						R.Add("C19-process-memory", key, "store to global "+g.Name(), P.Pos(P.InstrPos(in)), ok, "state kept in process memory does not survive a restart and is not part of the app hash. "+why)
					}
					if fa, ok := x.Addr.(*ssa.FieldAddr); ok && isKeeperRecvField(fn, fa) {
						gk := key + " ." + core.FieldName(fa.X.Type(), fa.Field)
						why, ok := T.Globals[gk]
						usedGl[gk] = true
						R.Add("C19-process-memory", key, "store to keeper field "+core.FieldName(fa.X.Type(), fa.Field), P.Pos(P.InstrPos(in)), ok, "keeper fields are process memory; only wiring setters may write them. "+why)
					}
				case *ssa.MapUpdate:
					// globalMap[k] = v
					if ld, ok := x.Map.(*ssa.UnOp); ok && ld.Op == token.MUL {
						if g, ok := globalRoot(ld.X); ok {
							gk := key + " " + g.Name()
							why, ok := T.Globals[gk]
							usedGl[gk] = true
							R.Add("C19-process-memory", key, "update of global map "+g.Name(), P.Pos(P.InstrPos(in)), ok, "state kept in process memory does not survive a restart and is not part of the app hash. "+why)
						}
					}
				case ssa.CallInstruction:
					// a mutating method of a sync / atomic container called on a package-level variable
					// (sync.Map.Store, atomic.Int64.Add, sync.Once.Do …): a cache that lives in the process
					if sc := x.Common().StaticCallee(); sc != nil && sc.Pkg != nil && len(x.Common().Args) > 0 &&
						(sc.Pkg.Pkg.Path() == "sync" || sc.Pkg.Pkg.Path() == "sync/atomic") {
						switch sc.Name() {
						case "Store", "LoadOrStore", "LoadAndDelete", "Delete", "Swap", "CompareAndSwap", "CompareAndDelete", "Add", "Do", "Clear", "And", "Or":
							if g, ok := globalRoot(x.Common().Args[0]); ok {
								gk := key + " " + g.Name()
								why, ok := T.Globals[gk]
								usedGl[gk] = true
								R.Add("C19-process-memory", key, sc.Name()+" on global "+g.Name(), P.Pos(P.InstrPos(in)), ok, "a package-level sync/atomic container written on the consensus path is a process-local cache: what it returns depends on this node's read history and is lost on restart. "+why)
							}
						}
					}
					ck := P.CalleeKey(x.Common())
					if !ambientCallee(ck) {
						continue
					}
					pos := P.Pos(P.InstrPos(in))
					if v, isVal := in.(ssa.Value); isVal && onlyTelemetry(P, v, 0, map[ssa.Value]bool{}) {
						R.Add("C19-ambient", key, "call "+ck, pos, true, "value flows only into telemetry / logging sinks")
						continue
					}
					ak := key + " " + ck
					why, ok := T.Ambient[ak]
					usedAmb[ak] = true
					R.Add("C19-ambient", key, "call "+ck, pos, ok, "wall clock / randomness / host state must not influence the state transition. "+why)
				}
			}
		}
	}
	R.Analysed["functions_scanned"] = nFuncs
	for k := range T.MapRanges {
		if !usedMR[k] {
			R.Add("C19-table", k, "frozen map range", "-", P.Fn(k) != nil, "frozen entry names a function that no longer exists or no longer ranges a map (stale entries are harmless only if the function exists)")
		}
	}
	for k, why := range T.AbortOnError {
		f := P.Fn(k)
		if f == nil {
			R.Add("C19-map-range-abort", k, "function", "-", false, "unresolved anchor")
			continue
		}
		checkErrorAbortsUpward(P, R, "C19-map-range-abort", f, subjects, why, 4, map[*ssa.Function]bool{})
	}
	checkInPlaceFresh(P, R, subjects)
	checkKeeperStructs(P, R)
	checkStoreKeyWiring(P, R)
}

// checkErrorAbortsUpward: at every consensus call site of f, a non-nil error of f cannot be
// followed by a success exit of the caller (it is returned, wrapped, or panics); callers that
// hand the error on are checked in turn, up to depth levels or a caller without callers
// inside the module (a block root, whose error the SDK turns into an abort).
func checkErrorAbortsUpward(P *core.Program, R *core.Report, rule string, f *ssa.Function, subjects map[*ssa.Function]bool, why string, depth int, seen map[*ssa.Function]bool) {
	if seen[f] || depth == 0 {
		return
	}
	seen[f] = true
	for _, e := range P.CG().In[f] {
		caller := e.Caller
		if !subjects[caller] || core.IsGeneratedOrAux(P.File(caller.Pos())) {
			continue
		}
		c, ok := e.Site.(ssa.CallInstruction)
		if !ok {
			continue
		}
		ff := P.Facts(caller)
		ev, discarded := core.ErrValueOf(c)
		bad := ""
		switch {
		case ev == nil && !discarded:
			continue
		case discarded:
			bad = "the error is discarded"
		default:
			if r := ff.ErrNonNilReaches(c, ev, nil, true); r != nil {
				bad = "with the error non-nil a path reaches a success exit at " + P.Pos(P.InstrPos(r.Instr))
			}
		}
		R.Add(rule, P.Key(caller), "error of "+P.Key(f), P.Pos(P.InstrPos(c)), bad == "", why+". "+bad)
		if bad == "" && core.ErrResultIndex(caller.Signature) >= 0 {
			checkErrorAbortsUpward(P, R, rule, caller, subjects, why, depth-1, seen)
		}
	}
}

func ambientCallee(ck string) bool {
	switch {
	case ck == "time.Unix" || ck == "time.UnixMilli" || ck == "time.UnixMicro" || ck == "time.LoadLocation" || ck == "time.ParseInLocation":
		// these build times in the host's local zone (or a host zone database): calendar
		// fields, formatting and truncation of the result differ between replicas
		return true
	case ck == "time.Now" || ck == "time.Since" || ck == "time.Until" || ck == "time.Time.Local" || ck == "time.Sleep" || ck == "time.After" || ck == "time.Tick" || ck == "time.NewTimer" || ck == "time.NewTicker":
		return true
	case strings.HasPrefix(ck, "math/rand.") || strings.HasPrefix(ck, "math/rand/v2.") || strings.HasPrefix(ck, "crypto/rand."):
		return true
	case strings.HasPrefix(ck, "os.") && !strings.HasPrefix(ck, "os.File.") && ck != "os.Exit":
		return true
	case ck == "runtime.NumCPU" || ck == "runtime.NumGoroutine" || ck == "runtime.GOMAXPROCS" || ck == "runtime.Caller" || ck == "runtime.Stack" || ck == "runtime.ReadMemStats":
		return true
	}
	return false
}

// onlyTelemetry: every use of v (transitively through pure wrappers) ends in a telemetry or
// logger call.
func onlyTelemetry(P *core.Program, v ssa.Value, depth int, seen map[ssa.Value]bool) bool {
	if seen[v] || depth > 8 {
		return true
	}
	seen[v] = true
	refs := v.Referrers()
	if refs == nil || len(*refs) == 0 {
		return true
	}
	for _, r := range *refs {
		switch x := r.(type) {
		case *ssa.DebugRef:
		case ssa.CallInstruction:
			ck := P.CalleeKey(x.Common())
			if strings.Contains(ck, "telemetry.") || strings.Contains(ck, ".Logger.") || strings.HasPrefix(ck, "github.com/hashicorp/go-metrics") || strings.Contains(ck, "log.Logger") {
				continue
			}
			return false
		case *ssa.Defer:
			_ = x
			return false
		case ssa.Value:
			switch x.(type) {
			case *ssa.MakeInterface, *ssa.ChangeType, *ssa.Convert, *ssa.Slice, *ssa.Phi, *ssa.Extract:
				if !onlyTelemetry(P, x, depth+1, seen) {
					return false
				}
			default:
				return false
			}
		case *ssa.Store:
			// stored into a varargs slot that is passed on: follow the slot's slice
			if ia, ok := x.Addr.(*ssa.IndexAddr); ok {
				if al, ok := ia.X.(*ssa.Alloc); ok {
					if !onlyTelemetry(P, al, depth+1, seen) {
						return false
					}
					continue
				}
			}
			return false
		default:
			return false
		}
	}
	return true
}

// sortedCollect: the map range body has no calls with effects and only appends keys/values
// to slices each of which is handed to a sort function after the loop.
func sortedCollect(P *core.Program, fn *ssa.Function, rng *ssa.Range) bool {
	// loop blocks: blocks that can reach the range's Next and are reachable from it
	var next *ssa.Next
	if rng.Referrers() != nil {
		for _, r := range *rng.Referrers() {
			if n, ok := r.(*ssa.Next); ok {
				next = n
			}
		}
	}
	if next == nil {
		return false
	}
	header := next.Block()
	inLoop := map[*ssa.BasicBlock]bool{header: true}
	// blocks reachable from header's body successor that can reach header again
	canReachHeader := map[*ssa.BasicBlock]bool{header: true}
	for changed := true; changed; {
		changed = false
		for _, b := range fn.Blocks {
			if canReachHeader[b] {
				continue
			}
			for _, s := range b.Succs {
				if canReachHeader[s] && header.Dominates(b) {
					canReachHeader[b] = true
					changed = true
				}
			}
		}
	}
	for b := range canReachHeader {
		inLoop[b] = true
	}
	nAppend := 0
	var collected []ssa.Value
	for b := range inLoop {
		for _, in := range b.Instrs {
			c, ok := in.(ssa.CallInstruction)
			if !ok {
				if _, isRet := in.(*ssa.Return); isRet {
					return false
				}
				continue
			}
			if bi, isB := c.Common().Value.(*ssa.Builtin); isB {
				if bi.Name() == "append" {
					nAppend++
					if v, isV := in.(ssa.Value); isV {
						collected = append(collected, v)
					}
				}
				continue
			}
			if w, _ := P.SiteMayWrite(c); w {
				return false
			}
			if P.EffectOf(c) == core.EffEmit {
				return false
			}
		}
	}
	if nAppend == 0 {
		return false
	}
	// a sort call after the loop receiving a value derived from the collected slice (through φ)
	for _, b := range fn.Blocks {
		if inLoop[b] {
			continue
		}
		for _, in := range b.Instrs {
			c, ok := in.(ssa.CallInstruction)
			if !ok {
				continue
			}
			ck := P.CalleeKey(c.Common())
			if !(strings.HasPrefix(ck, "sort.") || strings.HasPrefix(ck, "slices.Sort")) {
				continue
			}
			for _, a := range c.Common().Args {
				if derivesFrom(a, collected, 0, map[ssa.Value]bool{}) {
					return true
				}
			}
		}
	}
	return false
}

func derivesFrom(v ssa.Value, set []ssa.Value, depth int, seen map[ssa.Value]bool) bool {
	if depth > 8 || seen[v] {
		return false
	}
	seen[v] = true
	for _, s := range set {
		if v == s {
			return true
		}
	}
	switch x := v.(type) {
	case *ssa.Phi:
		for _, e := range x.Edges {
			if derivesFrom(e, set, depth+1, seen) {
				return true
			}
		}
	case *ssa.MakeInterface:
		return derivesFrom(x.X, set, depth+1, seen)
	case *ssa.ChangeType:
		return derivesFrom(x.X, set, depth+1, seen)
	case *ssa.Convert:
		return derivesFrom(x.X, set, depth+1, seen)
	case *ssa.Slice:
		return derivesFrom(x.X, set, depth+1, seen)
	case *ssa.UnOp:
		return derivesFrom(x.X, set, depth+1, seen)
	}
	return false
}

func isKeeperRecvField(fn *ssa.Function, fa *ssa.FieldAddr) bool {
	if fn.Signature.Recv() == nil || len(fn.Params) == 0 {
		return false
	}
	if _, isPtr := fn.Signature.Recv().Type().(*types.Pointer); !isPtr {
		return false
	}
	if core.NamedName(fn.Signature.Recv().Type()) != "Keeper" {
		return false
	}
	return fa.X == ssa.Value(fn.Params[0])
}

// checkKeeperStructs (type level): fields of every Elys Keeper struct.
func checkKeeperStructs(P *core.Program, R *core.Report) {
	n := 0
	for _, pkg := range P.Pkgs {
		rel := core.RelPath(pkg.PkgPath)
		if !strings.HasPrefix(rel, "x/") || !strings.HasSuffix(rel, "/keeper") {
			continue
		}
		tn, ok := pkg.Types.Scope().Lookup("Keeper").(*types.TypeName)
		if !ok {
			continue
		}
		st, ok := tn.Type().Underlying().(*types.Struct)
		if !ok {
			continue
		}
		n++
		bad := ""
		for i := 0; i < st.NumFields(); i++ {
			f := st.Field(i)
			switch t := f.Type().Underlying().(type) {
			case *types.Map, *types.Slice, *types.Chan, *types.Array:
				bad += fmt.Sprintf(" field %s is a %T;", f.Name(), t)
			case *types.Basic:
				if t.Kind() != types.String {
					bad += fmt.Sprintf(" field %s is a %s;", f.Name(), t.Name())
				}
			}
			if strings.Contains(f.Type().String(), "sync.") {
				bad += " field " + f.Name() + " is a sync primitive;"
			}
		}
		R.Add("C19-keeper-struct", rel+".Keeper", "field kinds", P.Pos(tn.Pos()), bad == "", "keeper structs hold only codecs, store keys/services, strings, interfaces, keepers and hooks."+bad)
	}
	if n == 0 {
		R.Add("C19-keeper-struct", "x/*/keeper", "Keeper structs", "-", false, "no keeper structs found")
	}
}

// checkStoreKeyWiring: provenance of store keys in app/keepers.
func checkStoreKeyWiring(P *core.Program, R *core.Report) {
	var gen, newApp *ssa.Function
	for _, fn := range P.Funcs {
		if core.PkgRel(fn) != "app/keepers" {
			continue
		}
		switch fn.Name() {
		case "GenerateKeys":
			gen = fn
		case "NewAppKeeper":
			newApp = fn
		}
	}
	if gen == nil || newApp == nil {
		R.Add("C19-store-keys", "app/keepers", "GenerateKeys / NewAppKeeper", "-", false, "unresolved anchor")
		return
	}
	// which field is assigned from which constructor, and which key names go where
	kindOfField := map[string]string{} // field name → kv | transient | memory
	namesOf := map[string][]string{}
	ffg := P.Facts(gen)
	for _, b := range gen.Blocks {
		for _, in := range b.Instrs {
			st, ok := in.(*ssa.Store)
			if !ok {
				continue
			}
			fa, ok := st.Addr.(*ssa.FieldAddr)
			if !ok {
				continue
			}
			call, ok := ffg.Fwd(st.Val).(*ssa.Call)
			if !ok {
				continue
			}
			kind := ""
			switch core.CalleeName(call.Common()) {
			case "NewKVStoreKeys":
				kind = "kv"
			case "NewTransientStoreKeys":
				kind = "transient"
			case "NewMemoryStoreKeys":
				kind = "memory"
			}
			if kind == "" {
				continue
			}
			fname := core.FieldName(fa.X.Type(), fa.Field)
			kindOfField[fname] = kind
			if els, ok := core.SliceLiteral(ffg.Fwd(call.Common().Args[0])); ok {
				for _, e := range els {
					if s, isC := constString(ffg, e); isC {
						namesOf[fname] = append(namesOf[fname], s)
					}
				}
			}
		}
	}
	R.Add("C19-store-keys", "app/keepers.AppKeepers.GenerateKeys", "key constructors", P.Pos(gen.Pos()), kindOfField["keys"] == "kv" && kindOfField["tkeys"] == "transient",
		fmt.Sprintf("keys=%s tkeys=%s memKeys=%s", kindOfField["keys"], kindOfField["tkeys"], kindOfField["memKeys"]))
	// Elys module names must not be memory keys
	for _, nme := range namesOf["memKeys"] {
		elys := false
		for _, pkg := range P.Pkgs {
			rel := core.RelPath(pkg.PkgPath)
			if strings.HasPrefix(rel, "x/") && strings.HasSuffix(rel, "/types") {
				for _, cn := range []string{"StoreKey", "TStoreKey", "MemStoreKey", "ModuleName"} {
					if c, ok := pkg.Types.Scope().Lookup(cn).(*types.Const); ok && strings.Trim(c.Val().ExactString(), "\"") == nme {
						elys = true
					}
				}
			}
		}
		R.Add("C19-store-keys", "app/keepers.AppKeepers.GenerateKeys", "memory key "+nme, P.Pos(gen.Pos()), !elys, "Elys modules must not keep state in memory stores (lost on restart, not reset at commit)")
	}
	// every Elys keeper constructor call in NewAppKeeper: store-key arguments come from keys/tkeys
	ff := P.Facts(newApp)
	nCtor := 0
	for _, c := range core.Calls(newApp) {
		sc := c.Common().StaticCallee()
		if sc == nil || !core.InModule(sc) || !strings.HasPrefix(sc.Name(), "NewKeeper") {
			continue
		}
		for i, a := range c.Common().Args {
			tn := a.Type().String()
			if !strings.Contains(tn, "StoreKey") && !strings.Contains(tn, "KVStoreService") {
				continue
			}
			nCtor++
			field, keyName := storeKeyOrigin(ff, a)
			ok := field == "keys" || field == "tkeys"
			want := ""
			if core.PkgRel(sc) == "x/amm/keeper" && strings.Contains(tn, "StoreKey") && !strings.Contains(tn, "Service") {
				// the AMM scratch store
				want = "tkeys"
				ok = field == "tkeys"
			}
			R.Add("C19-store-keys", "app/keepers.NewAppKeeper", fmt.Sprintf("%s arg %d", P.Key(sc), i), P.Pos(P.InstrPos(c)), ok,
				fmt.Sprintf("store key comes from app.%s[%s]%s", field, keyName, map[bool]string{true: " (must be the transient key set)", false: ""}[want != ""]))
		}
	}
	if nCtor < 10 {
		R.Add("C19-store-keys", "app/keepers.NewAppKeeper", "keeper constructors", P.Pos(newApp.Pos()), false, "too few keeper constructor store-key arguments recognised (anchor changed)")
	}
}

// storeKeyOrigin: a[…] lookup on app.keys / app.tkeys / app.memKeys (possibly wrapped in
// runtime.NewKVStoreService).
func storeKeyOrigin(ff *core.FuncFacts, v ssa.Value) (field, key string) {
	v = ff.Fwd(v)
	for i := 0; i < 6; i++ {
		switch x := v.(type) {
		case *ssa.Call:
			if core.CalleeName(x.Common()) == "NewKVStoreService" && len(x.Common().Args) == 1 {
				v = ff.Fwd(x.Common().Args[0])
				continue
			}
		case *ssa.MakeInterface:
			v = ff.Fwd(x.X)
			continue
		case *ssa.ChangeInterface:
			v = ff.Fwd(x.X)
			continue
		case *ssa.Lookup:
			key, _ = constString(ff, x.Index)
			m := ff.Fwd(x.X)
			if ld, ok := m.(*ssa.UnOp); ok {
				if fa, ok := ld.X.(*ssa.FieldAddr); ok {
					return core.FieldName(fa.X.Type(), fa.Field), key
				}
			}
			if f, ok := m.(*ssa.Field); ok {
				return core.FieldName(f.X.Type(), f.Field), key
			}
			return "?", key
		}
		break
	}
	return "?", ""
}

// globalRoot: the address is a package-level variable or runs into one through fields and
// elements (global.f, global[i], (*globalPtr).f).
func globalRoot(addr ssa.Value) (*ssa.Global, bool) {
	for d := 0; d < 6; d++ {
		switch x := addr.(type) {
		case *ssa.Global:
			return x, true
		case *ssa.FieldAddr:
			addr = x.X
		case *ssa.IndexAddr:
			addr = x.X
		case *ssa.UnOp:
			if x.Op != token.MUL {
				return nil, false
			}
			addr = x.X
		default:
			return nil, false
		}
	}
	return nil, false
}

// In-place arithmetic (C19-inplace-fresh).  cosmossdk.io/math values wrap a *big.Int, so a copy
// of a LegacyDec/Int shares its digits with the original.  The in-place methods (…Mut, Set,
// SetInt64) are therefore only safe on a value this very computation created: applied to a
// package-level constant (or to something a helper may hand out that IS one — computeLn
// returns the shared ln2 for base 2) they rewrite process memory that later blocks, and a
// restarted node, read differently.  Every in-place call in consensus code has a receiver
// that is fresh: built by a constructor / non-mutating operation, a clone, an in-place result
// on a fresh value, or a parameter for which every caller passes a fresh value.
func isInPlaceMathMethod(c *ssa.CallCommon) bool {
	sc := c.StaticCallee()
	if sc == nil || sc.Signature.Recv() == nil || !core.IsMathType(sc.Signature.Recv().Type()) {
		return false
	}
	n := sc.Name()
	return strings.HasSuffix(n, "Mut") || n == "Set" || n == "SetInt64" || n == "SetUint64"
}

func freshMath(P *core.Program, ff *core.FuncFacts, v ssa.Value, depth int, seen map[ssa.Value]bool) (bool, string) {
	if depth <= 0 {
		return false, "depth bound"
	}
	v = ff.Fwd(v)
	if seen[v] {
		return true, "" // a loop-carried value: decided by its other edges
	}
	seen[v] = true
	switch x := v.(type) {
	case *ssa.Const:
		return true, ""
	case *ssa.Alloc:
		// address of a local (pointer-receiver call on a local variable): every value stored
		// into it must be fresh
		if x.Referrers() == nil {
			return true, ""
		}
		for _, r := range *x.Referrers() {
			if st, ok := r.(*ssa.Store); ok && st.Addr == ssa.Value(x) {
				if ok2, why := freshMath(P, ff, st.Val, depth, seen); !ok2 {
					return false, why
				}
			}
		}
		return true, ""
	case *ssa.Phi:
		for _, e := range x.Edges {
			if ok, why := freshMath(P, ff, e, depth, seen); !ok {
				return false, why
			}
		}
		return true, ""
	case *ssa.Extract:
		if c, ok := x.Tuple.(*ssa.Call); ok {
			return freshCallResult(P, ff, c, x.Index, depth, seen)
		}
		return false, "tuple of unknown origin"
	case *ssa.Call:
		return freshCallResult(P, ff, x, 0, depth, seen)
	case *ssa.Parameter:
		fn := x.Parent()
		idx := -1
		for i, p := range fn.Params {
			if p == x {
				idx = i
			}
		}
		callers := P.CG().In[fn]
		if idx < 0 || len(callers) == 0 {
			return false, "parameter " + x.Name() + " of a function without known callers"
		}
		for _, e := range callers {
			c, ok := e.Site.(ssa.CallInstruction)
			if !ok || c.Common().IsInvoke() || idx >= len(c.Common().Args) {
				return false, "parameter " + x.Name() + " bound through a dynamic call"
			}
			cf := P.Facts(e.Caller)
			if ok2, why := freshMath(P, cf, c.Common().Args[idx], depth-1, map[ssa.Value]bool{}); !ok2 {
				return false, "caller " + P.Key(e.Caller) + " passes a value that is not fresh (" + why + ")"
			}
		}
		return true, ""
	case *ssa.UnOp:
		if x.Op == token.MUL {
			if g, ok := x.X.(*ssa.Global); ok {
				return false, "package-level variable " + g.Name()
			}
			if a, ok := x.X.(*ssa.Alloc); ok {
				return freshMath(P, ff, a, depth, seen)
			}
			return false, "value loaded from " + x.X.Name() + " (a field or element of a shared record)"
		}
	}
	return false, "value of unknown origin " + v.Name()
}

func freshCallResult(P *core.Program, ff *core.FuncFacts, c *ssa.Call, idx int, depth int, seen map[ssa.Value]bool) (bool, string) {
	cc := c.Common()
	sc := cc.StaticCallee()
	if sc == nil {
		return false, "result of a dynamic call"
	}
	if isInPlaceMathMethod(cc) {
		return freshMath(P, ff, cc.Args[0], depth, seen) // returns its receiver
	}
	if !core.InModule(sc) {
		if p := sc.Pkg; p != nil && p.Pkg.Path() == "cosmossdk.io/math" {
			return true, "" // constructors and non-mutating operations return a new value
		}
		if sc.Signature.Recv() != nil && core.IsMathType(sc.Signature.Recv().Type()) {
			return true, ""
		}
		return false, "result of " + sc.String()
	}
	// a helper of this module: every value it can return at this position must be fresh, with
	// its parameters judged at this call site
	if len(sc.Blocks) == 0 {
		return false, "result of " + P.Key(sc) + " (no body)"
	}
	cf := P.Facts(sc)
	for _, ex := range cf.Exits() {
		ret, ok := ex.Instr.(*ssa.Return)
		if !ok || ex.Kind == core.ExitError || idx >= len(ret.Results) {
			continue
		}
		rv := cf.Fwd(ret.Results[idx])
		ok2, why := freshInCallee(P, cf, rv, sc, ff, cc, depth-1, map[ssa.Value]bool{})
		if !ok2 {
			return false, P.Key(sc) + " can return " + why
		}
	}
	return true, ""
}

// freshInCallee judges a value inside callee sc; parameters are judged by the argument
// bound at the call cc in the caller (facts ff).
func freshInCallee(P *core.Program, cf *core.FuncFacts, v ssa.Value, sc *ssa.Function, ff *core.FuncFacts, cc *ssa.CallCommon, depth int, seen map[ssa.Value]bool) (bool, string) {
	if depth <= 0 {
		return false, "a value beyond the depth bound"
	}
	v = cf.Fwd(v)
	if seen[v] {
		return true, ""
	}
	seen[v] = true
	switch x := v.(type) {
	case *ssa.Parameter:
		for i, p := range sc.Params {
			if p == x && i < len(cc.Args) {
				return freshMath(P, ff, cc.Args[i], depth, map[ssa.Value]bool{})
			}
		}
		return false, "an unbound parameter"
	case *ssa.Phi:
		for _, e := range x.Edges {
			if ok, why := freshInCallee(P, cf, e, sc, ff, cc, depth, seen); !ok {
				return false, why
			}
		}
		return true, ""
	case *ssa.Call:
		if isInPlaceMathMethod(x.Common()) {
			return freshInCallee(P, cf, x.Common().Args[0], sc, ff, cc, depth, seen)
		}
		return freshCallResult(P, cf, x, 0, depth, map[ssa.Value]bool{})
	case *ssa.Extract:
		if c, ok := x.Tuple.(*ssa.Call); ok {
			return freshCallResult(P, cf, c, x.Index, depth, map[ssa.Value]bool{})
		}
	case *ssa.UnOp:
		if x.Op == token.MUL {
			if g, ok := x.X.(*ssa.Global); ok {
				return false, "the package-level variable " + g.Name()
			}
		}
	}
	ok, why := freshMath(P, cf, v, depth, seen)
	return ok, why
}

func checkInPlaceFresh(P *core.Program, R *core.Report, subjects map[*ssa.Function]bool) {
	n := 0
	var fns []*ssa.Function
	for fn := range subjects {
		fns = append(fns, fn)
	}
	sort.Slice(fns, func(i, j int) bool { return P.Key(fns[i]) < P.Key(fns[j]) })
	for _, fn := range fns {
		if core.IsGeneratedOrAux(P.File(fn.Pos())) || !core.InModule(fn) {
			continue
		}
		ff := P.Facts(fn)
		for _, c := range core.Calls(fn) {
			if !isInPlaceMathMethod(c.Common()) {
				continue
			}
			n++
			ok, why := freshMath(P, ff, c.Common().Args[0], 4, map[ssa.Value]bool{})
			R.Add("C19-inplace-fresh", P.Key(fn), "in-place "+c.Common().StaticCallee().Name(), P.Pos(P.InstrPos(c)), ok,
				"an in-place math operation rewrites the digits every copy of the value shares: its receiver must have been created by this computation. "+why)
		}
	}
	R.Analysed["inplace_math_calls"] = n
}
