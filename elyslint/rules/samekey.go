package rules

import (
	"fmt"
	"go/token"
	"os"
	"sort"
	"strings"

	"elyslint/core"

	"golang.org/x/tools/go/ssa"
)

// Same-key deletion (shared; DESIGN §10.9).  A function that loads a record with
// k.Get<T>(ctx, k1…kn), works on it and then deletes it with k.Remove<T>/Delete<T>(ctx,
// a1…an) must delete THAT record: every key argument of the delete is the very value the
// record was loaded with, or the record's own field.  Two values of the same type that
// coincide on the ordinary path (sender and recipient of a claim) otherwise delete a
// different account's record while the paid-out one keeps its balance.
func checkSameKeyDelete(P *core.Program, R *core.Report, rule string, keep func(fnKey string) bool) {
	subjects := P.Reach(P.FindRoots().Consensus())
	var fns []*ssa.Function
	for fn := range subjects {
		if fn.Blocks == nil || core.IsGeneratedOrAux(P.File(fn.Pos())) || (keep != nil && !keep(P.Key(fn))) {
			continue
		}
		fns = append(fns, fn)
	}
	sort.Slice(fns, func(i, j int) bool { return P.Key(fns[i]) < P.Key(fns[j]) })
	n := 0
	for _, fn := range fns {
		type kc struct {
			c    ssa.CallInstruction
			name string
		}
		var gets, dels []kc
		for _, c := range core.Calls(fn) {
			sc := c.Common().StaticCallee()
			if sc == nil || sc.Signature.Recv() == nil || core.NamedName(sc.Signature.Recv().Type()) != "Keeper" {
				continue
			}
			switch {
			case strings.HasPrefix(sc.Name(), "Get"):
				gets = append(gets, kc{c, strings.TrimPrefix(sc.Name(), "Get")})
			case strings.HasPrefix(sc.Name(), "Remove"):
				dels = append(dels, kc{c, strings.TrimPrefix(sc.Name(), "Remove")})
			case strings.HasPrefix(sc.Name(), "Delete"):
				dels = append(dels, kc{c, strings.TrimPrefix(sc.Name(), "Delete")})
			}
		}
		if len(gets) == 0 || len(dels) == 0 {
			continue
		}
		ff := P.Facts(fn)
		for _, d := range dels {
			for _, g := range gets {
				if g.name != d.name || len(g.c.Common().Args) != len(d.c.Common().Args) || len(d.c.Common().Args) < 3 {
					continue
				}
				if !reachesInstr(fn, g.c.(ssa.Instruction), d.c.(ssa.Instruction)) {
					continue
				}
				n++
				bad := ""
				for i := 2; i < len(d.c.Common().Args); i++ {
					a, k := ff.Fwd(d.c.Common().Args[i]), ff.Fwd(g.c.Common().Args[i])
					if a == k {
						continue
					}
					// look through address conversions (MustAccAddressFromBech32(rec.User), AccAddress(x), …)
					for depth := 0; depth < 3; depth++ {
						if ex, ok := a.(*ssa.Extract); ok && ex.Index == 0 {
							a = ff.Fwd(ex.Tuple)
						}
						cv, ok := a.(*ssa.Call)
						if !ok || cv.Common().IsInvoke() || cv.Common().StaticCallee() == nil || len(cv.Common().Args) != 1 {
							break
						}
						if n := cv.Common().StaticCallee().Name(); !strings.Contains(n, "Bech32") && n != "String" {
							break
						}
						a = ff.Fwd(cv.Common().Args[0])
					}
					if a == k {
						continue
					}
					// the loaded record's own field (or getter)
					own := false
					os_ := ff.Origins(a)
					if len(os_) > 0 {
						own = true
						for _, o := range os_ {
							if !(o.Kind == "call" && o.Val == ssa.Value(g.c.(*ssa.Call)) && o.Path != "") {
								own = false
							}
						}
					}
					// an accessor method called on the loaded record (GetUserAccount())
					if !own {
						if mc, ok := a.(*ssa.Call); ok && mc.Common().StaticCallee() != nil && mc.Common().StaticCallee().Signature.Recv() != nil && len(mc.Common().Args) == 1 {
							ro := recordOrigins(ff, mc.Common().Args[0])
							own = len(ro) > 0
							for _, o := range ro {
								if !(o.Kind == "call" && o.Val == ssa.Value(g.c.(*ssa.Call))) {
									own = false
								}
							}
						}
					}
					// or the same origins as the load key (a re-derived equal value)
					if !own && sameOrigins(ff, a, k) {
						own = true
					}
					if !own {
						bad += fmt.Sprintf("key #%d of the delete is neither the load key nor the record's own field; ", i-1)
					}
				}
				if os.Getenv("ELYSLINT_POLY_DEBUG") != "" {
					fmt.Fprintf(os.Stderr, "samekey %s: %s bad=%q\n", P.Key(fn), d.name, bad)
				}
				R.Add(rule, P.Key(fn), "Get"+d.name+" … delete of the same record", P.Pos(P.InstrPos(d.c.(ssa.Instruction))), bad == "",
					"the record deleted is the record that was loaded and settled. "+bad)
			}
		}
	}
	if n == 0 {
		R.Add(rule, "-", "load-then-delete pairs", "-", false, "no function loads and deletes a record (anchor changed)")
	}
}

func sameOrigins(ff *core.FuncFacts, a, b ssa.Value) bool {
	oa, ob := ff.Origins(a), ff.Origins(b)
	if len(oa) == 0 || len(oa) != len(ob) {
		return false
	}
	for _, x := range oa {
		found := false
		for _, y := range ob {
			if x.Kind == y.Kind && x.Name == y.Name && x.Path == y.Path && x.Val == y.Val {
				found = true
			}
		}
		if !found {
			return false
		}
	}
	return true
}

// checkIdCounterMonotone: an id-allocating counter only ever grows.  Record keys and
// per-record addresses are derived from the id, so a writer that can lower the counter lets
// a later allocation re-use the id (key, address) of a record that is still live: two
// records then share one address and their holdings and debts mix.  Every consensus writer
// outside genesis stores Get()+1.
func checkIdCounterMonotone(P *core.Program, R *core.Report, rule, setKey, getSuffix string, subjects map[*ssa.Function]bool) {
	sc := P.Fn(setKey)
	if sc == nil {
		R.Add(rule, setKey, "function", "-", false, "unresolved anchor")
		return
	}
	n := 0
	for _, e := range P.CG().In[sc] {
		if !subjects[e.Caller] {
			continue
		}
		ck := P.Key(e.Caller)
		if strings.HasSuffix(ck, ".InitGenesis") || strings.Contains(ck, "/migrations.") {
			continue
		}
		c, ok := e.Site.(ssa.CallInstruction)
		if !ok {
			continue
		}
		n++
		ff := P.Facts(e.Caller)
		args := c.Common().Args
		v := ff.Fwd(args[len(args)-1])
		// `rec.Id = Get()+1; Set(rec.Id)` on a heap record: take the value stored into the same
		// field earlier in the block, provided the record is not handed to a call in between
		if ld, ok := v.(*ssa.UnOp); ok && ld.Op == token.MUL {
			if li, ok := ssa.Value(ld).(ssa.Instruction); ok {
				blk := li.Block()
				var val ssa.Value
				for _, in := range blk.Instrs {
					if in == li {
						break
					}
					switch x := in.(type) {
					case *ssa.Store:
						if sameLocation(ff, x.Addr, ld.X) {
							val = x.Val
						}
					case ssa.CallInstruction:
						if fa, ok := ld.X.(*ssa.FieldAddr); ok {
							for _, a := range x.Common().Args {
								if a == fa.X {
									val = nil
								}
							}
						}
					}
				}
				if val != nil {
					v = ff.Fwd(val)
				}
			}
		}
		good := false
		if bo, ok := v.(*ssa.BinOp); ok && bo.Op == token.ADD {
			x, k := bo.X, bo.Y
			if _, isK := x.(*ssa.Const); isK {
				x, k = k, x
			}
			if kc, ok := k.(*ssa.Const); ok && kc.Value != nil && kc.Value.ExactString() == "1" {
				good = ff.AllOrigins(x, nil, func(o core.Origin) bool {
					return o.Kind == "call" && strings.HasSuffix(o.Name, getSuffix)
				})
			}
		}
		R.Add(rule, ck, "writes id counter "+setKey, P.Pos(P.InstrPos(c)), good,
			"an id counter is only ever advanced (stored value = "+getSuffix+"() + 1): ids, record keys and per-record addresses derived from it are never handed out twice")
	}
	if n == 0 {
		R.Add(rule, setKey, "writers", "-", false, "no consensus writer of the id counter found (anchor changed)")
	}
}
