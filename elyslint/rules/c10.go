package rules

import (
	"fmt"
	"go/constant"
	"go/types"
	"strings"

	"elyslint/core"

	"golang.org/x/tools/go/ssa"
)

func init() { register("C10", checkC10) }

const (
	perpFCL = "x/perpetual/keeper.Keeper.ForceCloseLong"
	perpFCS = "x/perpetual/keeper.Keeper.ForceCloseShort"
	llpFCL  = "x/leveragelp/keeper.Keeper.ForceCloseLong"
)

// originsAll reports whether v has ≥1 origin and all satisfy pred.
func originsAll(ff *core.FuncFacts, v ssa.Value, pred func(core.Origin) bool) bool {
	if v == nil || v == core.ZeroMarker || v == core.NilMarker {
		return false
	}
	return ff.AllOrigins(v, nil, pred)
}

func isCallOrigin(o core.Origin, keySuffix, path string) bool {
	return o.Kind == "call" && strings.HasSuffix(o.Name, keySuffix) && o.Path == path
}

// healthValue: the value is the result of Get*Health, or the record's health field that is
// only ever stored from Get*Health in this function (with such a store dominating `at`).
func healthValue(P *core.Program, ff *core.FuncFacts, v ssa.Value, at ssa.Instruction) bool {
	isHealthCall := func(o core.Origin) bool {
		return isCallOrigin(o, "Keeper.GetMTPHealth", "#0") || isCallOrigin(o, "Keeper.GetPositionHealth", "#0")
	}
	if originsAll(ff, v, isHealthCall) {
		return true
	}
	field := ""
	if !originsAll(ff, v, func(o core.Origin) bool {
		if (o.Kind == "param" || o.Kind == "local" || o.Kind == "call") && (strings.HasSuffix(o.Path, ".MtpHealth") || strings.HasSuffix(o.Path, ".PositionHealth")) {
			field = o.Path[strings.LastIndex(o.Path, ".")+1:]
			return true
		}
		return false
	}) {
		return false
	}
	// every store to that field in the function comes from the health call; one dominates `at`
	n, dom := 0, false
	for _, b := range ff.Fn.Blocks {
		for _, in := range b.Instrs {
			st, ok := in.(*ssa.Store)
			if !ok {
				continue
			}
			fa, ok := st.Addr.(*ssa.FieldAddr)
			if !ok || core.FieldName(fa.X.Type(), fa.Field) != field {
				continue
			}
			n++
			if !originsAll(ff, st.Val, isHealthCall) {
				return false
			}
			if core.Dominates(st, at) {
				dom = true
			}
		}
	}
	return n > 0 && dom
}

func safetyValue(ff *core.FuncFacts, v ssa.Value) bool {
	return originsAll(ff, v, func(o core.Origin) bool {
		return isCallOrigin(o, "Keeper.GetSafetyFactor", "") || (o.Kind == "call" && strings.HasSuffix(o.Name, "Keeper.GetParams") && o.Path == ".SafetyFactor")
	})
}

func fieldOfRecord(ff *core.FuncFacts, v ssa.Value, field string) bool {
	return originsAll(ff, v, func(o core.Origin) bool {
		return (o.Kind == "param" || o.Kind == "local") && strings.HasSuffix(o.Path, "."+field)
	})
}

// priceValue: the market price — perpetual: GetAssetPrice of the position's *trading*
// asset; leveragelp: the LP token price of the amm pool.
func priceValue(ff *core.FuncFacts, v ssa.Value) bool {
	return originsAll(ff, v, func(o core.Origin) bool {
		if isCallOrigin(o, "x/amm/types.Pool.LpTokenPrice", "#0") {
			return true
		}
		if !isCallOrigin(o, "x/perpetual/keeper.Keeper.GetAssetPrice", "#0") {
			return false
		}
		call, _ := o.Val.(*ssa.Call)
		if call == nil {
			return false
		}
		args := call.Common().Args
		return len(args) > 0 && fieldOfRecord(ff, args[len(args)-1], "TradingAsset")
	})
}

// hasLE looks for an atom  a <= b  (exact relation: a strict  a < b  also implies it).
func hasLE(ff *core.FuncFacts, atoms []*core.Atom, a, b func(ssa.Value) bool) bool {
	for _, at := range atoms {
		if (at.Rel == core.LE || at.Rel == core.LT) && at.B != nil && a(at.A) && b(at.B) {
			return true
		}
	}
	return false
}

// hasLT looks for a strict  a < b.
func hasLT(ff *core.FuncFacts, atoms []*core.Atom, a, b func(ssa.Value) bool) bool {
	for _, at := range atoms {
		if at.Rel == core.LT && at.B != nil && a(at.A) && b(at.B) {
			return true
		}
	}
	return false
}

// positionConst returns the value of perpetual types.Position_<name>.
func positionConst(P *core.Program, name string) (constant.Value, bool) {
	pkg := P.PkgByRel["x/perpetual/types"]
	if pkg == nil {
		return nil, false
	}
	c, ok := pkg.Types.Scope().Lookup("Position_" + name).(*types.Const)
	if !ok {
		return nil, false
	}
	return c.Val(), true
}

// pathDirection inspects the atoms of a path for the position discriminator.
func pathDirection(P *core.Program, ff *core.FuncFacts, atoms []*core.Atom) string {
	long, okL := positionConst(P, "LONG")
	short, okS := positionConst(P, "SHORT")
	if !okL || !okS {
		return ""
	}
	dir := ""
	notLong := false
	for _, a := range atoms {
		if a.B == nil || (a.Rel != core.EQ && a.Rel != core.NE) {
			continue
		}
		for _, pr := range [][2]ssa.Value{{a.A, a.B}, {a.B, a.A}} {
			c, isC := pr[1].(*ssa.Const)
			if !isC || c.Value == nil || !fieldOfRecord(ff, pr[0], "Position") {
				continue
			}
			switch {
			case a.Rel == core.EQ && constant.Compare(c.Value, 39 /*token.EQL*/, long):
				dir = "LONG"
			case a.Rel == core.EQ && constant.Compare(c.Value, 39, short):
				dir = "SHORT"
			case a.Rel == core.NE && constant.Compare(c.Value, 39, long):
				notLong = true
			}
		}
	}
	if dir == "" && notLong {
		return "SHORT"
	}
	return dir
}

type c10Site struct {
	Fn     string // enclosing function key
	Kind   string // liquidation | stoploss | takeprofit | owner
	Reason string
}

func checkC10(P *core.Program, R *core.Report) {
	// the prices and health values the guards compare are computed from the accounted pool
	// (amm balance + perpetual liabilities − custody), like every other price of the system: a
	// nil accounted-pool keeper silently switches a guard to the raw amm balance, and a bot can
	// close a position whose stop-loss the market has not reached
	defer checkKeeperArgsNotNilIn(P, R, "C10-guard-price", []string{"x/leveragelp/", "x/perpetual/"}, map[string]string{
		"x/leveragelp/keeper.Keeper.CheckAmmPoolUsdcBalance": "frozen: compares the REAL amm balance with what leveragelp positions could withdraw (hooks_amm.go), not a guard of a close",
	})
	R.Explanation = "Decided on every path: each call site of perpetual ForceCloseLong/ForceCloseShort and leveragelp ForceCloseLong lies in a frozen guarded function and is reached only under the matching guard " +
		"(liquidation: health <= safety factor with health produced by Get*Health and the bound by GetSafetyFactor/Params.SafetyFactor; stop-loss: price <= stop (long / LP) or price >= stop (short); take-profit: price >= target (long) or <= (short)), " +
		"using must-hold facts and, where a position discriminator re-merges, enumeration of acyclic paths with contradiction pruning; no other function calls them except the owner-keyed close; " +
		"every success exit of the three open functions carries health > safety factor. Does not decide whether health is the right number."
	var sites map[string]c10Site
	if err := loadTable("c10_sites.json", &sites); err != nil {
		R.Undecided("C10-table", "-", "tables/c10_sites.json", "-", err.Error())
		return
	}
	g := P.CG()
	usedFns := map[string]bool{}
	for _, target := range []string{perpFCL, perpFCS, llpFCL} {
		tf := P.Fn(target)
		if tf == nil {
			R.Add("C10-anchor", target, "function", "-", false, "force-close function not found (unresolved anchor)")
			continue
		}
		for _, e := range g.In[tf] {
			caller := P.Key(e.Caller)
			pos := P.Pos(P.InstrPos(e.Site))
			site, ok := sites[caller]
			construct := "call " + target
			if !ok {
				R.Add("C10-who-may-call", caller, construct, pos, false,
					"a function outside the frozen guarded set calls a force close (liquidation, stop-loss, take-profit and the owner-keyed close are the only allowed callers)")
				continue
			}
			usedFns[caller] = true
			ff := P.Facts(e.Caller)
			switch site.Kind {
			case "owner":
				R.Add("C10-who-may-call", caller, construct, pos, true, "owner-keyed close path (decided by C17): "+site.Reason)
				checkOwnerCloseReach(P, R, e.Caller, caller)
			case "liquidation":
				at := ff.At(e.Site)
				ok := hasLE(ff, at, func(v ssa.Value) bool { return healthValue(P, ff, v, e.Site) }, func(v ssa.Value) bool { return safetyValue(ff, v) })
				R.Add("C10-liquidation-guard", caller, construct, pos, ok, "force close must be dominated by health <= safetyFactor (health from Get*Health, bound from GetSafetyFactor/Params.SafetyFactor)")
			case "stoploss", "takeprofit":
				checkTriggerSite(P, R, ff, e.Site, caller, construct, pos, site.Kind)
			default:
				R.Add("C10-table", caller, construct, pos, false, "unknown site kind in tables/c10_sites.json")
			}
		}
	}
	for fn := range sites {
		if !usedFns[fn] {
			R.Add("C10-table", fn, "frozen site", "-", false, "tables/c10_sites.json names a function that no longer calls a force close (unresolved anchor)")
		}
	}
	// opens start healthy
	for _, key := range []string{"x/perpetual/keeper.Keeper.ProcessOpen", "x/perpetual/keeper.Keeper.OpenConsolidate", "x/leveragelp/keeper.Keeper.ProcessOpenLong"} {
		fn := P.Fn(key)
		if fn == nil {
			R.Add("C10-open-healthy", key, "function", "-", false, "open function not found (unresolved anchor)")
			continue
		}
		ff := P.Facts(fn)
		n := 0
		for _, ex := range ff.Exits() {
			if ex.Kind != core.ExitSuccess && ex.Kind != core.ExitBoth {
				continue
			}
			n++
			ok := hasLT(ff, ff.At(ex.Instr), func(v ssa.Value) bool { return safetyValue(ff, v) }, func(v ssa.Value) bool { return healthValue(P, ff, v, ex.Instr) })
			R.Add("C10-open-healthy", key, "success exit", P.Pos(P.InstrPos(ex.Instr)), ok, "every successful open must carry health > safetyFactor (strict)")
		}
		if n == 0 {
			R.Add("C10-open-healthy", key, "no success exit", P.Pos(fn.Pos()), false, "no success exit found")
		}
		// the health-checked function must be on the path of the Msg handler
	}
	checkOpenReach(P, R)
	checkThirdPartyEntries(P, R)
	// the amm pool a third-party close is judged on (LP price, stop-loss, health) is the stored
	// one: not a copy memoised across the closes of one message or block
	closeSubjects := map[*ssa.Function]bool{}
	for fn := range P.Reach(P.FindRoots().Consensus()) {
		if k := P.Key(fn); strings.HasPrefix(k, "x/leveragelp/") || strings.HasPrefix(k, "x/perpetual/") {
			closeSubjects[fn] = true
		}
	}
	checkRecordFreshness(P, R, freshSpec{
		Rule: "C10-ammpool-fresh", Load: "x/amm/keeper.Keeper.GetPool", Store: "x/amm/keeper.Keeper.SetPool", Subjects: closeSubjects,
		Tolerated: map[string]string{},
		Sinks: map[string][]int{
			"x/leveragelp/keeper.Keeper.CheckAndLiquidateUnhealthyPosition": {4},
			"x/leveragelp/keeper.Keeper.CheckAndCloseAtStopLoss":            {4},
			"x/perpetual/keeper.Keeper.CheckAndLiquidateUnhealthyPosition":  {4},
		},
	})
	checkHealthFresh(P, R)
}

func checkTriggerSite(P *core.Program, R *core.Report, ff *core.FuncFacts, site ssa.Instruction, caller, construct, pos, kind string) {
	field := "StopLossPrice"
	if kind == "takeprofit" {
		field = "TakeProfitPrice"
	}
	isPrice := func(v ssa.Value) bool { return priceValue(ff, v) }
	isTrig := func(v ssa.Value) bool { return fieldOfRecord(ff, v, field) }
	rule := "C10-" + kind + "-guard"
	// leveragelp has no short side: must-hold suffices
	if strings.HasPrefix(caller, "x/leveragelp/") {
		ok := hasLE(ff, ff.At(site), isPrice, isTrig)
		R.Add(rule, caller, construct, pos, ok, "stop-loss close must be dominated by lpTokenPrice <= position.StopLossPrice")
		return
	}
	paths, ok := ff.PathsTo(site)
	if !ok {
		R.Undecided(rule, caller, construct, pos, fmt.Sprintf("more than %d paths to the site", core.MaxPaths))
		return
	}
	if len(paths) == 0 {
		R.Add(rule, caller, construct, pos, false, "no feasible path reaches the force close (anchor changed)")
		return
	}
	bad := ""
	for _, p := range paths {
		dir := pathDirection(P, ff, p.Atoms)
		var good bool
		switch {
		case dir == "LONG" && kind == "stoploss", dir == "SHORT" && kind == "takeprofit":
			good = hasLE(ff, p.Atoms, isPrice, isTrig) // price <= trigger
		case dir == "SHORT" && kind == "stoploss", dir == "LONG" && kind == "takeprofit":
			good = hasLE(ff, p.Atoms, isTrig, isPrice) // price >= trigger
		default:
			bad = "a path reaches the force close without deciding the position side"
		}
		if !good && bad == "" {
			var bs []string
			for _, b := range p.Blocks {
				bs = append(bs, fmt.Sprint(b.Index))
			}
			bad = fmt.Sprintf("path via blocks %s (side %s) reaches the force close without the %s trigger comparison in the required direction", strings.Join(bs, ">"), dir, kind)
		}
	}
	R.Add(rule, caller, construct, pos, bad == "",
		fmt.Sprintf("%d feasible paths; long: price %s trigger, short: price %s trigger. %s", len(paths),
			map[string]string{"stoploss": "<=", "takeprofit": ">="}[kind], map[string]string{"stoploss": ">=", "takeprofit": "<="}[kind], bad))
}

// checkOwnerCloseReach: the owner close function must only be reachable from Msg handlers
// classified owner-keyed (i.e. not from permissionless handlers or block processing).
func checkOwnerCloseReach(P *core.Program, R *core.Report, fn *ssa.Function, key string) {
	roots := P.FindRoots()
	var offenders []string
	for _, r := range append(append([]*ssa.Function{}, roots.Block...), roots.Msg...) {
		rk := P.Key(r)
		if !P.Reach([]*ssa.Function{r})[fn] {
			continue
		}
		// allowed: the module's own Close handler
		if strings.HasSuffix(rk, "msgServer.Close") {
			continue
		}
		offenders = append(offenders, rk)
	}
	R.Add("C10-owner-path", key, "reachable only from msgServer.Close", P.Pos(fn.Pos()), len(offenders) == 0,
		"the unguarded close is reserved for the owner's Close message; also reachable from: "+strings.Join(offenders, ", "))
}

// checkOpenReach: the Msg Open handlers must pass through the health-checked functions on
// every success path that stores a position.
func checkOpenReach(P *core.Program, R *core.Report) {
	type rq struct{ root, must []string }
	for _, c := range []struct {
		root string
		via  []string
	}{
		{"x/perpetual/keeper.msgServer.Open", []string{"x/perpetual/keeper.Keeper.ProcessOpen"}},
		{"x/leveragelp/keeper.msgServer.Open", []string{"x/leveragelp/keeper.Keeper.ProcessOpenLong"}},
	} {
		root := P.Fn(c.root)
		if root == nil {
			R.Add("C10-open-reach", c.root, "handler", "-", false, "open handler not found (unresolved anchor)")
			continue
		}
		reach := P.Reach([]*ssa.Function{root})
		for _, v := range c.via {
			f := P.Fn(v)
			R.Add("C10-open-reach", c.root, "reaches "+v, P.Pos(root.Pos()), f != nil && reach[f], "the open handler must go through the health-checked open function")
		}
	}
}

// thirdPartyEntries: functions through which someone other than the owner can touch a
// position. Every state-changing call site inside them must target a frozen callee.
func checkThirdPartyEntries(P *core.Program, R *core.Report) {
	var table map[string]map[string]string // function → allowed callee → reason
	if err := loadTable("c10_entries.json", &table); err != nil {
		R.Undecided("C10-table", "-", "tables/c10_entries.json", "-", err.Error())
		return
	}
	for fnKey, allowed := range table {
		fn := P.Fn(fnKey)
		if fn == nil {
			R.Add("C10-third-party-effects", fnKey, "function", "-", false, "frozen third-party entry not found (unresolved anchor)")
			continue
		}
		fns := []*ssa.Function{fn}
		fns = append(fns, fn.AnonFuncs...)
		seen := map[string]bool{}
		for _, f := range fns {
			for _, c := range core.Calls(f) {
				w, _ := P.SiteMayWrite(c)
				if !w {
					continue
				}
				ck := P.CalleeKey(c.Common())
				if seen[ck] {
					continue
				}
				seen[ck] = true
				_, ok := allowed[ck]
				R.Add("C10-third-party-effects", fnKey, "effect "+ck, P.Pos(P.InstrPos(c)), ok,
					"state-changing callee in a third-party close path must be frozen (guarded closes, accrued interest/funding settlement, health refresh, paging bookkeeping); a new one needs triage")
			}
		}
	}
}

// checkHealthFresh: the health compared by the guards must include interest accrued up to
// now — perpetual: UpdateMTPBorrowInterestUnpaidLiability on the same MTP dominates
// GetMTPHealth where the position already existed; leveragelp: GetPositionHealth reads the
// debt through UpdateInterestAndGetDebt.
func checkHealthFresh(P *core.Program, R *core.Report) {
	const accrue = "x/perpetual/keeper.Keeper.UpdateMTPBorrowInterestUnpaidLiability"
	for _, key := range []string{"x/perpetual/keeper.Keeper.CheckAndLiquidateUnhealthyPosition", "x/perpetual/keeper.Keeper.OpenConsolidate"} {
		fn := P.Fn(key)
		if fn == nil {
			R.Add("C10-health-fresh", key, "function", "-", false, "unresolved anchor")
			continue
		}
		ff := P.Facts(fn)
		n := 0
		for _, c := range core.Calls(fn) {
			if !calleeMatches(P, c, "x/perpetual/keeper.Keeper.GetMTPHealth") {
				continue
			}
			n++
			ok := false
			for _, d := range core.Calls(fn) {
				if calleeMatches(P, d, accrue) && core.Dominates(d, c) {
					// same MTP: the accrual's pointer argument and the health call's value argument
					// have the same root origin
					da := d.Common().Args
					ha := c.Common().Args
					if len(da) >= 3 && len(ha) >= 3 && sameRoot(ff, da[2], ha[2]) {
						ok = true
					}
				}
			}
			R.Add("C10-health-fresh", key, "call GetMTPHealth", P.Pos(P.InstrPos(c)), ok,
				"the health of an existing position must be computed after UpdateMTPBorrowInterestUnpaidLiability on the same MTP (otherwise accrued interest is ignored by the guard)")
		}
		if n == 0 {
			R.Add("C10-health-fresh", key, "no GetMTPHealth call", P.Pos(fn.Pos()), false, "anchor changed")
		}
	}
	key := "x/leveragelp/keeper.Keeper.GetPositionHealth"
	if fn := P.Fn(key); fn != nil {
		ff := P.Facts(fn)
		ok := false
		var at ssa.Instruction
		for _, c := range core.Calls(fn) {
			if strings.HasSuffix(P.CalleeKey(c.Common()), "StableStakeKeeper.UpdateInterestAndGetDebt") {
				at = c
			}
		}
		if at != nil {
			ok = true
			for _, e := range ff.Exits() {
				if !core.Dominates(at, e.Instr) {
					ok = false
				}
			}
		}
		R.Add("C10-health-fresh", key, "debt via UpdateInterestAndGetDebt", P.Pos(fn.Pos()), ok, "position health must be computed from the debt including interest accrued up to now")
	} else {
		R.Add("C10-health-fresh", key, "function", "-", false, "unresolved anchor")
	}
}

// sameRoot: both values slice back to the same parameter / call result (ignoring paths).
func sameRoot(ff *core.FuncFacts, a, b ssa.Value) bool {
	oa, ob := ff.Origins(a), ff.Origins(b)
	if len(oa) == 0 || len(ob) == 0 {
		return false
	}
	for _, x := range oa {
		found := false
		for _, y := range ob {
			if x.Val == y.Val {
				found = true
			}
			// b is the result of a call that received a (e.g. the merged MTP returned by
			// OpenConsolidateMergeMtp(ctx, existing, new))
			if call, ok := y.Val.(*ssa.Call); ok && y.Kind == "call" {
				for _, arg := range call.Common().Args {
					for _, z := range ff.Origins(arg) {
						if z.Val == x.Val {
							found = true
						}
					}
				}
			}
		}
		if !found {
			return false
		}
	}
	return true
}
