package rules

import (
	"strings"

	"elyslint/core"

	"golang.org/x/tools/go/ssa"
)

// Range enforcement (DESIGN §10.11).
//
// The direction analysis of C03/C05 (R10) assumes ranges for fee and weight parameters
// (tables/c03_ranges.json).  Where the reason of an assumption is "the validator rejects
// anything else", that sentence is itself decidable from the validator's body: every exit of
// the validator that can report success carries the must-hold comparison.  This file turns
// those assumptions into obligations, so that weakening a validation the pricing code relies
// on (a validation here, the code relying on it there: two sites that each look fine alone)
// is reported under the property whose proof used the assumption.
//
// Two obligation forms:
//   ensures:  on every success exit of validator V, lo (<|<=) recv.Field (and recv.Field <= hi)
//             holds — directly, or because V passes the field to a helper that ensures it for
//             its parameter and V cannot succeed when that helper fails;
//   invokes:  entry point E (a message's ValidateBasic, a constructor) cannot report success
//             without a successful call of validator V on the given field of its receiver.

type rangeEnsure struct {
	Fn     string // validator (function key)
	Field  string // field of the receiver, e.g. "SwapFee"
	Strict bool   // 0 < x instead of 0 <= x
	HiName string // "" (no upper bound) | name suffix of a package-level variable | "one"
	Why    string
}

type rangeInvoke struct {
	Entry, Validator string
	Field            string // field path suffix of the entry's receiver handed to the validator ("" = any)
	Why              string
}

var c03RangeEnsures = []rangeEnsure{
	{"x/amm/types.PoolParams.Validate", "SwapFee", false, "MaxSwapFee", "swap fee within [0, MaxSwapFee]: a negative fee pays the trader more than the zero-fee reference"},
	{"x/amm/types.PoolAsset.validateWeight", "Weight", true, "", "pool asset weights are positive (the solver divides by them and its monotonicity needs a positive exponent)"},
	{"x/amm/types.PoolAsset.Validate", "Weight", false, "", "message-level pool assets carry a non-negative weight"},
	{"x/amm/types.Params.Validate", "WeightBreakingFeeMultiplier", false, "", "a negative weight-breaking fee multiplier turns the fee into a payout"},
	{"x/amm/types.Params.Validate", "WeightBreakingFeeExponent", false, "", "the weight-breaking fee is distance^exponent, monotone only for a non-negative exponent"},
	{"x/amm/types.Params.Validate", "WeightBreakingFeePortion", false, "", "portion of the weight-breaking fee kept by the pool is non-negative"},
	{"x/perpetual/types.Params.Validate", "WeightBreakingFeeFactor", false, "", "perpetual's factor on the weight-breaking fee is non-negative"},
}

var c03RangeInvokes = []rangeInvoke{
	{"x/amm/types.MsgCreatePool.ValidateBasic", "x/amm/types.PoolParams.Validate", "PoolParams", "anyone may create a pool: its swap fee is validated here or nowhere"},
	{"x/amm/types.MsgUpdatePoolParams.ValidateBasic", "x/amm/types.PoolParams.Validate", "PoolParams", "pool parameters replaced by governance are validated"},
	{"x/amm/types.MsgUpdateParams.ValidateBasic", "x/amm/types.Params.Validate", "Params", "module parameters replaced by governance are validated"},
	{"x/amm/types.Pool.SetInitialPoolAssets", "x/amm/types.PoolAsset.validateWeight", "", "every initial pool asset passes the positive-weight check"},
}

func originIsRecvField(ff *core.FuncFacts, v ssa.Value, recv *ssa.Parameter, field string) bool {
	if v == nil || v == core.ZeroMarker || v == core.NilMarker {
		return false
	}
	os := ff.Origins(v)
	if len(os) == 0 {
		return false
	}
	for _, o := range os {
		if o.Kind != "param" || o.Val != ssa.Value(recv) {
			return false
		}
		if field != "" && !(o.Path == "."+field || strings.HasSuffix(o.Path, "."+field)) {
			return false
		}
		if field == "" && o.Path != "" {
			return false
		}
	}
	return true
}

func isZeroVal(ff *core.FuncFacts, v ssa.Value) bool {
	if v == core.ZeroMarker {
		return true
	}
	for _, o := range ff.Origins(v) {
		if o.Kind == "zero" {
			continue
		}
		if o.Kind == "call" && (strings.HasSuffix(o.Name, "ZeroInt") || strings.HasSuffix(o.Name, "LegacyZeroDec") || strings.HasSuffix(o.Name, "ZeroDec")) {
			continue
		}
		return false
	}
	return len(ff.Origins(v)) > 0
}

func isHiVal(ff *core.FuncFacts, v ssa.Value, hi string) bool {
	os := ff.Origins(v)
	if len(os) == 0 {
		return false
	}
	for _, o := range os {
		switch {
		case hi == "one" && o.Kind == "call" && (strings.HasSuffix(o.Name, "LegacyOneDec") || strings.HasSuffix(o.Name, "OneDec") || strings.HasSuffix(o.Name, "OneInt")):
		case hi != "one" && o.Kind == "global" && strings.HasSuffix(o.Name, hi) && o.Path == "":
		default:
			return false
		}
	}
	return true
}

// ensuresRange decides whether every exit of fn that can report success carries the range
// for (parameter p).field; depth bounds the helper recursion.
func ensuresRange(P *core.Program, fn *ssa.Function, p *ssa.Parameter, field string, strict bool, hi string, depth int) (bool, string) {
	if fn == nil || len(fn.Blocks) == 0 {
		return false, "no body"
	}
	ff := P.Facts(fn)
	isX := func(v ssa.Value) bool { return originIsRecvField(ff, v, p, field) }
	n := 0
	for _, ex := range ff.Exits() {
		if ex.Kind != core.ExitSuccess && ex.Kind != core.ExitBoth {
			continue
		}
		n++
		atoms := ff.At(ex.Instr)
		lo := false
		if strict {
			lo = hasLT(ff, atoms, func(v ssa.Value) bool { return isZeroVal(ff, v) }, isX)
		} else {
			lo = hasLE(ff, atoms, func(v ssa.Value) bool { return isZeroVal(ff, v) }, isX)
		}
		hiOK := hi == "" || hasLE(ff, atoms, isX, func(v ssa.Value) bool { return isHiVal(ff, v, hi) })
		if lo && hiOK {
			continue
		}
		// through a helper: a call g(…x…) that ensures the range for its parameter, which every
		// path to this exit passes and whose failure cannot reach a success exit
		if depth > 0 {
			okVia := false
			for _, c := range core.Calls(fn) {
				sc := c.Common().StaticCallee()
				if sc == nil || !core.InModule(sc) || len(sc.Blocks) == 0 {
					continue
				}
				for i, a := range c.Common().Args {
					if i >= len(sc.Params) || !isX(a) {
						continue
					}
					if ok, _ := ensuresRange(P, sc, sc.Params[i], "", strict, hi, depth-1); !ok {
						continue
					}
					if _, skip := ff.ReachesWithoutT(nil, func(in ssa.Instruction) bool { return in == ex.Instr }, func(in ssa.Instruction) bool { return in == ssa.Instruction(c) }); skip {
						continue
					}
					e, discarded := core.ErrValueOf(c)
					if discarded || e == nil {
						continue
					}
					if ff.ErrNonNilReaches(c, e, nil, true) != nil {
						continue
					}
					okVia = true
				}
			}
			if okVia {
				continue
			}
		}
		what := "lower bound"
		if lo {
			what = "upper bound " + hi
		}
		return false, "the exit at " + P.Pos(P.InstrPos(ex.Instr)) + " can report success without the " + what + " having been established"
	}
	if n == 0 {
		return false, "no success exit found"
	}
	return true, ""
}

// invokesValidator: entry cannot report success without a successful call of validator on
// the given field of its receiver (inside a loop: each iteration's call gates the iteration).
func invokesValidator(P *core.Program, entry *ssa.Function, validatorKey string, field string) (bool, string) {
	ff := P.Facts(entry)
	var calls []ssa.CallInstruction
	for _, c := range core.Calls(entry) {
		if !c.Common().IsInvoke() && P.CalleeKey(c.Common()) == validatorKey {
			calls = append(calls, c)
		}
	}
	if len(calls) == 0 {
		return false, "no call of the validator"
	}
	for _, c := range calls {
		if field != "" && len(entry.Params) > 0 && len(c.Common().Args) > 0 {
			if !originIsRecvField(ff, c.Common().Args[0], entry.Params[0], field) {
				continue
			}
		}
		e, discarded := core.ErrValueOf(c)
		if discarded || e == nil {
			return false, "the validator's error is discarded at " + P.Pos(P.InstrPos(c))
		}
		if r := ff.ErrNonNilReaches(c, e, nil, true); r != nil {
			return false, "with the validator's error non-nil a path reaches a success exit at " + P.Pos(P.InstrPos(r.Instr))
		}
		inLoop := false
		if _, again := ff.ReachesWithoutT(c, func(in ssa.Instruction) bool { return in == ssa.Instruction(c) }, nil); again {
			inLoop = true
		}
		if !inLoop {
			if x, skip := ff.SuccessExitReachableWithout(nil, func(in ssa.Instruction) bool { return in == ssa.Instruction(c) }); skip {
				return false, "a success exit at " + P.Pos(P.InstrPos(x)) + " is reachable without calling the validator"
			}
		}
		return true, ""
	}
	return false, "no call of the validator on ." + field
}

// CheckRangeEnforced records the obligations under rule.
func CheckRangeEnforced(P *core.Program, R *core.Report, rule string) {
	for _, re := range c03RangeEnsures {
		fn := P.Fn(re.Fn)
		if fn == nil || len(fn.Params) == 0 {
			R.Add(rule, re.Fn, "validator", "-", false, "unresolved anchor")
			continue
		}
		ok, why := ensuresRange(P, fn, fn.Params[0], re.Field, re.Strict, re.HiName, 2)
		bound := "0 <= " + re.Field
		if re.Strict {
			bound = "0 < " + re.Field
		}
		if re.HiName != "" {
			bound += " <= " + re.HiName
		}
		R.Add(rule, re.Fn, "ensures "+bound, P.Pos(fn.Pos()), ok, re.Why+" — an assumption of the direction analysis, enforced here. "+why)
	}
	for _, ri := range c03RangeInvokes {
		en, va := P.Fn(ri.Entry), P.Fn(ri.Validator)
		if en == nil || va == nil {
			R.Add(rule, ri.Entry, "invokes "+ri.Validator, "-", false, "unresolved anchor")
			continue
		}
		ok, why := invokesValidator(P, en, ri.Validator, ri.Field)
		R.Add(rule, ri.Entry, "invokes "+ri.Validator, P.Pos(en.Pos()), ok, ri.Why+". "+why)
	}
}

// Coin lists carried by user messages (DESIGN §10.11, finding F-05b).  sdk.Coins arithmetic
// (Sub, Add, AmountOf, IsAnyGT) silently assumes a sorted list without duplicate denoms; a
// message field of type []sdk.Coin that the keeper uses as such a set must be validated AS A
// SET (sdk.Coins.Validate) before the handler runs — validating each coin alone lets
// [100 uusdt, 1000 uusdt] through, and the join is then priced from one entry and charged
// from the merged list.
var coinSetFields = []rangeInvoke{
	{"x/amm/types.MsgJoinPool.ValidateBasic", "github.com/cosmos/cosmos-sdk/types.Coins.Validate", "MaxAmountsIn",
		"JoinPoolNoSwap computes shares and the coins to charge with sdk.Coins set arithmetic on this list"},
}

func CheckCoinSetValidated(P *core.Program, R *core.Report, rule string) {
	for _, ri := range coinSetFields {
		en := P.Fn(ri.Entry)
		if en == nil {
			R.Add(rule, ri.Entry, "validates "+ri.Field+" as a coin set", "-", false, "unresolved anchor")
			continue
		}
		ok, why := invokesValidator(P, en, ri.Validator, ri.Field)
		R.Add(rule, ri.Entry, "validates "+ri.Field+" as a coin set", P.Pos(en.Pos()), ok, ri.Why+". "+why)
	}
}
