package rules

import (
	"fmt"
	"strings"

	"elyslint/core"
)

// Shared necessary conditions (DESIGN §10.7).  Some structural rules are a necessary
// condition of more than one property: the pool record a swap is priced against must be
// the stored one for the book to match the bank (C01) *and* for a route not to trade
// twice at one price (C03).  Such a rule is implemented once, under the property it was
// written for, and re-stated here under every other property it is necessary for, so that
// each property's own check reports its own violations.  A row is added only when a
// violation of the rule yields a concrete history that breaks the borrowing property;
// the reason is recorded with every obligation.
type sharedRule struct {
	From  string   // property whose checker implements the rule
	Rule  string   // rule name there
	As    string   // rule name under the borrowing property
	Funcs []string // keep only obligations whose function contains one of these (empty: all)
	Why   string
}

var sharedRules = map[string][]sharedRule{
	"C02": {
		{"C12", "C12-entry-removal", "C02-entry-removal", nil,
			"pool shares are held as committed-token entries; removing the wrong entry when another denom is emptied deletes an account's shares of a different pool from the ledger (committed sum < supply, and the owner cannot exit)"},
	},
	"C03": {
		{"C01", "C01-pool-fresh", "C03-pool-fresh", []string{"x/amm/keeper."},
			"a hop priced against a pool record read before an earlier hop changed it trades twice at one price: a route that revisits a pool gains more than the formula allows"},
		{"C01", "C01-bank-vs-book-cancel", "C03-settlement-vs-book", []string{"UpdatePoolForSwap"},
			"the coins leaving the pool address are exactly the quoted output booked against the reserves, and a bonus leaves the rebalance treasury, not the pool"},
		{"C01", "C01-bank-vs-book-error-gated", "C03-settlement-error-gated", []string{"UpdatePoolForSwap"},
			"a settlement leg whose bank transfer failed while the swap goes on to succeed hands the trader the output without the input (or books a payment that never arrived): a better-than-reference rate"},
	},
	"C05": {
		{"C11", "C11-amm-hook-coverage", "C05-accounted-refresh", nil,
			"oracle pools value a share from the accounted pool; if a join, exit or swap leaves it unrefreshed the next single-asset exit is paid against liquidity that is already gone"},
		{"C03", "C03-snapshot-role", "C05-snapshot-role", nil,
			"a join priced on the per-block snapshot instead of the live pool mints the second join of a block at the first one's price: more shares than the deposit is worth"},
		{"C11", "C11-formula", "C05-accounted-formula", nil,
			"oracle pools value shares (TVL) from the accounted balance amm + (liabilities − custody); a refresh that drops or clamps the signed non-amm part inflates TVL and single-asset exits overpay"},
		{"C02", "C02-supply-vs-totalshares-cancel", "C05-minted-is-computed", []string{"JoinPool", "ExitPool"},
			"the share amount minted (burned) is the amount computed from the deposit (withdrawal) and booked in TotalShares, not another value of the same type"},
		{"C02", "C02-supply-vs-totalshares-error-gated", "C05-minted-error-gated", []string{"JoinPool", "ExitPool", "ApplyJoin", "ApplyExit"},
			"a join whose deposit transfer or an exit whose share burn failed must not go on to mint shares or pay out: otherwise shares exist without the value that backs them and the other providers are diluted"},
		{"C03", "C03-range-enforced", "C05-range-enforced", nil,
			"the share-value bound of a single-asset join (C05-value) assumes the same fee and weight ranges: a pool created with a negative swap fee credits more than the deposit, i.e. mints more shares than the value added"},
		{"C01", "C01-pool-fresh", "C05-pool-fresh", []string{"JoinPool", "ExitPool", "ApplyJoin", "ApplyExit"},
			"a join or exit valued against a pool record that an earlier step already changed mis-states the share value"},
	},
	"C07": {
		{"C06", "C06-ledger-cancel", "C07-value-ledger", nil,
			"TotalValue is what a share redeems against: an update that moves it without the matching cash or debt change (a write-down skipped when the vault empties, a write-up without a deposit) changes every other lender's redemption value"},
		{"C06", "C06-fresh-writeback", "C07-fresh-writeback", nil,
			"a debt or vault record written back from a copy taken before a callee accrued interest on the stored one loses that accrual on the debt while TotalValue keeps it: the next accrual books the same interest again and the redemption value exceeds cash plus loans (the last lender cannot redeem)"},
		{"C06", "C06-ledger-error-gated", "C07-value-error-gated", nil,
			"a deposit or repayment whose transfer failed but whose value update went through raises the redemption value without cash behind it"},
		{"C06", "C06-ledger-assign", "C07-value-assign", nil,
			"a plain overwrite of TotalValue (e.g. from the stale copy carried in a parameter-change message) wipes deposits, withdrawals and accrued interest from the value shares redeem against"},
		{"C06", "C06-interest-record", "C07-interest-record", nil,
			"interest is charged from per-block running sums; a missing block record makes the difference of two sums a difference of two rates, negative after a rate cut, and TotalValue (the redemption value) falls on another user's repay"},
	},
	"C09": {
		{"C11", "C11-amm-hook-coverage", "C09-hook-after-store", nil,
			"the perpetual hook re-reads the amm pool from the store for its minimum-custody check: if the amm pool is stored only after the After* hook runs, the check compares custody with the balances from before the exit or swap and never refuses"},
	},
	"C10": {
		{"C09", "C09-mtp-fresh", "C10-mtp-fresh", nil,
			"a third-party close judged on a position copy taken before an earlier step of the same message settled interest or closed it acts on a health / custody that is no longer the position's: a healthy position is force-closed, or one position is paid out twice"},
		{"C08", "C08-position-fresh", "C10-position-fresh", nil,
			"the same for leveraged-LP positions: liquidation and stop-loss are decided on the stored position, not on a memoised copy"},
	},
	"C20": {
		{"C17", "C17-forward", "C20-owner-forward", []string{"x/tradeshield/"},
			"a batch handler that acts through the single-order handler must hand on the caller's own address: forwarding the stored owner instead makes the callee's owner check compare the owner with itself, and anyone can cancel (and so release the escrow of) another account's order"},
	},
	"C11": {
		{"C09", "C09-pool-persisted", "C11-perp-pool-persisted", nil,
			"the accounted balance is refreshed from the in-memory perpetual pool; if that pool's liabilities or custody change is not stored the block ends with accounted ≠ reserve + stored liabilities − stored custody"},
	},
	"C13": {
		{"C11", "C11-amm-hook-coverage", "C13-share-change-hook", nil,
			"masterchef settles a user's reward debt in the AfterJoinPool / AfterExitPool hooks; a join that mints shares without running the hook leaves the debt stale and the new shares are credited the pool's whole reward history (more than was collected)"},
	},
	"C15": {
		{"C02", "C02-supply-vs-committed-cancel", "C15-share-mint-credited", nil,
			"share tokens are minted in exactly the amount credited to the depositor in the commitment ledger; minting the deposit amount while crediting the share amount creates unbacked share tokens whenever the rate is not 1"},
		{"C02", "C02-supply-vs-totalshares-cancel", "C15-share-mint-backed", nil,
			"share tokens are bank-minted and burned only in the amount booked against the deposit or withdrawal"},
		{"C02", "C02-supply-vs-committed-error-gated", "C15-share-mint-error-gated", nil,
			"share tokens minted while their crediting to the depositor failed (or credited while the mint failed) exist outside the ledger that accounts for them"},
		{"C14", "C14-claim", "C15-vesting-claim", nil,
			"native tokens are minted only for VestedSoFar − ClaimedAmount and the claimed amount advances with every payout, so one tranche is not minted twice"},
		{"C14", "C14-vest", "C15-vesting-open", nil,
			"a schedule's total is created only against Eden given up in the same step and stored on the same record: raising a total without the deduction being stored mints native tokens later that no reward token paid for"},
		{"C14", "C14-cancel", "C15-vesting-cancel", nil,
			"a cancel returns at most the not-yet-released part, so released plus returned never exceeds what was put into vesting (native supply grows only by vesting releases)"},
	},
	"C17": {
		{"C16", "C16-feeder-removed", "C17-removal-effective", nil,
			"a governance decision to remove a price feeder must take effect: if the record survives (deactivated), the removed account undoes the decision with its own MsgSetPriceFeeder and writes prices again — the governance-only message was effectively overruled by a non-authority"},
	},
	"C18": {
		{"C04", "C04-batch", "C18-queue-progress", nil,
			"the end-blocker drains the swap queue in a loop that ends when it is empty: a request must be deleted on the block context whether or not its swap succeeded, or EndBlock never returns"},
	},
}

// runShared re-states the shared rules of prop (see sharedRules) in R.
func runShared(prop string, P *core.Program, R *core.Report) {
	rows := sharedRules[prop]
	if len(rows) == 0 {
		return
	}
	scratch := map[string]*core.Report{}
	for _, row := range rows {
		S := scratch[row.From]
		if S == nil {
			S = core.NewReport(row.From, R.Tier)
			func() {
				defer func() {
					if e := recover(); e != nil {
						R.Undecided("analyser-panic", "-", fmt.Sprint("shared ", row.From, ": ", e), "-", "the analyser panicked; no verdict")
					}
				}()
				Get(row.From)(P, S)
			}()
			scratch[row.From] = S
		}
		n := 0
		for _, o := range S.Obls {
			if o.Rule != row.Rule {
				continue
			}
			keep := len(row.Funcs) == 0
			for _, f := range row.Funcs {
				if strings.Contains(o.Func, f) {
					keep = true
				}
			}
			if !keep {
				continue
			}
			n++
			detail := o.Detail + " [shared with " + row.Rule + ": " + row.Why + "]"
			switch o.Status {
			case "discharged":
				R.Add(row.As, o.Func, o.Construct, o.Pos, true, detail)
			case "violated":
				R.Add(row.As, o.Func, o.Construct, o.Pos, false, detail)
			default:
				R.Undecided(row.As, o.Func, o.Construct, o.Pos, detail)
			}
		}
		if n == 0 {
			R.Undecided(row.As, "-", "no instance of "+row.Rule, "-", "the shared rule matched nothing in this tree; no verdict")
		}
	}
}
