package rules

import (
	"os"
	"fmt"
	"math/big"
	"go/token"
	"sort"
	"strings"

	"elyslint/core"

	"golang.org/x/tools/go/ssa"
)

func init() { register("C12", checkC12) }

func checkC12(P *core.Program, R *core.Report) {
	R.Explanation = "Linear invariant commitment Params.TotalCommitted − Σ accounts' CommittedTokens = 0 decided for every consensus-reachable function: read-modify-write updates of TotalCommitted (including the saturating helper subTotalCommitted(old, coins), whose body shape is checked) and calls of " +
		"Commitments.AddCommittedTokens / DeductFromCommitted on the same success paths must cancel symbolically (coins are projected to their amounts; denoms are not distinguished). Custody: transfers into/out of the commitment module account must cancel with committed ± and claimed ± on the same paths (bank-backed part). " +
		"Lock-ups: in DeductFromCommitted every success exit carries ¬(new amount < 0) and ¬(still-locked > new amount), a lock-up is kept only under (unlock > now ∧ ¬isLiquidation); the constant true reaches the isLiquidation parameter only from the leveragelp liquidation function. Known finding F-12a is reported as such."
	subjects := P.Reach(P.FindRoots().Consensus())
	spec := &LedgerSpec{
		Property: "C12", Rule: "C12-total",
		Fields: []FieldLedger{
			{Pkg: "x/commitment/types", Type: "Params", Field: "TotalCommitted", Ledger: "TotalCommitted", Persist: "x/commitment/keeper.Keeper.SetParams"},
		},
		Calls: []CallLedger{
			{Callee: "x/commitment/types.Commitments.AddCommittedTokens", Ledger: "Committed", Sign: 1, AmtArg: 2, AmtRes: -1},
			{Callee: "x/commitment/types.Commitments.DeductFromCommitted", Ledger: "Committed", Sign: -1, AmtArg: 2, AmtRes: -1},
		},
		SubHelpers: map[string]int{"x/commitment/keeper.subTotalCommitted": -1},
		Coeff:      map[string]int{"TotalCommitted": 1, "Committed": -1},
		Helpers:    map[string]string{},
		AssignOK:   map[string]string{},
		Exempt:     map[string]string{},
		Subjects:   subjects,
	}
	CheckLedgers(P, R, spec)

	custody := &LedgerSpec{
		Property: "C12", Rule: "C12-custody",
		Calls: []CallLedger{
			{Callee: "x/commitment/types.Commitments.AddCommittedTokens", Ledger: "Committed", Sign: 1, AmtArg: 2, AmtRes: -1},
			{Callee: "x/commitment/types.Commitments.DeductFromCommitted", Ledger: "Committed", Sign: -1, AmtArg: 2, AmtRes: -1},
			{Callee: "x/commitment/types.Commitments.AddClaimed", Ledger: "Claimed", Sign: 1, AmtArg: 1, AmtRes: -1},
			{Callee: "x/commitment/types.Commitments.SubClaimed", Ledger: "Claimed", Sign: -1, AmtArg: 1, AmtRes: -1},
		},
		Bank: func(P *core.Program, ff *core.FuncFacts, c ssa.CallInstruction, from, to, coins ssa.Value) (string, string) {
			fl, tl := "", ""
			if isModuleAccount(ff, from, "commitment") {
				fl = "Custody"
			}
			if isModuleAccount(ff, to, "commitment") {
				tl = "Custody"
			}
			return fl, tl
		},
		Coeff:    map[string]int{"Custody": 1, "Committed": -1, "Claimed": -1},
		Helpers:  map[string]string{},
		AssignOK: map[string]string{},
		Exempt:   map[string]string{},
		Subjects: subjects,
		// anchored: the one place where committing moves real tokens into custody
		OnlyFuncs: []string{"x/commitment/keeper.Keeper.CommitLiquidTokens"},
	}
	CheckLedgers(P, R, custody)
	checkUncommitOrder(P, R)
	checkSubTotalShape(P, R)
	checkAddCommittedShape(P, R)
	checkDeductGuards(P, R)
	checkEntryRemoval(P, R)
	checkLockupSet(P, R)
	checkLiquidationFlag(P, R)
	checkSnapshotWriteBack(P, R, "C12-fresh-writeback", subjects, "x/commitment/keeper.Keeper.GetParams", "x/commitment/keeper.Keeper.SetParams")
	// the per-account record: a Commitments snapshot written back after a call (a hook, a
	// callee) that loads and stores the same account's record itself discards that update
	checkSnapshotWriteBack(P, R, "C12-fresh-writeback", subjects, "x/commitment/keeper.Keeper.GetCommitments", "x/commitment/keeper.Keeper.SetCommitments")
}

// checkSubTotalShape: subTotalCommitted(total, coins) subtracts, per coin,
// Min(coin.Amount, total.AmountOf(coin.Denom)) — the saturating form of −coins.
func checkSubTotalShape(P *core.Program, R *core.Report) {
	const key = "x/commitment/keeper.subTotalCommitted"
	fn := P.Fn(key)
	if fn == nil {
		R.Add("C12-helper-shape", key, "function", "-", false, "unresolved anchor")
		return
	}
	ff := P.Facts(fn)
	nSub, bad := 0, ""
	for _, c := range core.Calls(fn) {
		sc := c.Common().StaticCallee()
		if sc == nil || sc.Signature.Recv() == nil || core.NamedName(sc.Signature.Recv().Type()) != "Coins" {
			continue
		}
		switch sc.Name() {
		case "Sub":
			nSub++
			els, ok := core.SliceLiteral(ff.Fwd(c.Common().Args[1]))
			if !ok || len(els) != 1 {
				bad = "Sub argument is not a single coin"
				continue
			}
			nc, _ := ff.Fwd(els[0]).(*ssa.Call)
			if nc == nil || core.CalleeName(nc.Common()) != "NewCoin" {
				bad = "Sub argument is not NewCoin(denom, amount)"
				continue
			}
			mn, _ := ff.Fwd(nc.Common().Args[1]).(*ssa.Call)
			if mn == nil || core.CalleeName(mn.Common()) != "MinInt" {
				bad = "subtracted amount is not MinInt(coin.Amount, total.AmountOf(denom))"
			}
		case "AmountOf", "Len", "IsZero", "Empty":
		default:
			bad = "unexpected Coins operation " + sc.Name()
		}
	}
	R.Add("C12-helper-shape", key, "saturating −coins", P.Pos(fn.Pos()), nSub == 1 && bad == "", "subTotalCommitted must subtract Min(coin, total) per coin and nothing else. "+bad)
}

// checkDeductGuards: R3 inside Commitments.DeductFromCommitted.
func checkDeductGuards(P *core.Program, R *core.Report) {
	const key = "x/commitment/types.Commitments.DeductFromCommitted"
	fn := P.Fn(key)
	if fn == nil {
		R.Add("C12-deduct-guard", key, "function", "-", false, "unresolved anchor")
		return
	}
	ff := P.Facts(fn)
	// the store that lowers the committed amount: CommittedTokens[i].Amount = NEW
	var upd *ssa.Store
	for _, b := range fn.Blocks {
		for _, in := range b.Instrs {
			if st, ok := in.(*ssa.Store); ok {
				if fa, ok := st.Addr.(*ssa.FieldAddr); ok && core.FieldName(fa.X.Type(), fa.Field) == "Amount" {
					for _, o := range ff.Origins(fa.X) {
						if strings.Contains(o.Path, "CommittedTokens") {
							upd = st
						}
					}
				}
			}
		}
	}
	if upd == nil {
		R.Add("C12-deduct-guard", key, "amount update", P.Pos(fn.Pos()), false, "no store to CommittedTokens[i].Amount found (anchor changed)")
		return
	}
	newP := ff.PolyOf(upd.Val)
	// comparisons may read the stored amount back (a load of the updated location after the
	// store) or use the value that was stored; both are NEW
	diff := func(a *core.Atom) *core.Poly {
		ff.LeafKey = func(v ssa.Value) (string, bool) {
			if ld, ok := v.(*ssa.UnOp); ok && ld.Op == token.MUL {
				if os.Getenv("ELYSLINT_POLY_DEBUG") != "" {
					fmt.Fprintf(os.Stderr, "   leaf %s: same=%v dom=%v\n", ld, sameLocation(ff, ld.X, upd.Addr), core.Dominates(upd, ld))
				}
			}
			if ld, ok := v.(*ssa.UnOp); ok && ld.Op == token.MUL && sameLocation(ff, ld.X, upd.Addr) && core.Dominates(upd, ld) {
				return "@NEW", true
			}
			return "", false
		}
		defer func() { ff.LeafKey = nil }()
		var pa, pb *core.Poly
		if a.A == core.ZeroMarker {
			pa = core.ParsePoly("")
		} else {
			pa = ff.PolyOf(a.A)
		}
		if a.B == core.ZeroMarker {
			pb = core.ParsePoly("")
		} else {
			pb = ff.PolyOf(a.B)
		}
		d := pb.Sub(pa)
		if c, ok := d.T["@NEW"]; ok {
			k := new(big.Rat).Set(c)
			delete(d.T, "@NEW")
			d = d.Add(newP.Mul(core.ConstPoly(k)))
		}
		return d
	}
	numeric := func(v ssa.Value) bool {
		return v == core.ZeroMarker || (v != nil && v != core.NilMarker && core.IsMathType(v.Type()))
	}
	n := 0
	for _, ex := range ff.Exits() {
		if ex.Kind != core.ExitSuccess {
			continue
		}
		n++
		nonNeg, lockOK := false, false
		for _, a := range ff.At(ex.Instr) {
			if (a.Rel != core.LE && a.Rel != core.LT && a.Rel != core.EQ) || !numeric(a.A) || !numeric(a.B) {
				continue
			}
			d := diff(a) // the fact says d ≥ 0
			if os.Getenv("ELYSLINT_POLY_DEBUG") != "" {
				fmt.Fprintf(os.Stderr, "c12 exit %s: atom %s => d=%s new=%s\n", P.Pos(P.InstrPos(ex.Instr)), ff.AtomString(a), d, newP)
			}
			// NEW ≥ 0 (written as ¬(NEW < 0), ¬(old < amount), NEW == 0 …)
			if d.ProportionalTo(newP) {
				nonNeg = true
			}
			// NEW − locked ≥ 0 where locked is one accumulated value (the sum over kept lock-ups)
			rest := newP.Sub(d)
			if a.Rel != core.EQ && len(rest.T) == 1 {
				for m, c := range rest.T {
					if lv, isLeaf := rest.Leaf[m]; isLeaf && c.Cmp(big.NewRat(1, 1)) == 0 && lv != nil {
						switch ff.Fwd(lv).(type) {
						case *ssa.Phi, *ssa.Extract, *ssa.Call:
							lockOK = true
						}
					}
				}
			}
		}
		R.Add("C12-deduct-guard", key, "success exit", P.Pos(P.InstrPos(ex.Instr)), nonNeg && lockOK,
			"a successful deduction requires the new amount to be non-negative and not below the still-locked amount")
	}
	if n == 0 {
		R.Add("C12-deduct-guard", key, "success exit", P.Pos(fn.Pos()), false, "no success exit (anchor changed)")
	}
	// lock-ups are dropped only when expired or under isLiquidation: the append that keeps a
	// lock-up is guarded by unlock > currTime ∧ ¬isLiquidation, and the locked sum uses the same guard
	keep := 0
	for _, c := range core.Calls(fn) {
		if b, ok := c.Common().Value.(*ssa.Builtin); !ok || b.Name() != "append" {
			continue
		}
		if !strings.Contains(c.Common().Args[0].Type().String(), "Lockup") {
			continue
		}
		// appends of Lockup values (not the CommittedTokens slice)
		if strings.Contains(c.Common().Args[0].Type().String(), "CommittedTokens") {
			continue
		}
		keep++
		timeOK, liqOK := false, false
		for _, a := range ff.At(c) {
			if a.Rel == core.LT && a.B != nil {
				if p, ok := ff.Fwd(a.A).(*ssa.Parameter); ok && p.Name() == "currTime" {
					for _, o := range ff.Origins(a.B) {
						if strings.HasSuffix(o.Path, ".UnlockTimestamp") {
							timeOK = true
						}
					}
				}
			}
			if a.Rel == core.FALSE {
				if p, ok := ff.Fwd(a.A).(*ssa.Parameter); ok && p.Name() == "isLiquidation" {
					liqOK = true
				}
			}
		}
		R.Add("C12-deduct-guard", key, "lock-up kept", P.Pos(P.InstrPos(c)), timeOK && liqOK, "a lock-up stays (and counts as locked) exactly when unlock > now and the call is not a liquidation")
	}
	if keep == 0 {
		R.Add("C12-deduct-guard", key, "lock-up kept", P.Pos(fn.Pos()), false, "no lock-up retention found (anchor changed)")
	}
}

// checkLiquidationFlag: where does `true` enter the isLiquidation parameter chain?
func checkLiquidationFlag(P *core.Program, R *core.Report) {
	allowed := map[string]string{
		"x/leveragelp/keeper.Keeper.CheckAndLiquidateUnhealthyPosition": "liquidation of an unhealthy position (guard decided by C10)",
	}
	start := P.Fn("x/commitment/types.Commitments.DeductFromCommitted")
	if start == nil {
		R.Add("C12-liquidation-flag", "x/commitment/types.Commitments.DeductFromCommitted", "function", "-", false, "unresolved anchor")
		return
	}
	type pr struct {
		fn  *ssa.Function
		idx int
	}
	seen := map[pr]bool{}
	sources := map[string]string{} // caller key → pos
	nonConst := map[string]string{}
	var walk func(fn *ssa.Function, idx int)
	walk = func(fn *ssa.Function, idx int) {
		if seen[pr{fn, idx}] {
			return
		}
		seen[pr{fn, idx}] = true
		for _, e := range P.CG().In[fn] {
			c, ok := e.Site.(ssa.CallInstruction)
			if !ok {
				continue
			}
			cc := c.Common()
			ai := idx
			if cc.IsInvoke() {
				ai = idx - 1
			}
			if ai < 0 || ai >= len(cc.Args) {
				continue
			}
			ff := P.Facts(e.Caller)
			for _, o := range ff.Origins(cc.Args[ai]) {
				switch o.Kind {
				case "const":
					if o.Name == "true" {
						sources[P.Key(e.Caller)] = P.Pos(P.InstrPos(e.Site))
					}
				case "param":
					for i, p := range e.Caller.Params {
						if ssa.Value(p) == o.Val {
							walk(e.Caller, i)
						}
					}
				default:
					nonConst[P.Key(e.Caller)] = P.Pos(P.InstrPos(e.Site)) + " (" + o.String() + ")"
				}
			}
		}
	}
	// isLiquidation is the last parameter of DeductFromCommitted
	walk(start, len(start.Params)-1)
	var keys []string
	for k := range sources {
		keys = append(keys, k)
	}
	sort.Strings(keys)
	for _, k := range keys {
		why, ok := allowed[k]
		R.Add("C12-liquidation-flag", k, "passes isLiquidation = true", sources[k], ok, "only a liquidation may override a lock-up. "+why)
	}
	for k, pos := range nonConst {
		R.Add("C12-liquidation-flag", k, "computed isLiquidation", pos, false, "the lock override flag is computed at run time instead of being a constant / forwarded parameter")
	}
	for k := range allowed {
		if _, ok := sources[k]; !ok {
			R.Add("C12-liquidation-flag", k, "passes isLiquidation = true", "-", false, "frozen liquidation source no longer passes true (anchor changed)")
		}
	}
	R.Analysed["isLiquidation_param_chain"] = len(seen)
}

// checkUncommitOrder: in Keeper.UncommitTokens the custody release (module → account) is
// reached only after a successful DeductFromCommitted, pays `addr`, and the coins paid are
// built from the (denom, amount) parameters only.
func checkUncommitOrder(P *core.Program, R *core.Report) {
	const key = "x/commitment/keeper.Keeper.UncommitTokens"
	fn := P.Fn(key)
	if fn == nil {
		R.Add("C12-uncommit-order", key, "function", "-", false, "unresolved anchor")
		return
	}
	ff := P.Facts(fn)
	var deduct ssa.CallInstruction
	for _, c := range core.Calls(fn) {
		if calleeMatches(P, c, "x/commitment/types.Commitments.DeductFromCommitted") {
			deduct = c
		}
	}
	n := 0
	for _, c := range core.Calls(fn) {
		if P.EffectOf(c) != core.EffBankSend {
			continue
		}
		n++
		from, to, coins := bankEnds(c)
		ok := deduct != nil && core.Dominates(deduct, c) && isModuleAccount(ff, from, "commitment")
		// deduct's error must be nil here
		errNil := false
		if deduct != nil {
			for _, a := range ff.At(c) {
				if a.Rel == core.EQ && a.B == core.NilMarker && ff.Fwd(a.A) == ssa.Value(deduct.(*ssa.Call)) {
					errNil = true
				}
			}
		}
		toOK := ff.AllOrigins(to, nil, func(o core.Origin) bool { return o.Kind == "param" && o.Name == "addr" })
		// in every way the released coins can come about they are the uncommitted amount
		// (or nothing, for the denoms that stay in the claimed bucket)
		amtOK := true
		for _, vc := range ff.CasesOf(coins, c, 3) {
			for t := range ff.LinOf(vc.Val) {
				if t != "amount" { // (the amount algebra does not distinguish denoms)
					amtOK = false
				}
			}
		}
		R.Add("C12-uncommit-order", key, "custody release", P.Pos(P.InstrPos(c)), ok && errNil && toOK && amtOK,
			"tokens leave custody only after DeductFromCommitted succeeded, to the uncommitting account, in the uncommitted amount")
	}
	if n == 0 {
		R.Add("C12-uncommit-order", key, "custody release", P.Pos(fn.Pos()), false, "no custody release found (anchor changed)")
	}
}

// checkAddCommittedShape: body shape of Commitments.AddCommittedTokens — the committed
// amount grows by `amount` on both branches, and lock-up amounts are only ever written
// as `amount` into a fresh Lockup literal or as old.Add(amount) on an existing one.
func checkAddCommittedShape(P *core.Program, R *core.Report) {
	const key = "x/commitment/types.Commitments.AddCommittedTokens"
	fn := P.Fn(key)
	if fn == nil {
		R.Add("C12-helper-shape", key, "function", "-", false, "unresolved anchor")
		return
	}
	ff := P.Facts(fn)
	amount := ssa.Value(fn.Params[2])
	unlock := ssa.Value(fn.Params[3])
	bad := ""
	nAmt, nLock := 0, 0
	amtStores := map[ssa.Instruction]bool{}
	for _, b := range fn.Blocks {
		for _, in := range b.Instrs {
			st, ok := in.(*ssa.Store)
			if !ok {
				continue
			}
			fa, ok := st.Addr.(*ssa.FieldAddr)
			if !ok || core.FieldName(fa.X.Type(), fa.Field) != "Amount" {
				continue
			}
			owner := core.NamedName(fa.X.Type())
			_, fresh := fa.X.(*ssa.Alloc)
			if ia, ok := fa.X.(*ssa.IndexAddr); ok {
				// an element of a slice / array literal built here
				if _, isArr := ia.X.(*ssa.Alloc); isArr {
					fresh = true
				}
			}
			val := ff.Fwd(st.Val)
			isAdd := false
			if call, ok := val.(*ssa.Call); ok && call.Common().StaticCallee() != nil && call.Common().StaticCallee().Name() == "Add" && len(call.Common().Args) == 2 {
				isAdd = ff.Fwd(call.Common().Args[1]) == amount
			}
			switch owner {
			case "CommittedTokens":
				nAmt++
				amtStores[in] = true
				if !(fresh && val == amount) && !isAdd {
					bad = "CommittedTokens.Amount is not set to amount (new entry) / old.Add(amount) (existing entry) at " + P.Pos(P.InstrPos(in))
				}
			case "Lockup":
				nLock++
				if !(fresh && val == amount) && !isAdd {
					bad = "Lockup.Amount of an existing lock-up is overwritten instead of increased at " + P.Pos(P.InstrPos(in))
				}
				if fresh {
					// a new lock-up is only recorded under unlockTime != 0 and carries unlockTime
					okT := false
					for _, a := range ff.At(in) {
						if a.Rel == core.NE && ff.Fwd(a.A) == unlock {
							okT = true
						}
					}
					if !okT {
						bad = "a lock-up is recorded without the unlockTime != 0 guard at " + P.Pos(P.InstrPos(in))
					}
				}
			}
		}
	}
	// every way through the function adds the amount once: no exit is reachable without a
	// committed-amount write (found branch and append branch alike)
	if _, skip := ff.SuccessExitReachableWithout(nil, func(in ssa.Instruction) bool { return amtStores[in] }); skip && bad == "" {
		bad = "a path returns without adding amount to a committed entry"
	}
	R.Add("C12-helper-shape", key, "+amount on both branches; lock-ups", P.Pos(fn.Pos()), bad == "" && nAmt >= 1 && nLock >= 1,
		"AddCommittedTokens must add amount to the committed entry (existing or new) and record a lock-up of exactly amount when unlockTime != 0. "+bad)
}

// removeAtIndex recognises the slice-entry removal idiom append(s[:i], s[i+1:]...) and
// returns the address the slice was loaded from and the index value i.
func removeAtIndex(ff *core.FuncFacts, v ssa.Value) (loc ssa.Value, idx ssa.Value, ok bool) {
	c, isCall := ff.Fwd(v).(*ssa.Call)
	if !isCall {
		return nil, nil, false
	}
	plusOne := func(hi, lo ssa.Value) bool { // hi == lo + 1
		bo, isBo := ff.Fwd(hi).(*ssa.BinOp)
		if !isBo || bo.Op != token.ADD {
			return false
		}
		k, isK := bo.Y.(*ssa.Const)
		return isK && k.Value != nil && k.Value.ExactString() == "1" && ff.Fwd(bo.X) == ff.Fwd(lo)
	}
	// slices.Delete(s, i, i+1)
	if sc := c.Common().StaticCallee(); sc != nil && sc.Pkg != nil && sc.Pkg.Pkg.Path() == "slices" && strings.HasPrefix(sc.Name(), "Delete") && len(c.Common().Args) == 3 {
		ld, okL := c.Common().Args[0].(*ssa.UnOp)
		if okL && ld.Op == token.MUL && plusOne(c.Common().Args[2], c.Common().Args[1]) {
			return ld.X, ff.Fwd(c.Common().Args[1]), true
		}
		return nil, nil, false
	}
	if core.CalleeName(c.Common()) != "append" || len(c.Common().Args) != 2 {
		return nil, nil, false
	}
	head, ok1 := ff.Fwd(c.Common().Args[0]).(*ssa.Slice)
	tail, ok2 := ff.Fwd(c.Common().Args[1]).(*ssa.Slice)
	if !ok1 || !ok2 || head.Low != nil || head.High == nil || tail.High != nil || tail.Low == nil {
		return nil, nil, false
	}
	lh, okh := head.X.(*ssa.UnOp)
	lt, okt := tail.X.(*ssa.UnOp)
	if !okh || !okt || lh.Op != token.MUL || lt.Op != token.MUL || !sameLocation(ff, lh.X, lt.X) {
		return nil, nil, false
	}
	bo, isBo := ff.Fwd(tail.Low).(*ssa.BinOp)
	if !isBo || bo.Op != token.ADD {
		return nil, nil, false
	}
	k, isK := bo.Y.(*ssa.Const)
	if !isK || k.Value == nil || k.Value.ExactString() != "1" || ff.Fwd(bo.X) != ff.Fwd(head.High) {
		return nil, nil, false
	}
	return lh.X, ff.Fwd(head.High), true
}

// checkEntryRemoval (C12-entry-removal): DeductFromCommitted drops a committed-token entry
// only by removing the element it has just emptied: every store that replaces
// c.CommittedTokens is append(tokens[:i], tokens[i+1:]...) with i the very index whose
// Amount was lowered.  Dropping any other element (the last one, say) deletes another
// denom's committed balance from the account while the chain-wide total and the custody
// keep it.
func checkEntryRemoval(P *core.Program, R *core.Report) {
	const rule = "C12-entry-removal"
	const key = "x/commitment/types.Commitments.DeductFromCommitted"
	fn := P.Fn(key)
	if fn == nil {
		R.Add(rule, key, "function", "-", false, "unresolved anchor")
		return
	}
	ff := P.Facts(fn)
	// index of the element whose Amount is lowered
	var updIdx ssa.Value
	for _, b := range fn.Blocks {
		for _, in := range b.Instrs {
			st, ok := in.(*ssa.Store)
			if !ok {
				continue
			}
			fa, ok := st.Addr.(*ssa.FieldAddr)
			if !ok || core.FieldName(fa.X.Type(), fa.Field) != "Amount" {
				continue
			}
			x := fa.X
			if ld, ok := x.(*ssa.UnOp); ok && ld.Op == token.MUL {
				x = ld.X // a slice of pointers: the element is loaded first
			}
			if ia, ok := x.(*ssa.IndexAddr); ok {
				updIdx = ff.Fwd(ia.Index)
			}
		}
	}
	n := 0
	for _, b := range fn.Blocks {
		for _, in := range b.Instrs {
			st, ok := in.(*ssa.Store)
			if !ok {
				continue
			}
			fa, ok := st.Addr.(*ssa.FieldAddr)
			if !ok || core.FieldName(fa.X.Type(), fa.Field) != "CommittedTokens" {
				continue
			}
			n++
			loc, idx, isRm := removeAtIndex(ff, st.Val)
			if os.Getenv("ELYSLINT_POLY_DEBUG") != "" {
				fmt.Fprintf(os.Stderr, "c12 removal: val=%s fwd=%s isRm=%v idx=%v updIdx=%v\n", st.Val, ff.Fwd(st.Val), isRm, idx, updIdx)
			}
			good := isRm && updIdx != nil && idx == updIdx && sameLocation(ff, loc, st.Addr)
			R.Add(rule, key, "replacement of CommittedTokens", P.Pos(P.InstrPos(st)), good,
				"the list may only shrink by removing the element whose amount was just lowered: append(tokens[:i], tokens[i+1:]...) with the same i")
		}
	}
	if n == 0 {
		R.Add(rule, key, "replacement of CommittedTokens", P.Pos(fn.Pos()), true, "the list is never replaced (emptied entries stay as zero entries)")
	}
}

// checkLockupSet (C12-lockup-set): shares of an oracle pool are committed under a one-hour
// lock.  In MintPoolShareToAccount the lock argument of CommitLiquidTokens may be zero only
// on paths where the pool THE SHARES ARE MINTED FOR (the parameter) is not an oracle pool —
// not where some other lookup (the stored pool, which does not exist yet when CreatePool
// mints the creator's shares) says so.
func checkLockupSet(P *core.Program, R *core.Report) {
	const rule = "C12-lockup-set"
	const key = "x/amm/keeper.Keeper.MintPoolShareToAccount"
	fn := P.Fn(key)
	if fn == nil {
		R.Add(rule, key, "function", "-", false, "unresolved anchor")
		return
	}
	ff := P.Facts(fn)
	n := 0
	for _, c := range core.Calls(fn) {
		if core.CalleeName(c.Common()) != "CommitLiquidTokens" {
			continue
		}
		args := c.Common().Args
		lock := args[len(args)-1]
		n++
		bad := ""
		nonZero := 0
		for _, vc := range ff.CasesOf(lock, nil, 3) {
			k, isConst := vc.Val.(*ssa.Const)
			if !isConst || k.Value == nil || k.Value.ExactString() != "0" {
				nonZero++
				continue
			}
			ok := false
			for _, a := range vc.Facts {
				if a.Rel != core.FALSE {
					continue
				}
				for _, o := range ff.Origins(a.A) {
					// the parameter, or its spill slot when a pointer-receiver method is called on it
					if (o.Kind == "param" || o.Kind == "local") && len(fn.Params) > 2 && o.Name == fn.Params[2].Name() && strings.HasSuffix(o.Path, ".PoolParams.UseOracle") {
						ok = true
					}
				}
			}
			if !ok {
				bad = "the lock is zero on a path that does not establish that the pool handed in is not an oracle pool"
			}
		}
		if nonZero == 0 {
			bad = "no path commits the shares under a lock"
		}
		R.Add(rule, key, "lock-up of minted shares", P.Pos(P.InstrPos(c.(ssa.Instruction))), bad == "", "oracle-pool shares are committed with a lock; "+bad)
	}
	if n == 0 {
		R.Add(rule, key, "CommitLiquidTokens", P.Pos(fn.Pos()), false, "commit call not found (anchor changed)")
	}
}
