package rules

import (
	"strings"

	"elyslint/core"

	"golang.org/x/tools/go/ssa"
)

func init() { register("C06", checkC06) }

// constString returns the value of a string constant (possibly through conversions).
func constString(ff *core.FuncFacts, v ssa.Value) (string, bool) {
	v = ff.Fwd(v)
	for {
		if cv, ok := v.(*ssa.Convert); ok {
			v = ff.Fwd(cv.X)
			continue
		}
		break
	}
	if c, ok := v.(*ssa.Const); ok && c.Value != nil && c.Value.Kind().String() == "String" {
		s := c.Value.ExactString()
		if len(s) >= 2 {
			return s[1 : len(s)-1], true
		}
	}
	return "", false
}

// isModuleAccount: the value denotes the module account of `module` — the constant module
// name (bank module-name parameters) or authtypes.NewModuleAddress(const).
func isModuleAccount(ff *core.FuncFacts, v ssa.Value, module string) bool {
	if s, ok := constString(ff, v); ok {
		return s == module
	}
	return ff.AllOrigins(v, nil, func(o core.Origin) bool {
		if o.Kind != "call" || !strings.HasSuffix(o.Name, "auth/types.NewModuleAddress") {
			return false
		}
		call, _ := o.Val.(*ssa.Call)
		if call == nil || len(call.Common().Args) != 1 {
			return false
		}
		s, ok := constString(ff, call.Common().Args[0])
		return ok && s == module
	})
}

// coinDenoms collects the denom expressions of a coins argument: for every coin element
// either the denom operand of NewCoin or the coin value itself (for parameters).
func coinDenomValues(ff *core.FuncFacts, coins ssa.Value) (denoms []ssa.Value, wholeCoins []ssa.Value) {
	var els []ssa.Value
	v := ff.Fwd(coins)
	if e, ok := core.SliceLiteral(v); ok {
		els = e
	} else if call, ok := v.(*ssa.Call); ok && core.CalleeName(call.Common()) == "NewCoins" && len(call.Common().Args) == 1 {
		if e, ok := core.SliceLiteral(ff.Fwd(call.Common().Args[0])); ok {
			els = e
		} else {
			els = []ssa.Value{call.Common().Args[0]}
		}
	} else {
		els = []ssa.Value{v}
	}
	for _, e := range els {
		e = ff.Fwd(e)
		if call, ok := e.(*ssa.Call); ok && core.CalleeName(call.Common()) == "NewCoin" && len(call.Common().Args) == 2 {
			denoms = append(denoms, call.Common().Args[0])
			continue
		}
		// coins.Find(d) hands back the coin of denom d (its second result)
		if ex, ok := e.(*ssa.Extract); ok && ex.Index == 1 {
			if call, ok := ex.Tuple.(*ssa.Call); ok && core.CalleeName(call.Common()) == "Find" && len(call.Common().Args) == 2 &&
				call.Common().StaticCallee() != nil && call.Common().StaticCallee().Signature.Recv() != nil && core.NamedName(call.Common().StaticCallee().Signature.Recv().Type()) == "Coins" {
				denoms = append(denoms, call.Common().Args[1])
				continue
			}
		}
		wholeCoins = append(wholeCoins, e)
	}
	return
}

// denomIs decides whether every coin of the argument has a denom produced by a call whose
// key ends in producerSuffix — directly (NewCoin(d, …)) or through a must-hold equality
// between coin.Denom and such a value at the instruction.
func denomIs(ff *core.FuncFacts, at ssa.Instruction, coins ssa.Value, producerSuffix string) bool {
	isProd := func(v ssa.Value) bool {
		return ff.AllOrigins(v, nil, func(o core.Origin) bool {
			if o.Kind != "call" {
				return false
			}
			if strings.HasSuffix(o.Name, producerSuffix) {
				return true
			}
			// the deposit denom computed in place from a params record already at hand: what
			// GetDepositDenom itself returns (params.DepositDenom, or the asset-profile entry
			// looked up under it)
			if producerSuffix == "Keeper.GetDepositDenom" {
				if strings.HasSuffix(o.Name, "Keeper.GetParams") && strings.HasSuffix(o.Path, ".DepositDenom") {
					return true
				}
				if call, ok := o.Val.(*ssa.Call); ok && strings.HasSuffix(o.Name, ".GetEntry") && strings.HasSuffix(o.Path, ".Denom") {
					args := call.Common().Args
					return len(args) > 0 && ff.AllOrigins(args[len(args)-1], nil, func(k core.Origin) bool {
						return strings.HasSuffix(k.Path, ".DepositDenom")
					})
				}
			}
			return false
		})
	}
	denoms, whole := coinDenomValues(ff, coins)
	if len(denoms)+len(whole) == 0 {
		return false
	}
	for _, d := range denoms {
		if !isProd(d) {
			return false
		}
	}
	for _, w := range whole {
		ok := false
		wos := ff.Origins(w)
		for _, a := range ff.At(at) {
			if a.Rel != core.EQ || a.B == nil {
				continue
			}
			for _, pr := range [][2]ssa.Value{{a.A, a.B}, {a.B, a.A}} {
				if !isProd(pr[0]) {
					continue
				}
				// other side: <w>.Denom
				for _, o := range ff.Origins(pr[1]) {
					if !strings.HasSuffix(o.Path, ".Denom") {
						continue
					}
					for _, wo := range wos {
						if wo.Val == o.Val && wo.Path+".Denom" == o.Path {
							ok = true
						}
					}
				}
			}
		}
		if !ok {
			return false
		}
	}
	return true
}

func checkC06(P *core.Program, R *core.Report) {
	R.Explanation = "The vault equation TotalValue = cash + Σ(Borrowed + InterestStacked − InterestPaid) is treated as a linear invariant. For every consensus-reachable function the deltas it applies to " +
		"Params.TotalValue, Debt.{Borrowed,InterestStacked,InterestPaid} (read-modify-write stores) and to the stablestake module's deposit-denom bank balance (bank transfers whose end is the module account and whose denom is GetDepositDenom) are extracted; " +
		"deltas lying on the same success paths must cancel symbolically (linear normal forms over SSA values, e.g. repay = amount − interest). Also: every updated record reaches its Set* call on all later success paths; " +
		"SetDebt/DeleteDebt only ever persist a debt obtained through the persisting accrual (never the read-only GetDebt preview); UpdateParams copies the stored TotalValue; " +
		"a params snapshot that is written back is not stale (no callee between load and store may write stablestake params through its own load). Decides pairing of updates, not rounding inside GetInterest."
	roots := P.FindRoots()
	spec := &LedgerSpec{
		Property: "C06", Rule: "C06-ledger",
		Fields: []FieldLedger{
			{Pkg: "x/stablestake/types", Type: "Params", Field: "TotalValue", Ledger: "TotalValue", Persist: "x/stablestake/keeper.Keeper.SetParams"},
			{Pkg: "x/stablestake/types", Type: "Debt", Field: "Borrowed", Ledger: "Borrowed", Persist: "x/stablestake/keeper.Keeper.SetDebt|x/stablestake/keeper.Keeper.DeleteDebt"},
			{Pkg: "x/stablestake/types", Type: "Debt", Field: "InterestStacked", Ledger: "InterestStacked", Persist: "x/stablestake/keeper.Keeper.SetDebt|x/stablestake/keeper.Keeper.DeleteDebt"},
			{Pkg: "x/stablestake/types", Type: "Debt", Field: "InterestPaid", Ledger: "InterestPaid", Persist: "x/stablestake/keeper.Keeper.SetDebt|x/stablestake/keeper.Keeper.DeleteDebt"},
		},
		Coeff: map[string]int{"TotalValue": 1, "Cash": -1, "Borrowed": -1, "InterestStacked": -1, "InterestPaid": 1},
		Bank: func(P *core.Program, ff *core.FuncFacts, c ssa.CallInstruction, from, to, coins ssa.Value) (string, string) {
			fm, tm := isModuleAccount(ff, from, "stablestake"), isModuleAccount(ff, to, "stablestake")
			if !fm && !tm {
				return "", ""
			}
			l := "Cash(unknown denom)"
			switch {
			case denomIs(ff, c, coins, "Keeper.GetDepositDenom"):
				l = "Cash"
			case denomIs(ff, c, coins, "x/stablestake/types.GetShareDenom"):
				return "", "" // vault share tokens passing through the module (C02)
			}
			fl, tl := "", ""
			if fm {
				fl = l
			}
			if tm {
				tl = l
			}
			return fl, tl
		},
		Helpers: map[string]string{
			"x/stablestake/keeper.Keeper.GetDebt": "read-only preview of the accrued debt: adds interest to a local copy and never persists it; rule C06-debt-source forbids persisting its result",
		},
		AssignOK: map[string]string{
			"x/stablestake/keeper.msgServer.UpdateParams TotalValue": "copy",
		},
		Exempt:   map[string]string{},
		Subjects: P.Reach(roots.Consensus()),
	}
	CheckLedgers(P, R, spec)

	// C06-debt-source: what SetDebt / DeleteDebt persist comes from the persisting accrual.
	for _, fn := range P.Funcs {
		if !spec.Subjects[fn] || core.IsGeneratedOrAux(P.File(fn.Pos())) {
			continue
		}
		key := P.Key(fn)
		if strings.HasSuffix(key, ".InitGenesis") {
			continue
		}
		ff := P.Facts(fn)
		for _, c := range core.Calls(fn) {
			if !calleeMatches(P, c, "x/stablestake/keeper.Keeper.SetDebt") && !calleeMatches(P, c, "x/stablestake/keeper.Keeper.DeleteDebt") {
				continue
			}
			args := c.Common().Args
			debt := args[len(args)-1]
			ok := ff.AllOrigins(debt, nil, func(o core.Origin) bool {
				switch {
				case o.Kind == "call" && (strings.HasSuffix(o.Name, "Keeper.UpdateInterestAndGetDebt") || strings.HasSuffix(o.Name, "Keeper.UpdateInterestStacked") || strings.HasSuffix(o.Name, "Keeper.getDebt")):
					return true
				case o.Kind == "param" && key == "x/stablestake/keeper.Keeper.UpdateInterestStacked":
					return true
				}
				return false
			})
			R.Add("C06-debt-source", key, "call "+P.CalleeKey(c.Common()), P.Pos(P.InstrPos(c)), ok,
				"a persisted debt must come from getDebt/UpdateInterestAndGetDebt/UpdateInterestStacked; persisting the result of the read-only GetDebt books interest on the debt without TotalValue")
		}
	}
	// callers of UpdateInterestStacked pass a stored (not previewed) debt
	if uis := P.Fn("x/stablestake/keeper.Keeper.UpdateInterestStacked"); uis != nil {
		for _, e := range P.CG().In[uis] {
			ff := P.Facts(e.Caller)
			c := e.Site.(ssa.CallInstruction)
			args := c.Common().Args
			ok := ff.AllOrigins(args[len(args)-1], nil, func(o core.Origin) bool {
				return o.Kind == "call" && strings.HasSuffix(o.Name, "Keeper.getDebt")
			})
			R.Add("C06-debt-source", P.Key(e.Caller), "call UpdateInterestStacked", P.Pos(P.InstrPos(e.Site)), ok, "UpdateInterestStacked must receive the stored debt (getDebt)")
		}
	} else {
		R.Add("C06-debt-source", "x/stablestake/keeper.Keeper.UpdateInterestStacked", "function", "-", false, "unresolved anchor")
	}
	checkSnapshotWriteBack(P, R, "C06-fresh-writeback", spec.Subjects,
		"x/stablestake/keeper.Keeper.GetParams", "x/stablestake/keeper.Keeper.SetParams")
	// the same for the per-borrower debt record: a debt loaded before a call that accrues
	// interest on (and stores) the stored debt must not be written back afterwards
	checkSnapshotWriteBack(P, R, "C06-fresh-writeback", spec.Subjects,
		"x/stablestake/keeper.Keeper.getDebt|x/stablestake/keeper.Keeper.UpdateInterestAndGetDebt|x/stablestake/keeper.Keeper.UpdateInterestStacked", "x/stablestake/keeper.Keeper.SetDebt")
	// interest is a per-block running record: GetInterest takes differences of the records of
	// two heights, so every BeginBlocker run must write the record of its own height
	if fn := P.Fn("x/stablestake/keeper.Keeper.BeginBlocker"); fn != nil {
		ff := P.Facts(fn)
		isSet := func(in ssa.Instruction) bool {
			c, ok := in.(ssa.CallInstruction)
			if !ok || !calleeMatches(P, c, "x/stablestake/keeper.Keeper.SetInterest") {
				return false
			}
			// keyed by the current height
			return ff.AllOrigins(c.Common().Args[2], nil, func(o core.Origin) bool {
				return o.Kind == "call" && strings.HasSuffix(o.Name, "types.Context.BlockHeight")
			})
		}
		_, escapes := ff.SuccessExitReachableWithout(nil, isSet)
		R.Add("C06-interest-record", "x/stablestake/keeper.Keeper.BeginBlocker", "SetInterest(current height) on every path", P.Pos(fn.Pos()), !escapes,
			"every block writes its interest record (a gap makes GetInterest's difference of running sums negative or stale)")
	} else {
		R.Add("C06-interest-record", "x/stablestake/keeper.Keeper.BeginBlocker", "function", "-", false, "unresolved anchor")
	}
}

// checkSnapshotWriteBack (R6-F1 for write-backs): when a function loads a record with
// `load`, and later stores that same value back with `store`, no call in between may reach
// `store` through its own load — otherwise the write-back silently discards that update.
func checkSnapshotWriteBack(P *core.Program, R *core.Report, rule string, subjects map[*ssa.Function]bool, loadKey, storeKey string) {
	storeFn := P.Fn(storeKey)
	loadKeys := strings.Split(loadKey, "|")
	anyLoad := false
	for _, lk := range loadKeys {
		if P.Fn(lk) != nil {
			anyLoad = true
		}
	}
	if storeFn == nil || !anyLoad {
		R.Add(rule, storeKey, "function", "-", false, "unresolved anchor")
		return
	}
	isLoad := func(c ssa.CallInstruction) bool {
		for _, lk := range loadKeys {
			if calleeMatches(P, c, lk) {
				return true
			}
		}
		return false
	}
	mayStore := P.Summary("mayCall:"+storeKey, func(fn *ssa.Function) bool { return fn == storeFn })
	for _, fn := range P.Funcs {
		if !subjects[fn] || core.IsGeneratedOrAux(P.File(fn.Pos())) {
			continue
		}
		ff := P.Facts(fn)
		calls := core.Calls(fn)
		for _, st := range calls {
			if !calleeMatches(P, st, storeKey) {
				continue
			}
			args := st.Common().Args
			rec := args[len(args)-1]
			// which load produced the record written back?
			var loads []ssa.CallInstruction
			for _, o := range recordOrigins(ff, rec) {
				if c, ok := o.Val.(*ssa.Call); ok && o.Kind == "call" && isLoad(c) {
					loads = append(loads, c)
				}
			}
			if len(loads) == 0 {
				continue // built from the message / genesis: not a read-modify-write
			}
			for _, ld := range loads {
				bad := ""
				for _, mid := range calls {
					if mid == st || mid == ld {
						continue
					}
					if !(core.Dominates(ld, mid) || reachesInstr(fn, ld, mid)) || !reachesInstr(fn, mid, st) {
						continue
					}
					// a call that receives this very snapshot (an earlier store of it, a helper
					// working on it) is a sibling use, not an independent load
					// an earlier store of this very snapshot, or a helper that works on it in
					// place (receives its address), is a sibling use, not an independent load; a
					// callee that gets a *copy* and stores its own updated version is not
					sibling := false
					for _, ma := range mid.Common().Args {
						_, byPtr := ma.(*ssa.Alloc)
						if !byPtr && !calleeMatches(P, mid, storeKey) {
							continue
						}
						for _, mo := range recordOrigins(ff, ma) {
							if mo.Val == ld.Value() {
								sibling = true
							}
						}
					}
					if sibling {
						continue
					}
					for _, t := range P.Callees(mid) {
						if mayStore[t] {
							bad = P.CalleeKey(mid.Common()) + " at " + P.Pos(P.InstrPos(mid))
						}
					}
				}
				R.Add(rule, P.Key(fn), "write-back "+storeKey, P.Pos(P.InstrPos(st)), bad == "",
					"record loaded at "+P.Pos(P.InstrPos(ld))+" is written back; a callee in between that stores the same record through its own load would be overwritten: "+bad)
			}
		}
	}
}

// reachesInstr: is there a CFG path from just after a to b?
func reachesInstr(fn *ssa.Function, a, b ssa.Instruction) bool {
	_, ok := core.ReachesWithout(fn, a, func(in ssa.Instruction) bool { return in == b }, nil)
	return ok
}
