package rules

import (
	"fmt"
	"go/types"
	"go/token"
	"strings"

	"elyslint/core"

	"golang.org/x/tools/go/ssa"
)

func init() { register("C05", checkC05) }

func checkC05(P *core.Program, R *core.Report) {
	defer checkKeeperArgsNotNil(P, R)
	// shares minted for a single-asset join never exceed the exact zero-fee value of the same
	// expression: the fee ratio shrinks the counted deposit, the share formula is monotone in it,
	// and the Dec→Int conversion truncates (direction analysis, DESIGN §2 R10)
	checkIdealDirection(P, R, "C05-direction", "c03_ranges.json", "x/amm/types.Pool.calcSingleAssetJoin", 0, core.DLe, "single-asset join: shares ≤ exact zero-fee value")
	R.Explanation = "Only the last sentence of the statement (an exit can never take a reserve to zero or burn all shares) and its guards are decided; the value inequalities (minted shares ≤ deposit value, per-share value non-decreasing, rounding allowances) are inequalities between fixed-point results and are not decidable here. " +
		"Decided by must-hold facts: Keeper.ExitPool reaches Pool.ExitPool / ApplyExitPoolStateChange only with shareIn < totalShares and 0 < shareIn; CalcExitPool's success exits carry exitingShares < totalShares and its all-asset loop adds a coin only with 0 < exitAmt < reserve; " +
		"processExitPool hands UpdatePoolAssetBalances the value GetTotalPoolLiquidity().Sub(exitingCoins) only under len(balances) == len(PoolAssets) (completeness guard: Coins.Sub drops a zeroed denom — the repair of F-05) and lowers TotalShares by exactly exitingShares; UpdatePoolAssetBalance writes a balance only with 0 < amount."
	// 1. keeper ExitPool
	if fn := P.Fn("x/amm/keeper.Keeper.ExitPool"); fn != nil {
		ff := P.Facts(fn)
		shareIn := ssa.Value(fn.Params[4])
		n := 0
		for _, c := range core.Calls(fn) {
			if !calleeMatches(P, c, ammExitPool) && !calleeMatches(P, c, ammApplyExit) {
				continue
			}
			n++
			ltTotal, pos := false, false
			for _, a := range ff.At(c) {
				if a.Rel == core.LT && ff.Fwd(a.A) == shareIn && a.B != nil {
					for _, o := range ff.Origins(a.B) {
						if strings.HasSuffix(o.Path, ".TotalShares.Amount") && isAmmPoolRecord(o) {
							ltTotal = true
						}
					}
				}
				if a.Rel == core.LT && a.A == core.ZeroMarker && ff.Fwd(a.B) == shareIn {
					pos = true
				}
			}
			R.Add("C05-exit-guard", "x/amm/keeper.Keeper.ExitPool", "before "+P.CalleeKey(c.Common()), P.Pos(P.InstrPos(c)), ltTotal && pos, "an exit needs 0 < shareIn < pool.TotalShares (never burns all shares)")
		}
		if n < 2 {
			R.Add("C05-exit-guard", "x/amm/keeper.Keeper.ExitPool", "exit steps", P.Pos(fn.Pos()), false, "expected Pool.ExitPool and ApplyExitPoolStateChange (anchor changed)")
		}
	} else {
		R.Add("C05-exit-guard", "x/amm/keeper.Keeper.ExitPool", "function", "-", false, "unresolved anchor")
	}
	// 2. CalcExitPool
	if fn := P.Fn("x/amm/types.CalcExitPool"); fn != nil {
		ff := P.Facts(fn)
		exiting := ssa.Value(fn.Params[4])
		bad := ""
		n := 0
		for _, ex := range ff.Exits() {
			if ex.Kind != core.ExitSuccess && ex.Kind != core.ExitBoth {
				continue
			}
			n++
			ok := false
			for _, a := range ff.At(ex.Instr) {
				if a.Rel == core.LT && ff.Fwd(a.A) == exiting && a.B != nil {
					ok = true
				}
			}
			if !ok {
				bad = "success exit at " + P.Pos(P.InstrPos(ex.Instr)) + " without exitingShares < totalShares"
			}
		}
		R.Add("C05-exit-guard", "x/amm/types.CalcExitPool", "exitingShares < totalShares on success", P.Pos(fn.Pos()), bad == "" && n > 0, bad)
		// all-asset loop: the Add of NewCoin(denom, exitAmt) under 0 < exitAmt < asset.Amount
		nAdd := 0
		for _, c := range core.Calls(fn) {
			if core.CalleeName(c.Common()) != "NewCoin" || len(c.Common().Args) != 2 {
				continue
			}
			amt := ff.Fwd(c.Common().Args[1])
			if tr, _, ok := mathCall(ff, amt, "TruncateInt"); !ok || len(tr) != 1 {
				continue
			} else if _, _, isMul := mathCall(ff, tr[0], "MulInt"); !isMul {
				continue
			}
			nAdd++
			pos, below := false, false
			for _, a := range ff.At(c) {
				if a.Rel == core.LT && a.A == core.ZeroMarker && ff.Fwd(a.B) == amt {
					pos = true
				}
				if a.Rel == core.LT && ff.Fwd(a.A) == amt && a.B != nil && a.B != core.ZeroMarker {
					if _, isAmt := fieldLoad(ff, a.B, "Amount"); isAmt {
						below = true
					}
				}
			}
			R.Add("C05-exit-guard", "x/amm/types.CalcExitPool", "all-asset exit coin", P.Pos(P.InstrPos(c)), pos && below, "each exiting coin is strictly between zero and the reserve of its asset")
		}
		if nAdd == 0 {
			R.Add("C05-exit-guard", "x/amm/types.CalcExitPool", "all-asset exit coin", P.Pos(fn.Pos()), false, "pro-rata exit coin not found (anchor changed)")
		}
	} else {
		R.Add("C05-exit-guard", "x/amm/types.CalcExitPool", "function", "-", false, "unresolved anchor")
	}
	// 3. processExitPool
	if fn := P.Fn("x/amm/types.Pool.processExitPool"); fn != nil {
		ff := P.Facts(fn)
		n := 0
		for _, c := range core.Calls(fn) {
			if !calleeMatches(P, c, "x/amm/types.Pool.UpdatePoolAssetBalances") {
				continue
			}
			n++
			bal := ff.Fwd(c.Common().Args[1])
			// balances = GetTotalPoolLiquidity().Sub(exitingCoins...)
			shape := false
			if sa, _, ok := mathCall(ff, bal, "Sub"); ok && len(sa) == 2 {
				if gl, isC := ff.Fwd(sa[0]).(*ssa.Call); isC && core.CalleeName(gl.Common()) == "GetTotalPoolLiquidity" && ff.Fwd(sa[1]) == ssa.Value(fn.Params[2]) {
					shape = true
				}
			}
			complete := false
			for _, a := range ff.At(c) {
				if a.Rel != core.EQ || a.B == nil {
					continue
				}
				l1, ok1 := lenOf(ff, a.A)
				l2, ok2 := lenOf(ff, a.B)
				if !ok1 || !ok2 {
					continue
				}
				for _, pr := range [][2]ssa.Value{{l1, l2}, {l2, l1}} {
					if ff.Fwd(pr[0]) == bal {
						if _, isPA := fieldLoad(ff, pr[1], "PoolAssets"); isPA {
							complete = true
						}
					}
				}
			}
			R.Add("C05-set-to", "x/amm/types.Pool.processExitPool", "UpdatePoolAssetBalances(liquidity − exiting)", P.Pos(P.InstrPos(c)), shape && complete,
				"the set-to idiom equals −exitingCoins only if the new balances cover every pool asset (len(balances) == len(PoolAssets))")
		}
		if n != 1 {
			R.Add("C05-set-to", "x/amm/types.Pool.processExitPool", "UpdatePoolAssetBalances", P.Pos(fn.Pos()), false, "expected exactly one call (anchor changed)")
		}
		// TotalShares = NewCoin(denom, total.Sub(exitingShares))
		sharesOK := false
		for _, b := range fn.Blocks {
			for _, in := range b.Instrs {
				st, ok := in.(*ssa.Store)
				if !ok {
					continue
				}
				if fa, ok := st.Addr.(*ssa.FieldAddr); ok && core.FieldName(fa.X.Type(), fa.Field) == "TotalShares" {
					// new TotalShares = old TotalShares − exitingShares, however it is written
					p, okR := ff.PolyOf(st.Val).Rename(func(_ string, v ssa.Value) (string, bool) {
						if v == nil {
							return "", false
						}
						if ff.Fwd(v) == ssa.Value(fn.Params[3]) {
							return "EXIT", true
						}
						if originsAll(ff, v, func(o core.Origin) bool {
							return strings.HasSuffix(o.Path, ".TotalShares") || strings.HasSuffix(o.Path, ".TotalShares.Amount")
						}) {
							return "TOTAL", true
						}
						return "", false
					})
					if okR && p.Equal(core.ParsePoly("TOTAL - EXIT")) {
						sharesOK = true
					}
				}
			}
		}
		R.Add("C05-set-to", "x/amm/types.Pool.processExitPool", "TotalShares −= exitingShares", P.Pos(fn.Pos()), sharesOK, "shares are lowered by exactly the exiting shares")
	} else {
		R.Add("C05-set-to", "x/amm/types.Pool.processExitPool", "function", "-", false, "unresolved anchor")
	}
	// 4. UpdatePoolAssetBalance
	if fn := P.Fn("x/amm/types.Pool.UpdatePoolAssetBalance"); fn != nil {
		ff := P.Facts(fn)
		n := 0
		for _, b := range fn.Blocks {
			for _, in := range b.Instrs {
				st, ok := in.(*ssa.Store)
				if !ok {
					continue
				}
				if _, isIdx := st.Addr.(*ssa.IndexAddr); !isIdx {
					continue
				}
				n++
				pos := false
				for _, a := range ff.At(in) {
					if a.Rel == core.LT && a.A == core.ZeroMarker {
						for _, o := range ff.Origins(a.B) {
							if o.Kind == "param" && o.Name == "coin" && o.Path == ".Amount" {
								pos = true
							}
						}
					}
				}
				R.Add("C05-positive-balance", "x/amm/types.Pool.UpdatePoolAssetBalance", "store into PoolAssets", P.Pos(P.InstrPos(in)), pos, "a pool asset balance is only ever set to a strictly positive amount")
			}
		}
		if n == 0 {
			R.Add("C05-positive-balance", "x/amm/types.Pool.UpdatePoolAssetBalance", "store", P.Pos(fn.Pos()), false, "no store found (anchor changed)")
		}
	} else {
		R.Add("C05-positive-balance", "x/amm/types.Pool.UpdatePoolAssetBalance", "function", "-", false, "unresolved anchor")
	}
}

// lenOf: v is len(x) — returns x.
func lenOf(ff *core.FuncFacts, v ssa.Value) (ssa.Value, bool) {
	c, ok := ff.Fwd(v).(*ssa.Call)
	if !ok {
		return nil, false
	}
	if b, isB := c.Common().Value.(*ssa.Builtin); isB && b.Name() == "len" && len(c.Common().Args) == 1 {
		return c.Common().Args[0], true
	}
	return nil, false
}

var _ = token.ADD

// isAmmPoolRecord: the origin is an amm pool record (a value of type ammtypes.Pool, however
// it was obtained: parameter, GetPool result, local copy).
func isAmmPoolRecord(o core.Origin) bool {
	if o.Val == nil {
		return false
	}
	t := o.Val.Type()
	if tup, ok := t.(*types.Tuple); ok && tup.Len() > 0 {
		t = tup.At(0).Type()
	}
	n := core.AsNamed(t)
	return n != nil && n.Obj().Name() == "Pool" && n.Obj().Pkg() != nil && strings.HasSuffix(n.Obj().Pkg().Path(), "x/amm/types")
}

// checkKeeperArgsNotNil: a call that hands the nil constant to a parameter whose type is a
// keeper interface of the amm package (AccountedPoolKeeper, OracleKeeper, …) silently
// switches the callee to its fall-back (raw pool book instead of the accounted balance, no
// oracle): LP shares and swaps would be valued on a different ledger than the rest of the
// same operation.  Decided for every consensus-reachable call site.
func checkKeeperArgsNotNil(P *core.Program, R *core.Report) {
	subjects := P.Reach(P.FindRoots().Consensus())
	n := 0
	for _, fn := range P.Funcs {
		if !subjects[fn] || core.IsGeneratedOrAux(P.File(fn.Pos())) || !strings.HasPrefix(core.PkgRel(fn), "x/amm/") {
			continue // the amm's own pricing code; other modules may ask for the raw book on purpose
		}
		for _, c := range core.Calls(fn) {
			cc := c.Common()
			var sig *types.Signature
			if cc.IsInvoke() {
				sig, _ = cc.Method.Type().(*types.Signature)
			} else if sc := cc.StaticCallee(); sc != nil {
				sig = sc.Signature
			}
			if sig == nil {
				continue
			}
			off := 0
			if !cc.IsInvoke() && sig.Recv() != nil {
				off = 1
			}
			for i := 0; i < sig.Params().Len() && i+off < len(cc.Args); i++ {
				pt := sig.Params().At(i).Type()
				nt := core.AsNamed(pt)
				if nt == nil || nt.Obj().Pkg() == nil || !strings.HasSuffix(nt.Obj().Name(), "Keeper") {
					continue
				}
				if _, isIface := nt.Underlying().(*types.Interface); !isIface || !strings.HasPrefix(nt.Obj().Pkg().Path(), core.Module) {
					continue
				}
				n++
				k, isConst := cc.Args[i+off].(*ssa.Const)
				isNil := isConst && k.Value == nil
				if isNil {
					R.Add("C05-keeper-arg", P.Key(fn), "nil "+nt.Obj().Name()+" → "+P.CalleeKey(cc), P.Pos(P.InstrPos(c)), false,
						"a keeper interface parameter receives nil: the callee falls back to a different ledger than the rest of the operation")
				}
			}
		}
	}
	R.Add("C05-keeper-arg", "-", "keeper interface arguments", "-", n > 0, fmt.Sprintf("%d keeper-interface arguments at consensus-reachable call sites, none nil", n))
}
