package rules

import (
	"fmt"
	"os"
	"sort"
	"go/types"
	"go/token"
	"strings"

	"elyslint/core"

	"golang.org/x/tools/go/ssa"
)

func init() { register("C05", checkC05) }

func checkC05(P *core.Program, R *core.Report) {
	defer CheckCoinSetValidated(P, R, "C05-coin-set")
	defer checkKeeperArgsNotNil(P, R)
	defer checkShareValueFormulas(P, R)
	defer checkMaximalRatioJoin(P, R)
	// shares minted for a single-asset join never exceed the exact zero-fee value of the same
	// expression: the fee ratio shrinks the counted deposit, the share formula is monotone in it,
	// and the Dec→Int conversion truncates (direction analysis, DESIGN §2 R10)
	checkIdealDirection(P, R, "C05-direction", "c03_ranges.json", "x/amm/types.Pool.calcSingleAssetJoin", 0, core.DLe, "single-asset join: shares ≤ exact zero-fee value")
	R.Explanation = "Only the last sentence of the statement (an exit can never take a reserve to zero or burn all shares) and its guards are decided; the value inequalities (minted shares ≤ deposit value, per-share value non-decreasing, rounding allowances) are inequalities between fixed-point results and are not decidable here. " +
		"Decided by must-hold facts: Keeper.ExitPool reaches Pool.ExitPool / ApplyExitPoolStateChange only with shareIn < totalShares and 0 < shareIn; CalcExitPool's success exits carry exitingShares < totalShares and its all-asset loop adds a coin only with 0 < exitAmt < reserve; " +
		"processExitPool hands UpdatePoolAssetBalances the value GetTotalPoolLiquidity().Sub(exitingCoins) only under len(balances) == len(PoolAssets) (completeness guard: Coins.Sub drops a zeroed denom — the repair of F-05) and lowers TotalShares by exactly exitingShares; UpdatePoolAssetBalance writes a balance only with 0 < amount."
	// 1. keeper ExitPool
	if fn := P.Fn("x/amm/keeper.Keeper.ExitPool"); fn != nil {
		ff := P.Facts(fn)
		shareIn := ssa.Value(fn.Params[4])
		n := 0
		for _, c := range core.Calls(fn) {
			if !calleeMatches(P, c, ammExitPool) && !calleeMatches(P, c, ammApplyExit) {
				continue
			}
			n++
			ltTotal, pos := false, false
			for _, a := range ff.At(c) {
				if a.Rel == core.LT && ff.Fwd(a.A) == shareIn && a.B != nil {
					for _, o := range ff.Origins(a.B) {
						if strings.HasSuffix(o.Path, ".TotalShares.Amount") && isAmmPoolRecord(o) {
							ltTotal = true
						}
					}
				}
				if a.Rel == core.LT && a.A == core.ZeroMarker && ff.Fwd(a.B) == shareIn {
					pos = true
				}
			}
			R.Add("C05-exit-guard", "x/amm/keeper.Keeper.ExitPool", "before "+P.CalleeKey(c.Common()), P.Pos(P.InstrPos(c)), ltTotal && pos, "an exit needs 0 < shareIn < pool.TotalShares (never burns all shares)")
		}
		if n < 2 {
			R.Add("C05-exit-guard", "x/amm/keeper.Keeper.ExitPool", "exit steps", P.Pos(fn.Pos()), false, "expected Pool.ExitPool and ApplyExitPoolStateChange (anchor changed)")
		}
	} else {
		R.Add("C05-exit-guard", "x/amm/keeper.Keeper.ExitPool", "function", "-", false, "unresolved anchor")
	}
	// 2. CalcExitPool
	if fn := P.Fn("x/amm/types.CalcExitPool"); fn != nil {
		ff := P.Facts(fn)
		exiting := ssa.Value(fn.Params[4])
		bad := ""
		n := 0
		for _, ex := range ff.Exits() {
			if ex.Kind != core.ExitSuccess && ex.Kind != core.ExitBoth {
				continue
			}
			n++
			ok := false
			for _, a := range ff.At(ex.Instr) {
				if a.Rel == core.LT && ff.Fwd(a.A) == exiting && a.B != nil {
					ok = true
				}
			}
			if !ok {
				bad = "success exit at " + P.Pos(P.InstrPos(ex.Instr)) + " without exitingShares < totalShares"
			}
		}
		R.Add("C05-exit-guard", "x/amm/types.CalcExitPool", "exitingShares < totalShares on success", P.Pos(fn.Pos()), bad == "" && n > 0, bad)
		// all-asset loop: the Add of NewCoin(denom, exitAmt) under 0 < exitAmt < asset.Amount
		nAdd := 0
		for _, c := range core.Calls(fn) {
			if core.CalleeName(c.Common()) != "NewCoin" || len(c.Common().Args) != 2 {
				continue
			}
			amt := ff.Fwd(c.Common().Args[1])
			if tr, _, ok := mathCall(ff, amt, "TruncateInt"); !ok || len(tr) != 1 {
				continue
			} else if _, _, isMul := mathCall(ff, tr[0], "MulInt"); !isMul {
				continue
			}
			nAdd++
			pos, below := false, false
			for _, a := range ff.At(c) {
				if a.Rel == core.LT && a.A == core.ZeroMarker && ff.Fwd(a.B) == amt {
					pos = true
				}
				if a.Rel == core.LT && ff.Fwd(a.A) == amt && a.B != nil && a.B != core.ZeroMarker {
					if _, isAmt := fieldLoad(ff, a.B, "Amount"); isAmt {
						below = true
					}
				}
			}
			R.Add("C05-exit-guard", "x/amm/types.CalcExitPool", "all-asset exit coin", P.Pos(P.InstrPos(c)), pos && below, "each exiting coin is strictly between zero and the reserve of its asset")
		}
		if nAdd == 0 {
			R.Add("C05-exit-guard", "x/amm/types.CalcExitPool", "all-asset exit coin", P.Pos(fn.Pos()), false, "pro-rata exit coin not found (anchor changed)")
		}
	} else {
		R.Add("C05-exit-guard", "x/amm/types.CalcExitPool", "function", "-", false, "unresolved anchor")
	}
	// 3. processExitPool
	if fn := P.Fn("x/amm/types.Pool.processExitPool"); fn != nil {
		ff := P.Facts(fn)
		n := 0
		for _, c := range core.Calls(fn) {
			if !calleeMatches(P, c, "x/amm/types.Pool.UpdatePoolAssetBalances") {
				continue
			}
			n++
			bal := ff.Fwd(c.Common().Args[1])
			// balances = GetTotalPoolLiquidity().Sub(exitingCoins...)
			shape := false
			if sa, _, ok := mathCall(ff, bal, "Sub"); ok && len(sa) == 2 {
				if gl, isC := ff.Fwd(sa[0]).(*ssa.Call); isC && core.CalleeName(gl.Common()) == "GetTotalPoolLiquidity" && ff.Fwd(sa[1]) == ssa.Value(fn.Params[2]) {
					shape = true
				}
			}
			complete := false
			for _, a := range ff.At(c) {
				if a.Rel != core.EQ || a.B == nil {
					continue
				}
				l1, ok1 := lenOf(ff, a.A)
				l2, ok2 := lenOf(ff, a.B)
				if !ok1 || !ok2 {
					continue
				}
				for _, pr := range [][2]ssa.Value{{l1, l2}, {l2, l1}} {
					if ff.Fwd(pr[0]) == bal {
						if _, isPA := fieldLoad(ff, pr[1], "PoolAssets"); isPA {
							complete = true
						}
					}
				}
			}
			R.Add("C05-set-to", "x/amm/types.Pool.processExitPool", "UpdatePoolAssetBalances(liquidity − exiting)", P.Pos(P.InstrPos(c)), shape && complete,
				"the set-to idiom equals −exitingCoins only if the new balances cover every pool asset (len(balances) == len(PoolAssets))")
		}
		if n == 0 {
			// the book is not set to (liquidity − exiting) as a whole: then it is lowered coin by
			// coin — a read-modify-write `asset.Token.Amount = asset.Token.Amount.Sub(coin.Amount)`
			// with coin an element of exitingCoins (the completeness question of the set-to idiom
			// does not arise: no denom is dropped by a Coins subtraction)
			perCoin := false
			for _, b := range fn.Blocks {
				for _, in := range b.Instrs {
					st, ok := in.(*ssa.Store)
					if !ok {
						continue
					}
					fa, ok := st.Addr.(*ssa.FieldAddr)
					if !ok || core.FieldName(fa.X.Type(), fa.Field) != "Amount" {
						continue
					}
					sa, _, isSub := mathCall(ff, st.Val, "Sub")
					if !isSub || len(sa) != 2 {
						continue
					}
					ld, isLd := ff.Fwd(sa[0]).(*ssa.UnOp)
					if !isLd || !sameLocation(ff, ld.X, fa) {
						continue
					}
					fromExiting := ff.AllOrigins(sa[1], nil, func(o core.Origin) bool {
						return o.Kind == "param" && o.Val == ssa.Value(fn.Params[2]) && strings.HasSuffix(o.Path, ".Amount")
					})
					if fromExiting {
						perCoin = true
					}
				}
			}
			R.Add("C05-set-to", "x/amm/types.Pool.processExitPool", "book lowered coin by coin", P.Pos(fn.Pos()), perCoin,
				"without the set-to idiom the pool book is lowered by each exiting coin's own amount (read-modify-write of the asset's Token.Amount)")
		} else if n != 1 {
			R.Add("C05-set-to", "x/amm/types.Pool.processExitPool", "UpdatePoolAssetBalances", P.Pos(fn.Pos()), false, "expected exactly one call (anchor changed)")
		}
		// TotalShares = NewCoin(denom, total.Sub(exitingShares))
		sharesOK := false
		for _, b := range fn.Blocks {
			for _, in := range b.Instrs {
				st, ok := in.(*ssa.Store)
				if !ok {
					continue
				}
				if fa, ok := st.Addr.(*ssa.FieldAddr); ok && core.FieldName(fa.X.Type(), fa.Field) == "TotalShares" {
					// new TotalShares = old TotalShares − exitingShares, however it is written
					p, okR := ff.PolyOf(st.Val).Rename(func(_ string, v ssa.Value) (string, bool) {
						if v == nil {
							return "", false
						}
						if ff.Fwd(v) == ssa.Value(fn.Params[3]) {
							return "EXIT", true
						}
						if originsAll(ff, v, func(o core.Origin) bool {
							return strings.HasSuffix(o.Path, ".TotalShares") || strings.HasSuffix(o.Path, ".TotalShares.Amount")
						}) {
							return "TOTAL", true
						}
						return "", false
					})
					if okR && p.Equal(core.ParsePoly("TOTAL - EXIT")) {
						sharesOK = true
					}
				}
			}
		}
		R.Add("C05-set-to", "x/amm/types.Pool.processExitPool", "TotalShares −= exitingShares", P.Pos(fn.Pos()), sharesOK, "shares are lowered by exactly the exiting shares")
	} else {
		R.Add("C05-set-to", "x/amm/types.Pool.processExitPool", "function", "-", false, "unresolved anchor")
	}
	// 4. UpdatePoolAssetBalance
	if fn := P.Fn("x/amm/types.Pool.UpdatePoolAssetBalance"); fn != nil {
		ff := P.Facts(fn)
		n := 0
		for _, b := range fn.Blocks {
			for _, in := range b.Instrs {
				st, ok := in.(*ssa.Store)
				if !ok {
					continue
				}
				if _, isIdx := st.Addr.(*ssa.IndexAddr); !isIdx {
					continue
				}
				n++
				pos := false
				for _, a := range ff.At(in) {
					if a.Rel == core.LT && a.A == core.ZeroMarker {
						for _, o := range ff.Origins(a.B) {
							if o.Kind == "param" && o.Name == "coin" && o.Path == ".Amount" {
								pos = true
							}
						}
					}
				}
				R.Add("C05-positive-balance", "x/amm/types.Pool.UpdatePoolAssetBalance", "store into PoolAssets", P.Pos(P.InstrPos(in)), pos, "a pool asset balance is only ever set to a strictly positive amount")
			}
		}
		if n == 0 {
			R.Add("C05-positive-balance", "x/amm/types.Pool.UpdatePoolAssetBalance", "store", P.Pos(fn.Pos()), false, "no store found (anchor changed)")
		}
	} else {
		R.Add("C05-positive-balance", "x/amm/types.Pool.UpdatePoolAssetBalance", "function", "-", false, "unresolved anchor")
	}
}

// lenOf: v is len(x) — returns x.
func lenOf(ff *core.FuncFacts, v ssa.Value) (ssa.Value, bool) {
	c, ok := ff.Fwd(v).(*ssa.Call)
	if !ok {
		return nil, false
	}
	if b, isB := c.Common().Value.(*ssa.Builtin); isB && b.Name() == "len" && len(c.Common().Args) == 1 {
		return c.Common().Args[0], true
	}
	return nil, false
}

var _ = token.ADD

// isAmmPoolRecord: the origin is an amm pool record (a value of type ammtypes.Pool, however
// it was obtained: parameter, GetPool result, local copy).
func isAmmPoolRecord(o core.Origin) bool {
	if o.Val == nil {
		return false
	}
	t := o.Val.Type()
	if tup, ok := t.(*types.Tuple); ok && tup.Len() > 0 {
		t = tup.At(0).Type()
	}
	n := core.AsNamed(t)
	return n != nil && n.Obj().Name() == "Pool" && n.Obj().Pkg() != nil && strings.HasSuffix(n.Obj().Pkg().Path(), "x/amm/types")
}

// checkKeeperArgsNotNil: a call that hands the nil constant to a parameter whose type is a
// keeper interface of the amm package (AccountedPoolKeeper, OracleKeeper, …) silently
// switches the callee to its fall-back (raw pool book instead of the accounted balance, no
// oracle): LP shares and swaps would be valued on a different ledger than the rest of the
// same operation.  Decided for every consensus-reachable call site.
func checkKeeperArgsNotNil(P *core.Program, R *core.Report) {
	checkKeeperArgsNotNilIn(P, R, "C05-keeper-arg", []string{"x/amm/"}, nil)
}

// checkKeeperArgsNotNilIn: the same for the given packages; frozen[fnKey] names a caller
// that asks for the raw book on purpose (with the reason).
func checkKeeperArgsNotNilIn(P *core.Program, R *core.Report, rule string, pkgs []string, frozen map[string]string) {
	subjects := P.Reach(P.FindRoots().Consensus())
	n := 0
	var fns []*ssa.Function
	for _, fn := range P.Funcs {
		fns = append(fns, fn)
	}
	sort.Slice(fns, func(i, j int) bool { return P.Key(fns[i]) < P.Key(fns[j]) })
	for _, fn := range fns {
		in := false
		for _, p := range pkgs {
			if strings.HasPrefix(core.PkgRel(fn), p) {
				in = true
			}
		}
		if !subjects[fn] || core.IsGeneratedOrAux(P.File(fn.Pos())) || !in {
			continue // the amm's own pricing code; other modules may ask for the raw book on purpose
		}
		for _, c := range core.Calls(fn) {
			cc := c.Common()
			var sig *types.Signature
			if cc.IsInvoke() {
				sig, _ = cc.Method.Type().(*types.Signature)
			} else if sc := cc.StaticCallee(); sc != nil {
				sig = sc.Signature
			}
			if sig == nil {
				continue
			}
			off := 0
			if !cc.IsInvoke() && sig.Recv() != nil {
				off = 1
			}
			for i := 0; i < sig.Params().Len() && i+off < len(cc.Args); i++ {
				pt := sig.Params().At(i).Type()
				nt := core.AsNamed(pt)
				if nt == nil || nt.Obj().Pkg() == nil || !strings.HasSuffix(nt.Obj().Name(), "Keeper") {
					continue
				}
				if _, isIface := nt.Underlying().(*types.Interface); !isIface || !strings.HasPrefix(nt.Obj().Pkg().Path(), core.Module) {
					continue
				}
				n++
				k, isConst := cc.Args[i+off].(*ssa.Const)
				isNil := isConst && k.Value == nil
				if isNil {
					why, ok := frozen[P.Key(fn)]
					R.Add(rule, P.Key(fn), "nil "+nt.Obj().Name()+" → "+P.CalleeKey(cc), P.Pos(P.InstrPos(c)), ok,
						"a keeper interface parameter receives nil: the callee falls back to a different ledger than the rest of the operation. "+why)
				}
			}
		}
	}
	R.Add(rule, "-", "keeper interface arguments", "-", n > 0, fmt.Sprintf("%d keeper-interface arguments at consensus-reachable call sites, none nil outside the frozen callers", n))
}

// checkScaled decides "value = k · spec with k within [0,1]" on the polynomial normal
// form: the value's form (one final Trunc/Round stripped; a Ceil is a payout rounded up)
// is renamed by roles, divided by the spec monomial, and what is left must not mention
// any role (the value is proportional to the spec) and must range within [0,1] by the
// direction engine's intervals of the remaining leaves (fees, bonuses) at that point.
// So any spelling of spec × (1 − fee) passes, a fee added instead of subtracted, a wrong
// denominator or a dropped factor does not.
func checkScaled(P *core.Program, R *core.Report, rule, construct string, fn *ssa.Function, val ssa.Value, at ssa.Instruction,
	roles func(key string, v ssa.Value) (string, bool), spec string, roleNames []string, what string) {
	ff := P.Facts(fn)
	key := P.Key(fn)
	pos := P.Pos(P.InstrPos(at))
	p, op := ff.PolyOf(val).Outer()
	if op == "Ceil" {
		R.Add(rule, key, construct, pos, false, what+": the amount is rounded up (Ceil); a payout must round down or to nearest")
		return
	}
	rp, _ := p.Rename(roles)
	S := core.ParsePoly(spec)
	q := rp.Quo(S, nil)
	for _, rn := range roleNames {
		if q.Mentions(rn) {
			R.Add(rule, key, construct, pos, false, fmt.Sprintf("%s: the amount is not proportional to %s (normal form %s; after dividing: %s)", what, spec, rp, q))
			return
		}
	}
	spc, err := loadRangeSpec("c03_ranges.json")
	if err != nil {
		R.Undecided(rule, key, construct, pos, err.Error())
		return
	}
	E := core.NewRanger(P, spc)
	ctx := E.TopCtx(fn)
	it, ok := E.PolyRange(ctx, q, at)
	if os.Getenv("ELYSLINT_POLY_DEBUG") != "" {
		for _, k := range q.LeafKeys() {
			if v := q.Leaf[k]; v != nil {
				fmt.Fprintf(os.Stderr, "c05 scaled %s leaf %s = %s : %s why=%v\n", key, k, v, E.ValAt(ctx, v, at), E.Why)
				if ph, ok := v.(*ssa.Phi); ok {
					for _, e := range ph.Edges {
						E2 := core.NewRanger(P, spc)
						fmt.Fprintf(os.Stderr, "   edge %s = %s : %s exhausted=%v\n", e.Name(), e, E2.ValAt(E2.TopCtx(fn), e, at), E2.Exhausted)
					}
				}
			}
		}
	}
	in01 := ok && it.In01() && !E.Exhausted
	R.Add(rule, key, construct, pos, in01, fmt.Sprintf("%s: amount = k·(%s) with k = %s ranging over %s (must lie within [0,1]). %s", what, spec, q, it, notes(E)))
	for u := range E.Used {
		R.Assume("range assumption used: " + u)
	}
}

// checkShareValueFormulas: the value formulas of joins and exits (C05-value).
func checkShareValueFormulas(P *core.Program, R *core.Report) {
	const rule = "C05-value"
	tupleCall := func(ff *core.FuncFacts, v ssa.Value, suffix string) bool {
		v = ff.Fwd(v)
		if ex, ok := v.(*ssa.Extract); ok && ex.Index == 0 {
			v = ex.Tuple
		}
		c, ok := v.(*ssa.Call)
		return ok && strings.HasSuffix(P.CalleeKey(c.Common()), suffix)
	}
	isTotalShares := func(ff *core.FuncFacts, v ssa.Value) bool {
		if v == nil {
			return false
		}
		return originsAll(ff, v, func(o core.Origin) bool {
			return strings.HasSuffix(o.Path, ".TotalShares") || strings.HasSuffix(o.Path, ".TotalShares.Amount") ||
				(o.Kind == "call" && strings.HasSuffix(o.Name, "GetTotalShares"))
		})
	}
	// 1. exit value = TVL · shares / totalShares
	if fn := P.Fn("x/amm/types.CalcExitValueWithoutSlippage"); fn != nil {
		ff := P.Facts(fn)
		n := 0
		for _, ex := range ff.Exits() {
			ret, ok := ex.Instr.(*ssa.Return)
			if !ok || ex.Kind == core.ExitError || len(ret.Results) == 0 {
				continue
			}
			n++
			checkScaled(P, R, rule, "exit value ≤ TVL·shares/totalShares", fn, ret.Results[0], ret, func(_ string, v ssa.Value) (string, bool) {
				switch {
				case v == nil:
					return "", false
				case tupleCall(ff, v, "Pool.TVL"):
					return "TVL", true
				case ff.Fwd(v) == ssa.Value(fn.Params[4]):
					return "SH", true
				case isTotalShares(ff, v):
					return "TS", true
				}
				return "", false
			}, "TVL*SH/TS", []string{"TVL", "SH", "TS"}, "the value of exiting shares is at most their pro-rata share of the pool value")
		}
		if n == 0 {
			R.Add(rule, P.Key(fn), "exit value", P.Pos(fn.Pos()), false, "no success return (anchor changed)")
		}
	} else {
		R.Add(rule, "x/amm/types.CalcExitValueWithoutSlippage", "function", "-", false, "unresolved anchor")
	}
	// 2. CalcExitPool: every coin built there is either the oracle payout ≤ exitValue/price
	//    or a pro-rata amount ≤ shares/totalShares · reserve
	if fn := P.Fn("x/amm/types.CalcExitPool"); fn != nil {
		ff := P.Facts(fn)
		nOracle, nPro := 0, 0
		roles := func(_ string, v ssa.Value) (string, bool) {
			switch {
			case v == nil:
				return "", false
			case tupleCall(ff, v, "CalcExitValueWithoutSlippage"):
				return "EV", true
			case tupleCall(ff, v, "GetAssetPriceFromDenom"):
				return "PRICE", true
			case ff.Fwd(v) == ssa.Value(fn.Params[4]):
				return "SH", true
			case isTotalShares(ff, v):
				return "TS", true
			}
			for _, o := range ff.Origins(v) {
				if os.Getenv("ELYSLINT_POLY_DEBUG") != "" {
					fmt.Fprintf(os.Stderr, "c05 BAL? %s origin [%s]\n", v, o)
				}
				if o.Kind == "call" && strings.HasSuffix(o.Name, "GetTotalPoolLiquidity") {
					return "BAL", true
				}
			}
			return "", false
		}
		for _, c := range core.Calls(fn) {
			if core.CalleeName(c.Common()) != "NewCoin" || len(c.Common().Args) != 2 {
				continue
			}
			in, ok := c.(ssa.Instruction)
			if !ok {
				continue
			}
			amt := c.Common().Args[1]
			inner, _ := ff.PolyOf(amt).Outer()
			rp, _ := inner.Rename(roles)
			switch {
			case rp.Mentions("EV"):
				nOracle++
				checkScaled(P, R, rule, "oracle exit coin ≤ exitValue/price", fn, amt, in, roles, "EV/PRICE", []string{"EV", "PRICE", "SH", "TS", "BAL"},
					"a single-asset exit pays at most the oracle value of the exiting shares")
			case rp.Mentions("SH"):
				nPro++
				checkScaled(P, R, rule, "pro-rata exit coin ≤ shares/totalShares·reserve", fn, amt, in, roles, "SH*BAL/TS", []string{"EV", "PRICE", "SH", "TS", "BAL"},
					"an all-asset exit pays at most the pro-rata part of each reserve")
			}
		}
		if nOracle == 0 || nPro == 0 {
			R.Add(rule, P.Key(fn), "exit coins", P.Pos(fn.Pos()), false, fmt.Sprintf("expected an oracle payout and a pro-rata payout built with NewCoin (found %d / %d; anchor changed)", nOracle, nPro))
		}
	} else {
		R.Add(rule, "x/amm/types.CalcExitPool", "function", "-", false, "unresolved anchor")
	}
	// 3. oracle single-asset join: shares = totalShares · joinValue / TVL · k
	if fn := P.Fn("x/amm/types.Pool.JoinPool"); fn != nil {
		ff := P.Facts(fn)
		n := 0
		roles := func(_ string, v ssa.Value) (string, bool) {
			switch {
			case v == nil:
				return "", false
			case tupleCall(ff, v, "CalcJoinValueWithoutSlippage"):
				return "JV", true
			case tupleCall(ff, v, "Pool.TVL"):
				return "TVL", true
			case isTotalShares(ff, v):
				return "TS", true
			}
			return "", false
		}
		for _, ex := range ff.Exits() {
			ret, ok := ex.Instr.(*ssa.Return)
			if !ok || ex.Kind == core.ExitError || len(ret.Results) < 2 {
				continue
			}
			inner, _ := ff.PolyOf(ret.Results[1]).Outer()
			rp, _ := inner.Rename(roles)
			if !rp.Mentions("JV") && !rp.Mentions("TVL") {
				continue
			}
			n++
			checkScaled(P, R, rule, "oracle join shares ≤ totalShares·joinValue/TVL", fn, ret.Results[1], ret, roles, "TS*JV/TVL", []string{"JV", "TVL", "TS"},
				"a single-asset join of an oracle pool mints at most the shares its oracle value buys")
		}
		if n == 0 {
			R.Add(rule, P.Key(fn), "oracle join shares", P.Pos(fn.Pos()), false, "no success return whose share amount derives from the join value (anchor changed)")
		}
	} else {
		R.Add(rule, "x/amm/types.Pool.JoinPool", "function", "-", false, "unresolved anchor")
	}
}

// checkMaximalRatioJoin: an all-asset join mints totalShares × the SMALLEST deposit/reserve
// ratio over the deposited coins (so no asset is credited beyond what was paid in), each
// ratio pairing a coin's amount with the reserve of that same coin's denom.
func checkMaximalRatioJoin(P *core.Program, R *core.Report) {
	const rule = "C05-value"
	fn := P.Fn("x/amm/types.MaximalExactRatioJoin")
	if fn == nil {
		R.Add(rule, "x/amm/types.MaximalExactRatioJoin", "function", "-", false, "unresolved anchor")
		return
	}
	ff := P.Facts(fn)
	key := P.Key(fn)
	// the element of tokensIn a value is read from ("" when it is not one)
	elemOf := func(v ssa.Value, field string) string {
		for _, o := range ff.Origins(v) {
			if o.Kind == "param" && o.Name == fn.Params[1].Name() && (o.Path == "[]"+field || o.Path == "[]") {
				return "tokensIn[]"
			}
		}
		return ""
	}
	pairOK := true
	roles := func(_ string, v ssa.Value) (string, bool) {
		if v == nil {
			return "", false
		}
		if os.Getenv("ELYSLINT_POLY_DEBUG") != "" {
			for _, o := range ff.Origins(v) {
				fmt.Fprintf(os.Stderr, "c05 maxratio leaf %s origin kind=%s name=%s path=%s val=%v\n", v, o.Kind, o.Name, o.Path, o.Val)
			}
		}
		if g, ok := ff.Fwd(v).(*ssa.UnOp); ok {
			if gl, isG := g.X.(*ssa.Global); isG && gl.Name() == "LegacyMaxSortableDec" {
				return "INF", true
			}
		}
		if e := elemOf(v, ".Amount"); e != "" {
			return "AMT", true
		}
		if c, ok := ff.Fwd(v).(*ssa.Call); ok && strings.HasPrefix(core.CalleeName(c.Common()), "AmountOf") && len(c.Common().Args) == 2 {
			fromLiq := false
			for _, o := range ff.Origins(c.Common().Args[0]) {
				if o.Kind == "call" && strings.HasSuffix(o.Name, "GetTotalPoolLiquidity") {
					fromLiq = true
				}
			}
			if fromLiq {
				return "BAL", true
			}
		}
		for _, o := range ff.Origins(v) {
			if strings.HasSuffix(o.Path, ".TotalShares") || strings.HasSuffix(o.Path, ".TotalShares.Amount") || (o.Kind == "call" && strings.HasSuffix(o.Name, "GetTotalShares")) {
				return "TS", true
			}
		}
		return "", false
	}
	// pairing: every reserve lookup in a ratio uses the denom of the coin whose amount it divides
	for _, c := range core.Calls(fn) {
		if !strings.HasPrefix(core.CalleeName(c.Common()), "AmountOf") || len(c.Common().Args) != 2 {
			continue
		}
		if elemOf(c.Common().Args[1], ".Denom") == "" {
			pairOK = false
		}
	}
	spec := core.MakeOpaque("MinAcc", nil, core.ParsePoly("INF"), core.ParsePoly("AMT/BAL")).Mul(core.ParsePoly("TS"))
	n := 0
	for _, ex := range ff.Exits() {
		ret, ok := ex.Instr.(*ssa.Return)
		if !ok || ex.Kind == core.ExitError || len(ret.Results) == 0 {
			continue
		}
		n++
		inner, op := ff.PolyOf(ret.Results[0]).Outer()
		rp, _ := inner.Rename(roles)
		if os.Getenv("ELYSLINT_POLY_DEBUG") != "" {
			fmt.Fprintf(os.Stderr, "c05 maxratio %s(%s) vs %s\n", op, rp, spec)
		}
		good := (op == "Trunc" || op == "Round" || op == "") && rp.Equal(spec) && pairOK
		R.Add(rule, key, "all-asset join shares = totalShares · min over coins of amount/reserve", P.Pos(P.InstrPos(ret)), good,
			fmt.Sprintf("shares are %s(%s); expected Trunc(%s) with every reserve looked up by the coin's own denom (pairing ok: %v)", op, rp, spec, pairOK))
	}
	if n == 0 {
		R.Add(rule, key, "all-asset join shares", P.Pos(fn.Pos()), false, "no success return (anchor changed)")
	}
}
