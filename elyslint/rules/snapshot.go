package rules

import (
	"fmt"
	"os"
	"sort"
	"strings"

	"elyslint/core"

	"golang.org/x/tools/go/ssa"
)

// Snapshot role (C03-snapshot-role, re-stated under C05).  The amm keeps, per pool and per
// block, a *snapshot* of the pool as it was when the block first touched it
// (GetPoolSnapshotOrSet / GetAccountedPoolSnapshotOrSet).  It exists only to measure how far
// the block has already moved the pool (stacked slippage, oracle weights).  The reserves a
// swap, join or exit is priced against must be the live record: pricing on the snapshot
// prices every later operation of the block as if the earlier ones had not happened
// (a split trade becomes cheaper than the whole; a second join mints shares at the
// first one's price).
//
// Decided as a role rule over the resolved program: the snapshot record is tracked from
// the two constructors through locals, by-pointer arguments and parameters
// (interprocedural may-taint to a fixpoint); wherever it is the RECEIVER of a pool method
// that method must be one of the read-only helpers frozen in tables/snapshot_methods.json,
// and it is never handed to a function that stores a pool.
func checkSnapshotRole(P *core.Program, R *core.Report, rule string) {
	var tbl struct {
		Receivers map[string]string `json:"receivers"`
		Sinks     []string          `json:"sinks"`
	}
	if err := loadTable("snapshot_methods.json", &tbl); err != nil {
		R.Undecided(rule, "-", "tables/snapshot_methods.json", "-", err.Error())
		return
	}
	isSource := func(name string) bool {
		return strings.HasSuffix(name, "Keeper.GetPoolSnapshotOrSet") || strings.HasSuffix(name, "Keeper.GetAccountedPoolSnapshotOrSet")
	}
	type pkey struct {
		fn  *ssa.Function
		idx int
	}
	tainted := map[pkey]bool{}
	var fns []*ssa.Function
	for _, fn := range P.Funcs {
		if fn.Blocks == nil || core.IsGeneratedOrAux(P.File(fn.Pos())) || strings.HasSuffix(P.File(fn.Pos()), "_test.go") {
			continue
		}
		k := P.Key(fn)
		if !strings.HasPrefix(k, "x/") || isSource(k) {
			continue
		}
		fns = append(fns, fn)
	}
	sort.Slice(fns, func(i, j int) bool { return P.Key(fns[i]) < P.Key(fns[j]) })
	paramIdx := func(fn *ssa.Function, name string) int {
		for i, p := range fn.Params {
			if p.Name() == name {
				return i
			}
		}
		return -1
	}
	isSnap := func(fn *ssa.Function, ff *core.FuncFacts, v ssa.Value) bool {
		for _, o := range recordOrigins(ff, v) {
			if o.Path != "" {
				continue
			}
			switch o.Kind {
			case "call":
				if isSource(o.Name) {
					return true
				}
			case "param":
				if i := paramIdx(fn, o.Name); i >= 0 && tainted[pkey{fn, i}] {
					return true
				}
			}
		}
		return false
	}
	type use struct {
		fn     *ssa.Function
		site   ssa.CallInstruction
		callee string
		kind   string // receiver | sink
	}
	var uses []use
	for round := 0; round < 12; round++ {
		changed := false
		uses = uses[:0]
		for _, fn := range fns {
			ff := P.Facts(fn)
			for _, c := range core.Calls(fn) {
				cc := c.Common()
				in, ok := c.(ssa.Instruction)
				if !ok {
					continue
				}
				args := cc.Args
				var callees []*ssa.Function
				if sc := cc.StaticCallee(); sc != nil {
					callees = []*ssa.Function{sc}
				} else {
					callees = P.Callees(in)
				}
				for ai, a := range args {
					if !isPoolRecordType(a.Type()) || !isSnap(fn, ff, a) {
						continue
					}
					for _, callee := range callees {
						ck := P.Key(callee)
						if isSource(ck) {
							continue
						}
						pi := ai
						if cc.IsInvoke() {
							pi = ai + 1 // the receiver is parameter 0 of the concrete method
						}
						if pi == 0 && callee.Signature.Recv() != nil && !cc.IsInvoke() {
							// reported if not in the table; an allowed helper is trusted as
							// read-only, a misuse is not followed into the method
							uses = append(uses, use{fn, c, ck, "receiver"})
							continue
						}
						for _, s := range tbl.Sinks {
							if strings.HasSuffix(ck, s) {
								uses = append(uses, use{fn, c, ck, "sink"})
							}
						}
						if callee.Blocks != nil && pi < len(callee.Params) && !tainted[pkey{callee, pi}] {
							tainted[pkey{callee, pi}] = true
							changed = true
						}
					}
				}
			}
		}
		if !changed {
			break
		}
	}
	n := 0
	seen := map[string]bool{}
	for _, u := range uses {
		k := P.Key(u.fn) + "|" + u.kind + "|" + u.callee
		if seen[k] {
			continue
		}
		seen[k] = true
		n++
		in := u.site.(ssa.Instruction)
		switch u.kind {
		case "receiver":
			_, ok := tbl.Receivers[u.callee]
			R.Add(rule, P.Key(u.fn), "block snapshot as receiver of "+u.callee, P.Pos(P.InstrPos(in)), ok,
				"the per-block pool snapshot may only be read for its reference weights and balances; a pricing, share or update method called ON the snapshot prices against the start-of-block reserves instead of the live pool")
		case "sink":
			R.Add(rule, P.Key(u.fn), "block snapshot handed to "+u.callee, P.Pos(P.InstrPos(in)), false,
				"the per-block snapshot must never be stored or settled as the pool record")
		}
	}
	if os.Getenv("ELYSLINT_POLY_DEBUG") != "" {
		var ks []string
		for k := range tainted {
			ks = append(ks, fmt.Sprintf("%s#%d", P.Key(k.fn), k.idx))
		}
		sort.Strings(ks)
		fmt.Fprintln(os.Stderr, "snapshot params:", strings.Join(ks, " "))
	}
	R.Analysed["snapshot_parameters"] = len(tainted)
	if len(tainted) < 8 {
		R.Add(rule, "-", "snapshot flow", "-", false, fmt.Sprintf("only %d parameters receive the block snapshot (expected the pricing functions' snapshot parameters; anchor changed)", len(tainted)))
	}
	if n == 0 {
		R.Add(rule, "-", "snapshot receivers", "-", false, "no receiver use of the snapshot found (anchor changed)")
	}
}

func isPoolRecordType(t interface{ String() string }) bool {
	s := t.String()
	return strings.HasSuffix(s, "x/amm/types.Pool")
}
