package rules

import (
	"fmt"
	"os"
	"sort"
	"strings"

	"elyslint/core"

	"golang.org/x/tools/go/ssa"
)

func init() { register("C03", checkC03) }

// C03 — no swap pays the trader more than the reference price allows.
//
// What is decided is the *direction* of every deviation between what the code computes and
// its reference value (DESIGN §2 R10), by abstract interpretation over the SSA of the four
// pricing functions and everything they call (intervals with exact rational bounds, the
// real-versus-ideal ordering, and the ordering against a designated reference value; guards
// come from the must-hold facts, including backward sign propagation):
//
//	constant-product pools  CalcOutAmtGivenIn:  tokenOut  ≤ the same formula evaluated exactly with fee 0
//	                        CalcInAmtGivenOut:  tokenIn   ≥ the same formula evaluated exactly with fee 0
//	oracle pools            SwapOutAmtGivenIn:  tokenOut  ≤ oracleOutAmount (the value it returns)
//	                        SwapInAmtGivenOut:  tokenIn   ≥ oracleInAmount
//
// i.e. fees, discounts, slippage, the weight-breaking fee and every Dec→Int conversion move
// the amount against the trader.  That the formula itself is the weighted-product formula,
// the 1e-8 precision of Pow and LegacyDec's own 18-digit rounding are not decided.
func checkC03(P *core.Program, R *core.Report) {
	R.Explanation = "Direction of every deviation from the reference price, decided by abstract interpretation (exact-rational intervals + real-vs-ideal ordering + ordering against a reference SSA value, guards from must-hold facts) over the four pricing functions and all their callees: " +
		"constant-product out amounts are ≤ and in amounts ≥ the same expression evaluated exactly with zero fee; oracle-pool out amounts are ≤ the oracle value the function itself reports and in amounts ≥ it. " +
		"A flipped fee factor, a slippage added instead of subtracted, an unclamped negative slippage, a weight-breaking fee outside [0,1], a payout rounded up or a charge rounded down changes the computed direction and fails. " +
		"Not decided: that the expression is the weighted-product formula, Pow's 1e-8 precision, LegacyDec's 18-digit rounding, the range assumptions listed in tables/c03_ranges.json. " +
		"The bonus clause (paid only from the rebalance treasury) and the freshness of the pool each hop is priced on are decided under C01 (C01-bank-vs-book-cancel, C01-pool-fresh)."
	spec, err := loadRangeSpec("c03_ranges.json")
	if err != nil {
		R.Undecided("C03-table", "-", "tables/c03_ranges.json", "-", err.Error())
		return
	}
	CheckRangeEnforced(P, R, "C03-range-enforced")
	used := map[string]bool{}
	type claim struct {
		key    string
		mode   string // "ideal" (D) or "ref" (F against result #refIdx)
		want   core.Dir
		refIdx int
		what   string
	}
	claims := []claim{
		{"x/amm/types.Pool.CalcOutAmtGivenIn", "ideal", core.DLe, -1, "tokenOut ≤ exact zero-fee value of the same expression"},
		{"x/amm/types.Pool.CalcInAmtGivenOut", "ideal", core.DGe, -1, "tokenIn ≥ exact zero-fee value of the same expression"},
		{"x/amm/types.Pool.CalcOutAmtGivenIn", "curve", core.DLe, -1, "tokenOut ≤ the solver's result (every payout is priced on the curve)"},
		{"x/amm/types.Pool.CalcInAmtGivenOut", "curve", core.DGe, -1, "tokenIn ≥ the solver's result (every charge is priced on the curve)"},
		{"x/amm/types.Pool.SwapOutAmtGivenIn", "ref", core.DLe, 4, "oracle pool: tokenOut ≤ oracleOutAmount"},
		{"x/amm/types.Pool.SwapInAmtGivenOut", "ref", core.DGe, 4, "oracle pool: tokenIn ≥ oracleInAmount"},
	}
	for _, cl := range claims {
		fn := P.Fn(cl.key)
		if fn == nil {
			R.Add("C03-direction", cl.key, "function", "-", false, "unresolved anchor")
			continue
		}
		ff := P.Facts(fn)
		n := 0
		for _, ex := range ff.Exits() {
			ret, ok := ex.Instr.(*ssa.Return)
			if !ok || ex.Kind == core.ExitError || len(ret.Results) == 0 {
				continue
			}
			E := core.NewRanger(P, spec)
			ctx := E.TopCtx(fn)
			var av core.AV
			construct := cl.what
			switch cl.mode {
			case "ideal":
				av = E.ValAt(ctx, ret.Results[0], ret)
				n++
				ok := (av.D == cl.want || av.D == core.DEq) && !E.Exhausted
				R.Add("C03-direction", cl.key, construct, P.Pos(P.InstrPos(ret)), ok,
					fmt.Sprintf("computed relation real %s ideal (want %s); value %s. %s", av.D, cl.want, av, notes(E)))
			case "curve":
				// reference = the value solveConstantFunctionInvariant returned in this function
				var ref ssa.Value
				for _, c := range core.Calls(fn) {
					if P.CalleeKey(c.Common()) != "x/amm/types.solveConstantFunctionInvariant" {
						continue
					}
					if v, ok := c.(ssa.Value); ok && v.Referrers() != nil {
						for _, r := range *v.Referrers() {
							if ex, ok := r.(*ssa.Extract); ok && ex.Index == 0 {
								ref = ex
							}
						}
					}
				}
				// the solver returns the change of the unknown balance: exact-out negates it to get the
				// amount to charge — the reference is the amount, i.e. the negated result
				if ref != nil && cl.want == core.DGe && ref.Referrers() != nil {
					for _, r := range *ref.Referrers() {
						if c, ok := r.(*ssa.Call); ok && core.CalleeName(c.Common()) == "Neg" && len(c.Common().Args) == 1 && c.Common().Args[0] == ref {
							ref = c
							break
						}
					}
				}
				n++
				if ref == nil {
					R.Add("C03-direction", cl.key, construct, P.Pos(P.InstrPos(ret)), false, "no call of solveConstantFunctionInvariant whose result is used")
					continue
				}
				E.SetRef(ctx, ref, ret)
				av = E.ValAt(ctx, ret.Results[0], ret)
				ok := av.HasF && (av.F == cl.want || av.F == core.DEq) && !E.Exhausted
				R.Add("C03-direction", cl.key, construct, P.Pos(P.InstrPos(ret)), ok,
					fmt.Sprintf("computed relation amount %s solver result (want %s); value %s. %s", fOf(av), cl.want, av, notes(E)))
			case "ref":
				if cl.refIdx >= len(ret.Results) {
					continue
				}
				// the constant-product branch returns a zero oracle amount: not an oracle return
				refAV := E.ValAt(ctx, ret.Results[cl.refIdx], ret)
				if c, isC := refAV.R.IsConst(); isC && c.Sign() == 0 {
					continue
				}
				n++
				E.SetRef(ctx, ret.Results[cl.refIdx], ret)
				av = E.ValAt(ctx, ret.Results[0], ret)
				ok := av.HasF && (av.F == cl.want || av.F == core.DEq) && E.RefR.GE0() && !E.Exhausted
				R.Add("C03-direction", cl.key, construct, P.Pos(P.InstrPos(ret)), ok,
					fmt.Sprintf("computed relation amount %s reference (want %s); reference range %s; value %s. %s", fOf(av), cl.want, E.RefR, av, notes(E)))
			}
			for u := range E.Used {
				used[u] = true
			}
		}
		if n == 0 {
			R.Add("C03-direction", cl.key, cl.what, P.Pos(fn.Pos()), false, "no success return found (anchor changed)")
		}
	}
	var us []string
	for u := range used {
		us = append(us, u)
	}
	sort.Strings(us)
	for _, u := range us {
		R.Assume("C03 range assumption used: " + u)
	}
	R.Analysed["c03_range_assumptions_used"] = len(us)
	checkSolvePairing(P, R)
	checkSnapshotRole(P, R, "C03-snapshot-role")
	checkSeriesConverged(P, R)
}

func fOf(av core.AV) string {
	if !av.HasF {
		return "unrelated to"
	}
	return av.F.String()
}

func notes(E *core.Ranger) string {
	if len(E.Why) == 0 {
		return ""
	}
	s := "notes: "
	for i, w := range E.Why {
		if i > 3 {
			break
		}
		s += w + "; "
	}
	return s
}

// checkSolvePairing: solveConstantFunctionInvariant(balFixedBefore, balFixedAfter, weightFixed,
// balUnknownBefore, weightUnknown) prices one asset against another; the weight handed in
// next to a balance must be the weight of the very pool-asset record the balance is read
// from (the in-asset's balance with the in-asset's weight, the out-asset's with the
// out-asset's).  Decided by provenance for every call site in the amm types package: the
// pool-asset roots of the weight argument (ignoring the oracle-weight override, which is
// indexed in the same order) equal those of the balance argument.
func checkSolvePairing(P *core.Program, R *core.Report) {
	solve := P.Fn("x/amm/types.solveConstantFunctionInvariant")
	if solve == nil {
		R.Add("C03-pairing", "x/amm/types.solveConstantFunctionInvariant", "function", "-", false, "unresolved anchor")
		return
	}
	n := 0
	for _, e := range P.CG().In[solve] {
		fn := e.Caller
		if core.IsGeneratedOrAux(P.File(fn.Pos())) {
			continue
		}
		c, ok := e.Site.(ssa.CallInstruction)
		if !ok || len(c.Common().Args) != 5 {
			continue
		}
		ff := P.Facts(fn)
		// the PoolAsset record(s) a value is read from: origins whose path runs through a
		// PoolAsset field (…Token.Amount / …Weight); identified by root value and tuple slot
		assetRoots := func(v ssa.Value, field string) map[string]bool {
			out := map[string]bool{}
			for _, o := range ff.OriginsT(v, func(c *ssa.Call) []ssa.Value {
				switch core.CalleeName(c.Common()) {
				case "LegacyNewDecFromInt", "ToLegacyDec", "NewInt", "LegacyNewDec", "LegacyNewDecFromBigInt", "BigInt":
					return c.Common().Args[:1]
				}
				return nil
			}) {
				i := strings.LastIndex(o.Path, field)
				if i < 0 || o.Val == nil {
					continue
				}
				if o.Kind == "call" && strings.HasSuffix(o.Name, "GetOraclePoolNormalizedWeights") {
					continue // oracle pools override the weights by an array built in argument order
				}
				out[fmt.Sprintf("%s%s", ff.TermKey(o.Val), o.Path[:i])] = true
			}
			return out
		}
		a := c.Common().Args
		if os.Getenv("ELYSLINT_POLY_DEBUG") != "" {
			for i, x := range a {
				fmt.Fprintf(os.Stderr, "c03 pairing %s arg%d:", P.Key(fn), i)
				for _, o := range ff.Origins(x) {
					fmt.Fprintf(os.Stderr, " [%s]", o)
				}
				fmt.Fprintln(os.Stderr)
			}
		}
		pairs := [][2]int{{0, 2}, {3, 4}}
		names := []string{"fixed side", "unknown side"}
		for pi, pr := range pairs {
			bal := assetRoots(a[pr[0]], ".Token.Amount")
			w := assetRoots(a[pr[1]], ".Weight")
			if len(bal) == 0 || len(w) == 0 {
				continue // share-pricing calls (join/exit) pass totals and the constant one
			}
			n++
			same := len(bal) == len(w)
			for k := range bal {
				if !w[k] {
					same = false
				}
			}
			R.Add("C03-pairing", P.Key(fn), "solve: weight and balance of the "+names[pi], P.Pos(P.InstrPos(c)), same,
				fmt.Sprintf("the weight must belong to the pool asset whose balance is priced; balance from %v, weight from %v", keysOf(bal), keysOf(w)))
		}
	}
	if n == 0 {
		R.Add("C03-pairing", "x/amm/types.solveConstantFunctionInvariant", "call sites", "-", false, "no swap call site pairs a pool-asset balance with a weight (anchor changed)")
	}
}

func keysOf(m map[string]bool) []string {
	var ks []string
	for k := range m {
		ks = append(ks, k)
	}
	sort.Strings(ks)
	return ks
}

// checkIdealDirection: result #idx of fn is ≤ (DLe) / ≥ (DGe) the same expression evaluated
// exactly with the table's ideal parameter values (fees at zero), on every success return.
func checkIdealDirection(P *core.Program, R *core.Report, rule, table, key string, idx int, want core.Dir, what string) {
	spec, err := loadRangeSpec(table)
	if err != nil {
		R.Undecided(rule, "-", "tables/"+table, "-", err.Error())
		return
	}
	fn := P.Fn(key)
	if fn == nil {
		R.Add(rule, key, "function", "-", false, "unresolved anchor")
		return
	}
	ff := P.Facts(fn)
	n := 0
	for _, ex := range ff.Exits() {
		ret, ok := ex.Instr.(*ssa.Return)
		if !ok || ex.Kind == core.ExitError || idx >= len(ret.Results) {
			continue
		}
		E := core.NewRanger(P, spec)
		ctx := E.TopCtx(fn)
		av := E.ValAt(ctx, ret.Results[idx], ret)
		n++
		okD := (av.D == want || av.D == core.DEq) && !E.Exhausted
		R.Add(rule, key, what, P.Pos(P.InstrPos(ret)), okD,
			fmt.Sprintf("computed relation real %s ideal (want %s); value %s. %s", av.D, want, av, notes(E)))
		for u := range E.Used {
			R.Assume("range assumption used: " + u)
		}
	}
	if n == 0 {
		R.Add(rule, key, what, P.Pos(fn.Pos()), false, "no success return found (anchor changed)")
	}
}

// checkSeriesConverged (C03-series-converged): Pow's fractional path (exp ∘ ln) is a pair
// of truncated series; the documented 1e-8 precision holds only if a series result is
// returned after its last term fell below powPrecision.  Decided as a must-hold fact: every
// success return reachable from the comparison with powPrecision carries that comparison
// (|term| ≤ / < powPrecision) — the only way out of the loop with a result is the
// convergence break; running out of iterations must be an error, not a silent result
// (which under-charges an exact-out swap by orders of magnitude more than the allowance).
func checkSeriesConverged(P *core.Program, R *core.Report) {
	const rule = "C03-series-converged"
	for _, key := range []string{"x/amm/types.computeExp", "x/amm/types.computeLn"} {
		fn := P.Fn(key)
		if fn == nil {
			R.Add(rule, key, "function", "-", false, "unresolved anchor")
			continue
		}
		ff := P.Facts(fn)
		isPrec := func(v ssa.Value) bool {
			if v == nil || v == core.ZeroMarker || v == core.NilMarker {
				return false
			}
			for _, o := range ff.Origins(v) {
				if o.Kind == "global" && strings.HasSuffix(o.Name, "powPrecision") {
					return true
				}
			}
			return false
		}
		var cmps []ssa.Instruction
		for _, c := range core.Calls(fn) {
			switch core.CalleeName(c.Common()) {
			case "LT", "LTE", "GT", "GTE":
				a := c.Common().Args
				if len(a) == 2 && (isPrec(a[0]) || isPrec(a[1])) {
					cmps = append(cmps, c.(ssa.Instruction))
				}
			}
		}
		if len(cmps) == 0 {
			R.Add(rule, key, "comparison with powPrecision", P.Pos(fn.Pos()), false, "the series loop no longer compares its term with powPrecision (anchor changed)")
			continue
		}
		n := 0
		for _, ex := range ff.Exits() {
			if ex.Kind == core.ExitError {
				continue
			}
			reach := false
			for _, c := range cmps {
				if reachesInstr(fn, c, ex.Instr) {
					reach = true
				}
			}
			if !reach {
				continue
			}
			n++
			conv := false
			for _, a := range ff.At(ex.Instr) {
				if (a.Rel == core.LT || a.Rel == core.LE) && isPrec(a.B) && a.A != nil && !isPrec(a.A) {
					conv = true
				}
			}
			R.Add(rule, key, "series result returned only after convergence", P.Pos(P.InstrPos(ex.Instr)), conv,
				"a success return after the series loop must carry |term| ≤ powPrecision; leaving the loop any other way must be an error")
		}
		if n == 0 {
			R.Add(rule, key, "series result", P.Pos(fn.Pos()), false, "no success return after the series loop (anchor changed)")
		}
	}
}
