package rules

import (
	"go/token"
	"fmt"
	"sort"
	"strings"

	"elyslint/core"

	"golang.org/x/tools/go/ssa"
)

// R1 — paired ledgers as a linear invariant (DESIGN §2 R1, Appendix C/D5/D6).
//
// A property names ledgers (tracked struct fields, bank balances of classified accounts,
// effects of frozen helper calls) and gives each a coefficient in an invariant
//     Σ coeff(L) · value(L) = const.
// For every consensus-reachable function the deltas it applies are extracted, grouped into
// control-equivalence classes (instructions that lie on exactly the same success paths) and
// each class must sum to zero symbolically (linear normal forms over SSA values).
// A function that produces a tracked delta and does not cancel is a violation unless it is
// a declared helper whose effect callers account for.

type FieldLedger struct {
	Pkg, Type, Field string // package path suffix (module-relative), struct type, field
	Ledger           string
	Persist          string // callee key that makes the struct durable ("" = not checked)
}

type CallLedger struct {
	Callee string // function key (or interface method key) matched with calleeMatches
	Ledger string
	Sign   int // +1 / -1; 0 = taken from the bool argument SignArg (true = +)
	// AmtArg is an index into CallCommon.Args for static calls *including* the receiver;
	// for invoke calls the receiver is not part of Args, so the index is shifted by the
	// engine (IfaceShift). AmtRes >= 0 selects a result instead.
	AmtArg  int
	AmtRes  int
	SignArg int
	Note    string
	// Filter optionally restricts the entry to calls satisfying a predicate (e.g. the denom
	// argument has share-denom provenance).
	Filter func(P *core.Program, ff *core.FuncFacts, c ssa.CallInstruction) bool
}

type LedgerSpec struct {
	Property string
	Rule     string
	Fields   []FieldLedger
	Calls    []CallLedger
	// Bank classifies the two ends of a transfer; it returns ledger names ("" = untracked).
	Bank func(P *core.Program, ff *core.FuncFacts, c ssa.CallInstruction, from, to ssa.Value, coins ssa.Value) (fromLedger, toLedger string)
	// MintBurn classifies a mint/burn: ledger name or "".
	MintBurn func(P *core.Program, ff *core.FuncFacts, c ssa.CallInstruction, module ssa.Value, coins ssa.Value) string
	Coeff    map[string]int
	// Helpers are functions whose own deltas are accounted for by their callers through
	// Calls entries (or that are pure bookkeeping primitives): not required to cancel.
	Helpers map[string]string // function key → reason
	// AssignOK lists (function key + " " + ledger) whose plain assignment is accepted, with
	// the sign it stands for: "+", "-" (fresh record / destroyed record) or "copy".
	AssignOK map[string]string
	// Exempt functions (with reason) — e.g. upgrade-only or genesis code.
	Exempt map[string]string
	// Subjects restricts the analysis to functions reachable from these roots.
	Subjects map[*ssa.Function]bool
	// Scratch lists functions (with reason) that work on a scratch copy of a record for
	// estimation / display; accepted only if they cannot reach any of NoPersist.
	Scratch   map[string]string
	NoPersist []string
	// HelperEffects: declared net effect of a helper (what its callers account for through
	// Calls entries); verified against the helper's own body.
	HelperEffects map[string][]HelperEffect
	// SubHelpers: frozen functions f(old, amount) that return old ± amount (saturating
	// forms); `x.F = f(x.F, v)` then counts as a delta of that sign.
	SubHelpers map[string]int
	// OnlyPkgs restricts subjects to functions of these package prefixes.
	OnlyPkgs []string
	// OnlyFuncs restricts subjects to the listed function keys (anchored form).
	OnlyFuncs []string
	// Extra lets a property add deltas the generic extractors cannot see.
	Extra func(P *core.Program, ff *core.FuncFacts, fn *ssa.Function) []Delta
}

// HelperEffect: the helper changes Ledger by Sign · (parameter #Param), on every success path.
type HelperEffect struct {
	Ledger string
	Sign   int
	Param  int
}

type Delta struct {
	Ledger string
	Sign   int // +1 / -1 / 0 (assign)
	Amt    core.Lin
	Instr  ssa.Instruction
	Base   ssa.Value
	Field  *FieldLedger
	Desc   string
}

func (d Delta) String() string {
	s := map[int]string{1: "+", -1: "-", 0: ":="}[d.Sign]
	return fmt.Sprintf("%s %s(%s)", d.Ledger, s, d.Amt)
}

func matchFieldLedger(spec *LedgerSpec, fa *ssa.FieldAddr) *FieldLedger {
	fname := core.FieldName(fa.X.Type(), fa.Field)
	nt := core.AsNamed(fa.X.Type())
	if nt == nil || nt.Obj().Pkg() == nil {
		return nil
	}
	for i := range spec.Fields {
		f := &spec.Fields[i]
		if f.Field == fname && f.Type == nt.Obj().Name() && strings.HasSuffix(nt.Obj().Pkg().Path(), f.Pkg) {
			return f
		}
	}
	return nil
}

// sameLocation: two addresses denote the same field of the same base.
func sameLocation(ff *core.FuncFacts, a, b ssa.Value) bool {
	fa, ok1 := a.(*ssa.FieldAddr)
	fb, ok2 := b.(*ssa.FieldAddr)
	if ok1 && ok2 {
		return fa.Field == fb.Field && sameLocation(ff, fa.X, fb.X)
	}
	if ok1 != ok2 {
		return false
	}
	ia, ok1 := a.(*ssa.IndexAddr)
	ib, ok2 := b.(*ssa.IndexAddr)
	if ok1 && ok2 {
		return ff.Fwd(ia.Index) == ff.Fwd(ib.Index) && sameLocation(ff, ia.X, ib.X)
	}
	if ff.Fwd(a) == ff.Fwd(b) {
		return true
	}
	// two loads of the same slice header / pointer field (x.items[i] evaluated twice)
	ua, ok1 := a.(*ssa.UnOp)
	ub, ok2 := b.(*ssa.UnOp)
	if ok1 && ok2 && ua.Op == token.MUL && ub.Op == token.MUL {
		_, isFA := ua.X.(*ssa.FieldAddr)
		_, isIA := ua.X.(*ssa.IndexAddr)
		return (isFA || isIA) && sameLocation(ff, ua.X, ub.X)
	}
	return false
}

// ExtractDeltas finds every tracked delta of fn.
func ExtractDeltas(P *core.Program, spec *LedgerSpec, fn *ssa.Function) []Delta {
	ff := P.Facts(fn)
	var out []Delta
	for _, b := range fn.Blocks {
		for _, in := range b.Instrs {
			switch x := in.(type) {
			case *ssa.Store:
				fa, ok := x.Addr.(*ssa.FieldAddr)
				if !ok {
					continue
				}
				fl := matchFieldLedger(spec, fa)
				if fl == nil {
					continue
				}
				base, _ := baseOf(fa)
				d := Delta{Ledger: fl.Ledger, Instr: in, Base: base, Field: fl}
				val := ff.Fwd(x.Val)
				if call, ok := val.(*ssa.Call); ok && !call.Common().IsInvoke() {
					cc := call.Common()
					if sc := cc.StaticCallee(); sc != nil && sc.Signature.Recv() != nil && core.IsMathType(sc.Signature.Recv().Type()) &&
						(sc.Name() == "Add" || sc.Name() == "Sub") && len(cc.Args) == 2 {
						// receiver must be a load of the same location
						if ld, ok := cc.Args[0].(*ssa.UnOp); ok && sameLocation(ff, ld.X, fa) {
							d.Sign = 1
							if sc.Name() == "Sub" {
								d.Sign = -1
							}
							d.Amt = linOfArg(ff, cc.Args[1])
							d.Desc = fl.Ledger + " " + sc.Name()
							out = append(out, d)
							continue
						}
					}
				}
				if call, ok := val.(*ssa.Call); ok && len(call.Common().Args) == 2 {
					matched := false
					for hk, sign := range spec.SubHelpers {
						if calleeMatches(P, call, hk) {
							if ld, ok := call.Common().Args[0].(*ssa.UnOp); ok && sameLocation(ff, ld.X, fa) {
								d.Sign = sign
								d.Amt = linOfArg(ff, call.Common().Args[1])
								d.Desc = fl.Ledger + " via " + hk
								out = append(out, d)
								matched = true
							}
						}
					}
					if matched {
						continue
					}
				}
				// general read-modify-write: the stored value is linear in the old value of
				// the same location with coefficient one (amount.Add(old), old.Add(x.Neg()),
				// old.Sub(a).Add(b), Coin.AddAmount …): the delta is the rest
				ff.LeafKey = func(v ssa.Value) (string, bool) {
					if ld, ok := v.(*ssa.UnOp); ok && ld.Op == token.MUL && (sameLocation(ff, ld.X, fa) || sameFieldOfCopySource(ff, ld.X, fa)) {
						return "@OLD", true
					}
					return "", false
				}
				whole := ff.LinOf(x.Val)
				ff.LeafKey = nil
				if whole["@OLD"] == 1 {
					d.Sign = 1
					d.Amt = whole.Plus(core.Lin{"@OLD": 1}, -1)
					d.Desc = fl.Ledger + " read-modify-write"
					out = append(out, d)
					continue
				}
				d.Sign = 0
				d.Amt = ff.LinOf(x.Val)
				d.Desc = fl.Ledger + " assigned"
				if _, isAlloc := base.(*ssa.Alloc); isAlloc && d.Amt.IsZero() {
					continue // zero-initialisation of a fresh local record
				}
				out = append(out, d)
			case ssa.CallInstruction:
				cc := x.Common()
				for i := range spec.Calls {
					cl := &spec.Calls[i]
					if !calleeMatches(P, x, cl.Callee) {
						continue
					}
					if cl.Filter != nil && !cl.Filter(P, ff, x) {
						continue
					}
					d := Delta{Ledger: cl.Ledger, Instr: in, Sign: cl.Sign, Desc: "call " + cl.Callee}
					shift := 0
					if cc.IsInvoke() {
						shift = 1
					}
					if cl.Sign == 0 {
						idx := cl.SignArg - shift
						if idx < 0 || idx >= len(cc.Args) {
							d.Amt = core.Lin{"?sign-arg": 1}
						} else if c, ok := cc.Args[idx].(*ssa.Const); ok && c.Value != nil {
							if c.Value.String() == "true" {
								d.Sign = 1
							} else {
								d.Sign = -1
							}
						} else {
							// sign decided at run time: give it an opaque marker so it cannot cancel silently
							d.Sign = 1
							d.Amt = core.Lin{"?dynamic-sign@" + P.Pos(P.InstrPos(in)): 1}
							out = append(out, d)
							continue
						}
					}
					if cl.AmtRes >= 0 {
						d.Amt = resultLin(ff, x, cl.AmtRes)
					} else {
						idx := cl.AmtArg - shift
						if idx < 0 || idx >= len(cc.Args) {
							d.Amt = core.Lin{"?amount-arg": 1}
						} else {
							d.Amt = linOfArg(ff, cc.Args[idx])
						}
					}
					out = append(out, d)
				}
				switch P.EffectOf(x) {
				case core.EffBankSend:
					if spec.Bank == nil {
						continue
					}
					from, to, coins := bankEnds(x)
					if coins == nil {
						continue
					}
					fl, tl := spec.Bank(P, ff, x, from, to, coins)
					amt := linOfArg(ff, coins)
					if fl != "" {
						out = append(out, Delta{Ledger: fl, Sign: -1, Amt: amt, Instr: in, Desc: "bank send from"})
					}
					if tl != "" {
						out = append(out, Delta{Ledger: tl, Sign: 1, Amt: amt, Instr: in, Desc: "bank send to"})
					}
				case core.EffMint, core.EffBurn:
					if spec.MintBurn == nil {
						continue
					}
					args := cc.Args
					if len(args) < 3 {
						continue
					}
					mod, coins := args[len(args)-2], args[len(args)-1]
					if l := spec.MintBurn(P, ff, x, mod, coins); l != "" {
						s := 1
						if P.EffectOf(x) == core.EffBurn {
							s = -1
						}
						out = append(out, Delta{Ledger: l, Sign: s, Amt: linOfArg(ff, coins), Instr: in, Desc: P.EffectOf(x)})
					}
				}
			}
		}
	}
	return out
}

func baseOf(fa *ssa.FieldAddr) (ssa.Value, []int) {
	var path []int
	var v ssa.Value = fa
	for {
		if f, ok := v.(*ssa.FieldAddr); ok {
			path = append([]int{f.Field}, path...)
			v = f.X
			continue
		}
		return v, path
	}
}

func linOfArg(ff *core.FuncFacts, v ssa.Value) core.Lin {
	if els, ok := core.SliceLiteral(ff.Fwd(v)); ok {
		r := core.Lin{}
		for _, e := range els {
			r = r.Plus(ff.LinOf(e), 1)
		}
		return r
	}
	return ff.LinOf(v)
}

func resultLin(ff *core.FuncFacts, c ssa.CallInstruction, idx int) core.Lin {
	v, ok := c.(ssa.Value)
	if !ok {
		return core.Lin{"?no-result": 1}
	}
	if v.Referrers() != nil {
		for _, r := range *v.Referrers() {
			if ex, ok := r.(*ssa.Extract); ok && ex.Index == idx {
				return ff.LinOf(ex)
			}
		}
	}
	if idx == 0 {
		return ff.LinOf(v)
	}
	return core.Lin{fmt.Sprintf("?unused-result-%d", idx): 1}
}

// bankEnds returns (from, to, coins) of a bank transfer primitive.
func bankEnds(c ssa.CallInstruction) (from, to, coins ssa.Value) {
	args := c.Common().Args
	if !c.Common().IsInvoke() && len(args) > 0 {
		args = args[1:] // drop receiver
	}
	// args: ctx, from, to, coins
	if len(args) < 4 {
		return nil, nil, nil
	}
	return args[1], args[2], args[3]
}

// sameControl: a and b lie on exactly the same success paths.
func sameControl(ff *core.FuncFacts, a, b ssa.Instruction) bool {
	if a == b {
		return true
	}
	if !core.Dominates(a, b) {
		if !core.Dominates(b, a) {
			return false
		}
		a, b = b, a
	}
	// a dominates b: every path through b passes a. Need: every success path through a passes b.
	_, reach := ff.SuccessExitReachableWithout(a, func(in ssa.Instruction) bool { return in == b })
	return !reach
}

// CheckLedgers runs the invariant-cancellation rule over all subject functions.
func CheckLedgers(P *core.Program, R *core.Report, spec *LedgerSpec) {
	var fns []*ssa.Function
	for fn := range spec.Subjects {
		fns = append(fns, fn)
	}
	sort.Slice(fns, func(i, j int) bool { return P.Key(fns[i]) < P.Key(fns[j]) })
	usedHelpers := map[string]bool{}
	for _, fn := range fns {
		key := P.Key(fn)
		file := P.File(fn.Pos())
		if core.IsGeneratedOrAux(file) {
			continue
		}
		if len(spec.OnlyFuncs) > 0 {
			in := false
			for _, k := range spec.OnlyFuncs {
				if k == key {
					in = true
				}
			}
			if !in {
				continue
			}
		}
		if len(spec.OnlyPkgs) > 0 {
			in := false
			for _, pp := range spec.OnlyPkgs {
				if strings.HasPrefix(core.PkgRel(fn)+"/", pp) {
					in = true
				}
			}
			if !in {
				continue
			}
		}
		deltas := ExtractDeltas(P, spec, fn)
		if spec.Extra != nil && len(deltas) > 0 {
			deltas = append(deltas, spec.Extra(P, P.Facts(fn), fn)...)
		}
		if len(deltas) == 0 {
			continue
		}
		if why, ok := spec.Exempt[key]; ok {
			R.Add(spec.Rule+"-exempt", key, "exempt writer", P.Pos(fn.Pos()), true, why)
			continue
		}
		if why, ok := spec.Scratch[key]; ok {
			bad := ""
			reach := P.Reach([]*ssa.Function{fn})
			for _, np := range spec.NoPersist {
				if f := P.Fn(np); f != nil && reach[f] {
					bad = "but it can reach " + np
				}
			}
			R.Add(spec.Rule+"-scratch", key, "scratch record", P.Pos(fn.Pos()), bad == "", why+" "+bad)
			continue
		}
		if why, ok := spec.Helpers[key]; ok {
			usedHelpers[key] = true
			effs, declared := spec.HelperEffects[key]
			if !declared {
				R.Add(spec.Rule+"-helper", key, "declared helper", P.Pos(fn.Pos()), true, why+" — deltas: "+deltaList(deltas))
				continue
			}
			// body must produce exactly the declared effect on every success path
			ff := P.Facts(fn)
			sums := map[string]core.Lin{}
			bad := ""
			for _, d := range deltas {
				if d.Sign == 0 {
					bad = "plain assignment " + d.String()
					continue
				}
				if _, escapes := ff.SuccessExitReachableWithout(nil, func(in ssa.Instruction) bool { return in == d.Instr }); escapes {
					bad = "delta " + d.String() + " is not on every success path"
					continue
				}
				if sums[d.Ledger] == nil {
					sums[d.Ledger] = core.Lin{}
				}
				sums[d.Ledger] = sums[d.Ledger].Plus(d.Amt, d.Sign)
			}
			for _, e := range effs {
				want := core.Lin{}
				if e.Param < len(fn.Params) {
					want = core.Lin{fn.Params[e.Param].Name(): e.Sign}
				}
				got := sums[e.Ledger]
				if got == nil {
					got = core.Lin{}
				}
				if !got.Equal(want) {
					bad = fmt.Sprintf("declared %s %+d·%s but body gives %s", e.Ledger, e.Sign, fn.Params[e.Param].Name(), got.String())
				}
				delete(sums, e.Ledger)
			}
			for l, rest := range sums {
				if !rest.IsZero() {
					bad = "undeclared effect on " + l + ": " + rest.String()
				}
			}
			R.Add(spec.Rule+"-helper", key, "declared effect matches body", P.Pos(fn.Pos()), bad == "", why+" — deltas: "+deltaList(deltas)+". "+bad)
			for _, d := range deltas {
				checkErrorGated(P, R, spec.Rule, key, ff, d, deltas, true)
			}
			continue
		}
		ff := P.Facts(fn)
		// assignments
		var live []Delta
		for _, d := range deltas {
			if d.Sign != 0 {
				live = append(live, d)
				continue
			}
			mode, ok := spec.AssignOK[key+" "+d.Ledger]
			switch {
			case !ok:
				R.Add(spec.Rule+"-assign", key, d.Ledger+" assigned", P.Pos(P.InstrPos(d.Instr)), false,
					"tracked ledger is overwritten by a plain assignment (not old±amount); value "+d.Amt.String())
			case mode == "+":
				d.Sign = 1
				live = append(live, d)
			case mode == "-":
				d.Sign = -1
				live = append(live, d)
			default: // "copy": the stored value of the same ledger is carried over
				st := d.Instr.(*ssa.Store)
				okCopy := ff.AllOrigins(st.Val, nil, func(o core.Origin) bool {
					return o.Kind == "call" && strings.HasSuffix(o.Path, "."+d.Field.Field)
				})
				// the record being stored is a foreign one (the message's): the live value must
				// be carried over on EVERY path that goes on to succeed, not under a condition
				_, escapes := ff.SuccessExitReachableWithout(nil, func(in ssa.Instruction) bool { return in == d.Instr })
				why := ""
				if escapes {
					why = " — a success path skips the carry-over (the stale value carried in the foreign record is stored)"
				}
				R.Add(spec.Rule+"-assign", key, d.Ledger+" assigned", P.Pos(P.InstrPos(d.Instr)), okCopy && !escapes,
					"frozen as copy: the assigned value must be the same field of a freshly loaded record, on every success path"+why)
			}
		}
		// control classes
		n := len(live)
		cls := make([]int, n)
		for i := range cls {
			cls[i] = i
		}
		var find func(i int) int
		find = func(i int) int {
			if cls[i] != i {
				cls[i] = find(cls[i])
			}
			return cls[i]
		}
		for i := 0; i < n; i++ {
			for j := i + 1; j < n; j++ {
				if find(i) != find(j) && sameControl(ff, live[i].Instr, live[j].Instr) {
					cls[find(j)] = find(i)
				}
			}
		}
		groups := map[int][]Delta{}
		var order []int
		for i := 0; i < n; i++ {
			r := find(i)
			if _, ok := groups[r]; !ok {
				order = append(order, r)
			}
			groups[r] = append(groups[r], live[i])
		}
		for gi, r := range order {
			g := groups[r]
			sum := core.Lin{}
			for _, d := range g {
				coeff, ok := spec.Coeff[d.Ledger]
				if !ok {
					sum = sum.Plus(core.Lin{"?no-coefficient:" + d.Ledger: 1}, 1)
					continue
				}
				sum = sum.Plus(d.Amt, coeff*d.Sign)
			}
			construct := "control class " + fmt.Sprint(gi+1) + ": " + ledgerSet(g)
			R.Add(spec.Rule+"-cancel", key, construct, P.Pos(P.InstrPos(g[0].Instr)), sum.IsZero(),
				fmt.Sprintf("deltas on the same success paths must cancel in the invariant; deltas: %s; residue: %s", deltaList(g), sum.String()))
		}
		// error gating: a half applied by a call that can fail counts only where its error is nil
		for _, r := range order {
			g := groups[r]
			if len(g) < 2 {
				continue
			}
			for _, d := range g {
				checkErrorGated(P, R, spec.Rule, key, ff, d, g, false)
			}
		}
		// persistence of field deltas
		for _, d := range live {
			if d.Field == nil || d.Field.Persist == "" || d.Base == nil {
				continue
			}
			ok := persisted(P, ff, d)
			R.Add(spec.Rule+"-persist", key, d.Ledger+" → "+d.Field.Persist, P.Pos(P.InstrPos(d.Instr)), ok,
				"the updated record must reach "+d.Field.Persist+" on every success path after the update")
		}
	}
	for _, k := range spec.OnlyFuncs {
		if P.Fn(k) == nil {
			R.Add(spec.Rule+"-cancel", k, "anchored function", "-", false, "anchored function not found (unresolved anchor)")
		}
	}
	for h := range spec.Helpers {
		if P.Fn(h) == nil {
			R.Add(spec.Rule+"-helper", h, "declared helper", "-", false, "declared helper not found (unresolved anchor)")
		}
	}
	for e := range spec.Exempt {
		if P.Fn(e) == nil {
			R.Add(spec.Rule+"-exempt", e, "exempt writer", "-", false, "exempt function not found (unresolved anchor)")
		}
	}
}

func deltaList(ds []Delta) string {
	var s []string
	for _, d := range ds {
		s = append(s, d.String())
	}
	return strings.Join(s, "; ")
}

func ledgerSet(ds []Delta) string {
	seen := map[string]bool{}
	var s []string
	for _, d := range ds {
		if !seen[d.Ledger] {
			seen[d.Ledger] = true
			s = append(s, d.Ledger)
		}
	}
	sort.Strings(s)
	return strings.Join(s, ",")
}

// persisted: after the delta every success path passes a call of the persister that
// receives the updated struct (the base pointer, or a load of it).
func persisted(P *core.Program, ff *core.FuncFacts, d Delta) bool {
	roots := map[ssa.Value]bool{d.Base: true}
	if a, ok := d.Base.(*ssa.Alloc); ok && a.Referrers() != nil {
		// a value parameter / call result spilled into a local: the stored value is the same record
		for _, r := range *a.Referrers() {
			if st, ok := r.(*ssa.Store); ok && st.Addr == ssa.Value(a) {
				for _, o := range ff.Origins(st.Val) {
					roots[o.Val] = true
				}
			}
		}
	}
	isPersist := func(in ssa.Instruction) bool {
		c, ok := in.(ssa.CallInstruction)
		if !ok {
			return false
		}
		m := false
		for _, pk := range strings.Split(d.Field.Persist, "|") {
			if calleeMatches(P, c, pk) {
				m = true
			}
		}
		if !m {
			return false
		}
		for _, a := range c.Common().Args {
			if a == d.Base {
				return true
			}
			if u, ok := a.(*ssa.UnOp); ok && u.X == d.Base {
				return true
			}
			// value loaded from the base earlier is not the updated one; only direct loads count
			for _, o := range ff.Origins(a) {
				if roots[o.Val] {
					return true
				}
			}
			// a by-value copy of the updated record taken after the update (a helper's value
			// parameter in the inlined normal form): `c := *base; persist(&c)`
			if al, ok := a.(*ssa.Alloc); ok && al.Referrers() != nil {
				for _, r := range *al.Referrers() {
					st, ok := r.(*ssa.Store)
					if !ok || st.Addr != ssa.Value(al) || !core.Dominates(d.Instr, st) {
						continue
					}
					if u, ok := st.Val.(*ssa.UnOp); ok && u.X == d.Base {
						return true
					}
				}
			}
		}
		return false
	}
	_, reach := ff.SuccessExitReachableWithout(d.Instr, isPersist)
	return !reach
}

// sameFieldOfCopySource: addr reads field path p of record A, target writes field path p of
// a local B that was initialised as a whole by-value copy of A (`b := a; b.f = a.f + x`):
// the value read is the old value of the location written.
func sameFieldOfCopySource(ff *core.FuncFacts, addr ssa.Value, target *ssa.FieldAddr) bool {
	// decompose both into base + field path
	path := func(a ssa.Value) (ssa.Value, string) {
		p := ""
		for {
			fa, ok := a.(*ssa.FieldAddr)
			if !ok {
				return a, p
			}
			p = "." + core.FieldName(fa.X.Type(), fa.Field) + p
			a = fa.X
		}
	}
	sb, sp := path(addr)
	tb, tp := path(target)
	if sp != tp || sp == "" || sb == tb {
		return false
	}
	al, ok := tb.(*ssa.Alloc)
	if !ok || al.Referrers() == nil {
		return false
	}
	n := 0
	var src ssa.Value
	for _, r := range *al.Referrers() {
		if st, ok := r.(*ssa.Store); ok && st.Addr == ssa.Value(al) {
			n++
			if ld, ok := st.Val.(*ssa.UnOp); ok && ld.Op == token.MUL {
				src = ld.X
			}
		}
	}
	return n == 1 && src != nil && src == sb
}

// checkErrorGated: d is applied by a call with a trailing error result.  On the paths where
// that error is non-nil the half was not applied, so (a) no other delta of its control class
// may be reached, and (b) if another delta of the class was applied before the call (or the
// function is a declared helper whose callers account for its effect: always), no exit that
// can report success may be reached.  See core/errgate.go.
func checkErrorGated(P *core.Program, R *core.Report, rule, key string, ff *core.FuncFacts, d Delta, group []Delta, always bool) {
	var others []ssa.Instruction
	for _, o := range group {
		if o.Instr != d.Instr {
			others = append(others, o.Instr)
		}
	}
	CheckCallErrorGated(P, R, rule+"-error-gated", key, ff, d.Instr, others, always, d.Desc+" ("+d.Ledger+")")
}

// CheckCallErrorGated is the general form: `half` is a call applying one half of a paired
// update, `partners` the instructions applying the other halves in the same function.
func CheckCallErrorGated(P *core.Program, R *core.Report, rule, key string, ff *core.FuncFacts, half ssa.Instruction, partners []ssa.Instruction, always bool, desc string) {
	c, ok := half.(ssa.CallInstruction)
	if !ok {
		return
	}
	e, discarded := core.ErrValueOf(c)
	if e == nil && !discarded {
		return // the callee cannot fail
	}
	others := map[ssa.Instruction]bool{}
	before := always
	for _, o := range partners {
		if o == nil || o == half {
			continue
		}
		others[o] = true
		if core.Dominates(o, half) {
			before = true
		}
	}
	if len(others) == 0 && !always {
		return
	}
	if discarded {
		e = nil
	}
	res := ff.ErrNonNilReaches(c, e, func(in ssa.Instruction) bool { return others[in] }, before)
	construct := "error of " + desc
	detail := "when this call fails its half of the paired update is not applied: the paths on which its error is non-nil must not apply the partner, nor report success after a partner was applied"
	if res != nil {
		what := "reaches the partner update at "
		if res.Exit {
			what = "reaches an exit that can report success at "
		}
		if discarded {
			detail += "; the error result is discarded and the path " + what + P.Pos(P.InstrPos(res.Instr))
		} else {
			detail += "; with the error non-nil a path " + what + P.Pos(P.InstrPos(res.Instr))
		}
	}
	R.Add(rule, key, construct, P.Pos(P.InstrPos(half)), res == nil, detail)
}
