#!/bin/bash
# Replays every seeded change and every fix reversal as an overlay through all checkers and
# reports the ones NOT caught by any check named in witnesses/index.json.
cd /verif
python3 - <<'PY' > /tmp/wit_list.txt
import json
seen=set()
for w in json.load(open('/verif/witnesses/index.json')):
    k=(w['id'],w['patch'],w['reverse'])
    if k in seen: continue
    seen.add(k)
    props=sorted({x['property'] for x in json.load(open('/verif/witnesses/index.json')) if x['id']==w['id']})
    print(w['id'],w['patch'],'-R' if w['reverse'] else '-', ','.join(props))
PY
cat /tmp/wit_list.txt | xargs -P ${PAR:-6} -L 1 sh -c 'f=""; [ "$2" = "-R" ] && f="-R"; bin/elyslint omatrix $f $1 > /tmp/wit_$0.out 2>&1'
miss=0
while read id patch rev props; do
  ok=0
  for p in $(echo $props | tr ',' ' '); do grep -q "^$p [1-9]" /tmp/wit_$id.out && ok=1; done
  any=$(grep -c "^C[0-9][0-9] [1-9]" /tmp/wit_$id.out)
  if [ $ok = 0 ]; then echo "MISS $id expected=$props any=$any $(grep -h 'ERROR' /tmp/wit_$id.out | head -1)"; miss=$((miss+1)); fi
  rm -f /tmp/wit_$id.out
done < /tmp/wit_list.txt
echo "missed: $miss of $(wc -l < /tmp/wit_list.txt)"
