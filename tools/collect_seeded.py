#!/usr/bin/env python3
"""Copies every independently confirmed seeded change from /tmp/mut/<id>/OUT/<m>/ into
/verif/seeded/<id>-<m>/ (patch.diff, demo_test.go, meta.json)."""
import json,os,shutil,glob,re
props={json.loads(l)['id']:json.loads(l) for l in open('/verif/properties.jsonl')}
for d in sorted(glob.glob('/tmp/mut/C*/OUT/m[12]')):
    pid=d.split('/')[3]; m=os.path.basename(d)
    vf=os.path.join(d,'verified.json')
    if not os.path.exists(vf): continue
    v=json.loads(open(vf).read().replace('\t',' '),strict=False)
    if not v.get('ok'): 
        print('skip (not confirmed)',pid,m); continue
    out=f'/verif/seeded/{pid}-{m}'
    os.makedirs(out,exist_ok=True)
    shutil.copy(os.path.join(d,'patch.diff'),out)
    shutil.copy(os.path.join(d,'demo_test.go'),os.path.join(out,'demo_test.go.txt'))
    readme=open(os.path.join(d,'README.md')).read() if os.path.exists(os.path.join(d,'README.md')) else ''
    files=sorted(set(re.findall(r'^\+\+\+ b/(\S+)',open(os.path.join(d,'patch.diff')).read(),re.M)))
    meta={"property":pid,"title":props[pid]['title'],"variant":m,"files_changed":files,
          "needs_to_manifest":"see README excerpt",
          "readme_excerpt":readme[:1800],
          "demo_path":v.get('demo_path'),"demo_cmd":v.get('demo_cmd'),
          "what_i_ran":{"where":"scratch git worktree of /repo under /tmp/mut (removed afterwards)",
             "demo_on_unchanged_code_exit":v.get('demo_on_clean_exit'),"demo_with_change_exit":v.get('demo_with_change_exit'),
             "go_build_exit":v.get('build_exit'),"full_suite_with_change_exit":v.get('suite_with_change_exit'),
             "suite_cmd":"go test -vet=off -count=1 ./x/... ./app/...","demo_failure_excerpt":v.get('demo_failure_excerpt')},
          "author":"independent sub-agent given only the property text and a scratch worktree"}
    old=os.path.join(out,'meta.json')
    if os.path.exists(old):
        o=json.load(open(old))
        for k in ('caught_by','missed_by'):
            if k in o: meta[k]=o[k]
    json.dump(meta,open(old,'w'),indent=1)
    print('kept',pid,m)
