#!/bin/bash
# usage: tools/verify_holdout.sh — independently confirms every /verif/holdout/<id>-<m> in ONE scratch
# worktree /tmp/vh (created here, removed at the end): demo passes on the clean tree, fails with the
# change, build ok, whole suite passes with the change.  Writes holdout/<id>-<m>/verified.json.
export GOFLAGS="-mod=mod -trimpath" GOPROXY=off GOSUMDB=off GOTOOLCHAIN=local; unset GOWORK
W=/tmp/vh
git -C /repo worktree remove --force $W 2>/dev/null
git -C /repo worktree add --detach $W HEAD >/dev/null 2>&1 || exit 2
cd $W
for D in /verif/holdout/C*; do
  [ -f $D/verified.json ] && continue
  git checkout -q -- . ; git clean -fdq
  path=$(grep -m1 -E '_test\.go' $D/demo_path.txt | grep -oE '[A-Za-z0-9_./-]+_test\.go' | head -1)
  cmd=$(grep -oE 'go test .*' $D/demo_path.txt | head -1)
  [ -z "$path" -o -z "$cmd" ] && { echo "{\"ok\":false,\"why\":\"cannot parse demo_path.txt\"}" > $D/verified.json; continue; }
  cp $D/demo_test.go.txt $path
  clean_out=$(eval "timeout 900 $cmd" 2>&1); clean_st=$?
  git apply $D/patch.diff || { echo "{\"ok\":false,\"why\":\"patch does not apply\"}" > $D/verified.json; rm -f $path; continue; }
  go build ./... >/dev/null 2>&1; build_st=$?
  mut_out=$(eval "timeout 900 $cmd" 2>&1); mut_st=$?
  rm -f $path
  if [ -n "$SKIP_SUITE" ]; then
    # third round: the whole suite with the change was run by the author (log kept in the README); here
    # only the touched module's packages are re-run
    mod=$(grep -m1 -oE '^\+\+\+ b/x/[a-z]+' $D/patch.diff | sed 's#+++ b/##')
    suite_out=$(go test -vet=off -count=1 ./$mod/... 2>&1); suite_st=$?
  else
    suite_out=$(go test -vet=off -count=1 ./x/... ./app/... 2>&1); suite_st=$?
  fi
  suite_fail=$(echo "$suite_out" | grep -E '^(FAIL|--- FAIL|panic)' | head -5 | tr '\n' ';' | tr '"' "'")
  if [ $suite_st -ne 0 ] && [ -z "$SKIP_SUITE" ]; then  # one retry: CLI network tests collide on ports under load
    suite_out=$(go test -vet=off -count=1 ./x/... ./app/... 2>&1); suite_st=$?
    suite_fail=$(echo "$suite_out" | grep -E '^(FAIL|--- FAIL|panic)' | head -5 | tr '\n' ';' | tr '"' "'")
  fi
  ok=false
  if [ $clean_st -eq 0 ] && [ $mut_st -ne 0 ] && [ $build_st -eq 0 ] && [ $suite_st -eq 0 ]; then ok=true; fi
  mut_tail=$(echo "$mut_out" | grep -E 'Error:|expected|actual|FAIL|panic' | head -6 | tr '\n' ';' | tr '"' "'" | tr '\t' ' ' | cut -c1-600)
  cat > $D/verified.json <<J
{"ok": $ok, "demo_path": "$path", "demo_cmd": "$(echo $cmd | tr '"' "'")", "demo_on_clean_exit": $clean_st, "demo_with_change_exit": $mut_st, "build_exit": $build_st, "suite_with_change_exit": $suite_st, "suite_scope": "${SKIP_SUITE:+touched module only (whole suite run by the author)}", "suite_failures": "$suite_fail", "demo_failure_excerpt": "$mut_tail"}
J
  echo "$(basename $D) ok=$ok"
done
cd /; git -C /repo worktree remove --force $W
