#!/bin/sh
# usage: tools/mutcheck.sh <patch.diff> <property>...   — applies the patch to /repo, runs the
# quick checks, and reverts /repo. Exit status: 0 if at least one check reported a violation.
patch="$1"; shift
cd /repo || exit 2
if ! git diff --quiet; then echo "/repo has uncommitted changes" >&2; exit 2; fi
git apply "$patch" || { echo "patch does not apply" >&2; exit 2; }
caught=1
for p in "$@"; do
  out=$(/verif/check "$p" quick 2>&1); st=$?
  echo "$out" | grep -E "violated|undecided" | head -5
  echo "$out" | tail -1
  if [ $st -eq 1 ]; then caught=0; fi
done
git -C /repo checkout -- . && git -C /repo clean -fdq
exit $caught
