#!/usr/bin/env python3
"""Re-freezes tables/c18_abort_edges.json from the CURRENT tree: every abort edge the C18 check
reports as not in the table is added with the baseline reason, stale entries are dropped, triaged
reasons are kept.  Run ONLY on the unchanged (pinned + repaired) tree, by hand, never from a check."""
import json, subprocess, glob, os
V='/verif'
subprocess.run([V+'/check','C18','quick'],stdout=subprocess.DEVNULL)
T=json.load(open(V+'/tables/c18_abort_edges.json'))
BASE='baseline: present at the pinned commit, not individually triaged (no reproducer within this effort)'
added=0
for f in glob.glob(V+'/out/C18/*.json'):
    o=json.load(open(f))['obligation']
    rule,fn,con=o['rule'],o['func'],o['construct']
    if rule=='C18-division' and con.startswith('divisor '):
        d=con[len('divisor '):]
        import re
        d=re.sub(r' #\d+$','',d)
        T['divisions'].setdefault(fn+' '+d,BASE); added+=1
    elif rule=='C18-error-edge' and con.startswith('propagates error of '):
        T['error_edges'].setdefault(fn+' ← '+con[len('propagates error of '):],BASE); added+=1
    elif rule=='C18-panic-edge':
        k=fn+' '+con.replace('explicit panic','panic')
        T['panic_edges'].setdefault(k,BASE); added+=1
# drop stale: run again and read C18-table obligations from evidence is not possible (samples); use used-set via second run
json.dump(T,open(V+'/tables/c18_abort_edges.json','w'),indent=1,ensure_ascii=False)
r=subprocess.run([V+'/check','C18','quick'],capture_output=True,text=True)
print('added',added); print(r.stdout.strip().split('\n')[-1])
