#!/usr/bin/env python3
"""Regenerates /verif/MANIFEST.json from the claims below. Run after adding a checker."""
import json
props=[json.loads(l) for l in open('/verif/properties.jsonl')]
ENV="GOFLAGS=-mod=mod GOPROXY=off GOSUMDB=off GOTOOLCHAIN=local GOWORK=off"
CLAIMS={
 "C17":dict(
   text="Structural necessary condition decided on every path of every Msg handler: all 89 handlers are enumerated from the MsgServer interfaces and classified; for governance messages every state-changing call site and every success exit is dominated by keeper.authority == msg.<proto signer field>; tradeshield update/cancel effects are dominated by storedOrder.OwnerAddress == msg.OwnerAddress for the order loaded by msg.OrderId; owner-keyed handlers pass an address derived from the proto signer to the frozen per-account lookups/debits; feeder / allow-list guards dominate effects. This is the right level because the property is a guard-dominance fact over all handlers and all paths, which is exactly what the tests (one sender per handler) cannot cover. Not a proof of the behavioural statement: ante-handler signature verification and ValidateBasic are trusted.",
   design="§3 C17, §2 R3",
   note="Trusted: go/types+go/ssa of x/tools v0.29.0; cosmos-sdk verifies that the tx is signed by the proto signer field; frozen class table tables/c17_classes.json (56 non-governance handlers, each with a reason). State unchanged on rejection is decided as: no state-changing site is reachable without the guard.",
   technique="static analysis: must-hold guard facts (forward dataflow over go/ssa CFG) + backward provenance slices + who-may-write summaries over a repo-CHA call graph"),
 "C10":dict(
   text="Guard dominance decided on every path: every call site of perpetual ForceCloseLong/ForceCloseShort and leveragelp ForceCloseLong (resolved through the call graph) lies in one of five frozen guarded functions or the owner-keyed close, and is reached only under the matching comparison — health <= safety factor (health produced by Get*Health, bound by GetSafetyFactor/Params.SafetyFactor), stop-loss price <= stop (long, LP) / >= (short), take-profit >= (long) / <= (short) — using must-hold facts and, where the long/short discriminator re-merges, enumeration of all acyclic paths with contradiction pruning; comparison operators are normalised so a weakened or flipped comparison fails. Every state-changing callee in the third-party entry functions is frozen (accrued interest/funding, health refresh, guarded closes). Every success exit of ProcessOpen / OpenConsolidate / ProcessOpenLong carries the strict fact health > safety factor. Necessary structural condition, not a proof that health is the right number.",
   design="§3 C10, §2 R3/R4",
   note="Trusted: go/types+go/ssa; frozen tables c10_sites.json, c10_entries.json; owner path decided by C17. Path enumeration bound 4096 acyclic paths (exceeding it is reported as undecided = failure).",
   technique="static analysis: must-hold guard facts + bounded acyclic path enumeration with contradiction pruning over go/ssa; who-may-call over repo-CHA call graph"),
 "C06":dict(
   text="The vault equation is treated as a linear invariant TotalValue − cash − Σ(Borrowed + InterestStacked − InterestPaid) = 0. For every consensus-reachable function (not a hand list) the deltas it applies to the tracked fields (read-modify-write stores) and to the stablestake module's deposit-denom bank balance (transfers classified by account and denom provenance) are extracted from SSA; deltas on the same success paths must cancel symbolically (linear normal forms, e.g. repay = amount − interest); a plain overwrite of a tracked field, an update that does not reach its Set* call, a debt persisted from the read-only accrual preview, or a stale params write-back is a violation. Decides that every update preserves the equation on every path; does not bound rounding inside GetInterest.",
   design="§3 C06, §2 R1/R6, Appendix C/D",
   note="Trusted: go/types+go/ssa; bank keeper moves exactly the coins it is given; GetDebt declared as non-persisting helper (guarded by C06-debt-source). Genesis import is out of scope.",
   technique="static analysis: symbolic delta extraction over go/ssa, linear normal forms, control-equivalence classes on success paths, provenance slices, call-graph summaries"),
 "C08":dict(
   text="Two linear invariants are decided for every consensus-reachable function: leveragelp Pool.LeveragedLpAmount − Σ Position.LeveragedLpAmount = 0 and Position.LeveragedLpAmount − shares committed at the position address = 0 (amm JoinPoolNoSwap result / ExitPool share argument, called with GetPositionAddress()). Deltas on the same success paths must cancel symbolically and updated records must reach their Set*/Destroy* call. Also decided on all paths: DestroyPosition exactly on the amount == 0 edge after the update (SetPosition otherwise); who may write the open-position counter and that +1/−1 are paired with storing/deleting the position; a pool record handed to a persisting callee is fresh (not cached across loop iterations); the third-party closes run ForceCloseLong on a CacheContext written only under err == nil. Necessary structural conditions of the sums, not the sums themselves.",
   design="§3 C08, §2 R1/R2/R6",
   note="Trusted: go/types+go/ssa; amm JoinPoolNoSwap/ExitPool commit/uncommit exactly the shares they return/receive (lemmas J/E, decided under C02 when built); MigrateData is upgrade-only and outside the subject set.",
   technique="static analysis: symbolic delta cancellation over go/ssa, must-hold facts, record-freshness dataflow with persists-parameter summaries, cache-context isolation shape check"),
 "C09":dict(
   text="For Custody, Liabilities and Collateral the equation perpetual pool aggregate − Σ MTP field = 0 is decided as a linear invariant over every consensus-reachable function: read-modify-write updates of MTP.<field> and calls of Pool.Update<Field>(…, isIncrease, …) (sign from the constant bool; the three helper bodies are themselves checked to add on the isIncrease edge and subtract otherwise on the asset selected by position and denom) lying on the same success paths must cancel symbolically; estimation/display code on scratch MTPs is accepted only if it cannot reach SetMTP/SetPool/DestroyMTP. Also: who writes OpenMTPCount and that ±1 is paired with the store write/delete; the minimum-custody check is passed after every custody-increasing step of Open/OpenConsolidate and on every success path of the three perpetual AmmHooks, and its error propagates; no pairing-primitive error becomes a nil return (one frozen latent instance). Structural necessary conditions; truncation drift and bank backing are not decided.",
   design="§3 C09, §2 R1/R3",
   note="Trusted: go/types+go/ssa; store forwarding through pointer parameters assumes no second alias to the same MTP/Pool inside one function (DESIGN §7). Frozen: Borrow's `return nil` on UpdateCustody error (latent).",
   technique="static analysis: symbolic delta cancellation with bool-signed helper summaries, helper body-shape check, must-pass-through queries on the success-exit CFG"),
 "C12":dict(
   text="Linear invariant commitment Params.TotalCommitted − Σ accounts' committed = 0 decided for every consensus-reachable function: updates of TotalCommitted (old.Add/Sub and the saturating helper subTotalCommitted, body shape checked) and calls of Commitments.AddCommittedTokens / DeductFromCommitted on the same success paths must cancel symbolically; the updated params must reach SetParams and must not be a stale write-back over a callee's own params update. Custody: CommitLiquidTokens pairs the transfer into the module account with the committed amount; UncommitTokens releases custody only after a successful deduction, to the uncommitting account, in the uncommitted amount. Lock-ups: DeductFromCommitted's success exits carry ¬(new amount < 0) ∧ ¬(locked > new amount), a lock-up is kept exactly under unlock > now ∧ ¬isLiquidation, AddCommittedTokens records lock-ups of exactly the committed amount, and the constant true reaches the isLiquidation parameter chain only from the leveragelp liquidation. One known finding (F-12a) is reported as KNOWN-FINDING. Denoms are not distinguished by the amount algebra; Σ over accounts as a number is not decided.",
   design="§3 C12, §2 R1/R3/R6",
   note="Trusted: go/types+go/ssa; bank keeper. Known finding F-12a (UncommitTokens adds to TotalCommitted) listed in known_findings.json, cannot be repaired without editing two masterchef tests that pin the defective value.",
   technique="static analysis: symbolic delta cancellation over go/ssa, helper body-shape checks, must-hold facts, interprocedural constant flow of a bool parameter over the call graph"),
 "C01":dict(
   text="Two linear invariants decided over every consensus-reachable function: (I1) bank balance at an AMM pool address − pool book = 0 and (I2) pool book − chain-wide DenomLiquidity = 0. Bank transfers are classified by address provenance (Pool.GetAddress()/Pool.Address through bech32 conversion); book updates are the resolved calls of Pool.IncreaseLiquidity/DecreaseLiquidity, the …AndUpdateLiquidity keeper helpers and Pool.JoinPool/ExitPool results; DenomLiquidity the RecordTotalLiquidity* calls. Deltas on the same success paths must cancel symbolically; helper functions are accounted at their call sites and their declared effect is verified against their own body. Also decided: zero share arguments at the six back-door call sites, CreatePool's book/transfer/DenomLiquidity all derive from the same message's PoolAssets, MatchAmmBalances is upgrade-only, and a pool record handed to a persisting callee is fresh. Third-party sends and numeric correctness of the amounts are not covered; the set-to idiom of processExitPool is decided under C05.",
   design="§3 C01, §2 R1/R4/R6",
   note="Trusted: go/types+go/ssa; bank keeper; by-value copies of ammtypes.Pool share the PoolAssets backing array (DESIGN §2 R6).",
   technique="static analysis: symbolic delta cancellation with helper-effect summaries verified against bodies, address provenance slices, reachability over repo-CHA call graph"),
 "C02":dict(
   text="Share accounting as linear invariants over every consensus-reachable function: (S1) minted supply of a share denom − Pool.TotalShares = 0 and (S2) minted supply − committed shares = 0. Mint/Burn are classified by denom provenance (GetPoolShareDenom / stablestake GetShareDenom); TotalShares moves through Pool.IncreaseLiquidity/DecreaseLiquidity, Pool.JoinPool's shares result and Pool.ExitPool's share argument; commitments through CommitLiquidTokens/UncommitTokens with a share-denom argument. Helper effects (MintPoolShareToAccount mints and commits exactly amount; BurnPoolShareFromAccount burns exactly amount; Apply{Join,Exit}PoolStateChange) are declared and verified against their bodies. Also: every consensus caller of commitment UncommitTokens either burns the uncommitted shares on every success path or is reached only with denom == Eden/EdenB on every path; uncommit dominates burn; InitializePool mints the TotalShares it set. Σ over accounts is not decided.",
   design="§3 C02, §2 R1/R4",
   note="Trusted: go/types+go/ssa; bank keeper; commitment ledger itself is C12.",
   technique="static analysis: symbolic delta cancellation, denom provenance, acyclic path enumeration for the disjunctive denom guard"),
}
NA={}
checks=[]
for p in props:
    i=p['id']
    if i in CLAIMS:
        c=CLAIMS[i]
        checks.append({"property_id":i,"quick_cmd":f"./check {i} quick","thorough_cmd":f"./check {i} thorough",
          "evidence_file":f"/verif/evidence/{i}.json","replay_cmd_template":"cat {path}","engine":"elyslint",
          "level_claimed":{"category":"other","text":c['text'],"design_ref":c['design']},
          "level_note":c['note'],"technique":c['technique']})
na=[{"property_id":p['id'],"reason":NA.get(p['id'],"checker not built yet (work in progress; DESIGN.md §3 lists the planned structural clauses)")} for p in props if p['id'] not in CLAIMS]
m={"version":1,
 "setup_cmd":f"cd /verif/elyslint && {ENV} go build -o /verif/bin/elyslint ./cmd/elyslint",
 "hooks":{"guard":"verif","enable":"none needed: static analysis reads the source of /repo's working tree; there is no instrumentation","baseline_off_cmd":"cd /repo && go test -mod=mod -json -vet=off -count=1 -timeout 25m ./...","source_commits":[],"add_only":True},
 "engines":[{"name":"elyslint","path":"/verif/elyslint","serves_properties":sorted(CLAIMS),"kind_free_text":"repository-specific static analyser over go/packages + go/ssa (x/tools v0.29.0): repo-CHA call graph, roots from types, store forwarding, must-hold guard facts, provenance slices, delta pairing, effect summaries, frozen triage tables"}],
 "checks":checks,
 "notes":"Technique family: static analysis only; every check loads /repo's current working tree. Known findings: /verif/known_findings.json. Seeded changes: /verif/seeded/. See DESIGN.md.",
 "not_applicable":na}
json.dump(m,open('/verif/MANIFEST.json','w'),indent=1)
print("claimed",sorted(CLAIMS),"na",len(na))
