#!/usr/bin/env python3
"""Recomputes which checks/rules report each seeded change (in-memory overlays of /repo, /repo is not
written) and stores it in <dir>/meta.json as caught_by.  usage: update_caught_by.py seeded|holdout"""
import json, os, subprocess, sys, glob, re
from concurrent.futures import ThreadPoolExecutor
V='/verif'
which=sys.argv[1] if len(sys.argv)>1 else 'seeded'
dirs=sorted(glob.glob(f'{V}/{which}/C*-m*'))
def run(d):
    out=subprocess.run([V+'/bin/elyslint','omatrix','-v',d+'/patch.diff'],capture_output=True,text=True,timeout=900).stdout
    cb={}
    for line in out.splitlines():
        m=re.search(r': \[(violated|undecided)\] (\S+) : ',line)
        if m:
            rule=m.group(2)
            prop=rule.split('-')[0] if re.match(r'C\d\d-',rule) else None
            if prop and rule!='floor':
                cb.setdefault(prop,set()).add(rule)
    return d,{k:sorted(v) for k,v in cb.items()}
with ThreadPoolExecutor(6) as ex:
    res=list(ex.map(run,dirs))
miss=[]
for d,cb in res:
    mp=d+'/meta.json'
    meta=json.load(open(mp)) if os.path.exists(mp) else {'property':os.path.basename(d)[:3],'variant':os.path.basename(d)[4:]}
    meta['caught_by']=cb
    meta['own_property_check_catches']=meta['property'] in cb
    json.dump(meta,open(mp,'w'),indent=1)
    if not cb: miss.append(os.path.basename(d))
print(which,len(res),'changes; not reported by any check:',miss)
