#!/bin/bash
# Runs every checker on every benign change (in-memory overlay of /repo; /repo is not written).
# A benign change must produce NO violation anywhere; output: one line per (change, property) alarm.
cd /verif
out=${1:-/verif/benign/MATRIX.txt}
: > $out
ls -d ${BDIR:-benign}/C*/ | xargs -P ${PAR:-6} -I{} sh -c 'n=$(basename {}); bin/elyslint omatrix -v {}patch.diff > /tmp/benign_$n.out 2>&1'
for d in ${BDIR:-benign}/C*/; do n=$(basename $d); echo "== $n" >> $out; grep -v " 0 $" /tmp/benign_$n.out >> $out; rm -f /tmp/benign_$n.out; done
grep -c "^C[0-9][0-9] [1-9]" $out | sed 's/^/alarms (change,property pairs): /'
