#!/usr/bin/env python3
"""Re-freezes tables/floors.json from the CURRENT tree.  A floor guards against a rule that
silently stops matching (a vacuous pass); it is set to half the instance count confirmed on the
pinned tree (at least one), so that ordinary maintenance — merging two call sites into a helper,
dropping a redundant handler — does not trip it while a rule that lost its anchors still does.
Run by hand on the unchanged tree only."""
import json, subprocess
V='/verif'
props=[json.loads(l)['id'] for l in open(V+'/properties.jsonl')]
man=json.load(open(V+'/MANIFEST.json'))
claimed=[c['property_id'] for c in man['checks']]
fl={}
for p in claimed:
    subprocess.run([V+'/check',p,'quick'],stdout=subprocess.DEVNULL)
    ev=json.load(open(f'{V}/evidence/{p}.json'))
    pr=ev['coverage']['per_rule']
    fl[p]={r:max(1,n//2) for r,n in sorted(pr.items()) if r not in ('floor','floors','known-findings') and not r.startswith('cg-vta') and not r.endswith('-table')}
json.dump(fl,open(V+'/tables/floors.json','w'),indent=1)
print({p:sum(v.values()) for p,v in fl.items()})
