#!/bin/bash
# usage: tools/verify_all.sh — verifies every /tmp/mut/<id>/OUT/<m> that has no verified.json yet, one at a time
for d in /tmp/mut/*/OUT/m[12]; do
  [ -f $d/verified.json ] && continue
  [ -f $d/patch.diff ] || continue
  id=$(echo $d | cut -d/ -f4); m=$(basename $d)
  /verif/tools/verify_mutant.sh $id $m >> /tmp/mut/verify_all.log 2>&1
done
