#!/bin/bash
# usage: tools/verify_mutant.sh <prop-id> <m1|m2> [nosuite]
# Independently confirms a seeded change produced in /tmp/mut/<id>/OUT/<m>: the demonstration
# passes on the clean tree, fails with the change, and the whole suite passes with the change.
# Result: OUT/<m>/verified.json. Runs entirely inside the scratch worktree /tmp/mut/<id>.
id=$1; m=$2; W=/tmp/mut/$id; D=$W/OUT/$m
export GOFLAGS=-mod=mod GOPROXY=off GOSUMDB=off GOTOOLCHAIN=local; unset GOWORK
cd $W || exit 2
git checkout -q -- . ; git clean -fdq -e OUT
path=$(grep -m1 -E '_test\.go' $D/demo_path.txt | grep -oE '[A-Za-z0-9_./-]+_test\.go' | head -1)
cmd=$(grep -m1 -oE 'go test .*' $D/demo_path.txt)
[ -z "$path" -o -z "$cmd" ] && { echo "{\"ok\":false,\"why\":\"cannot parse demo_path.txt\"}" > $D/verified.json; exit 1; }
cp $D/demo_test.go $path
clean_out=$(eval "$cmd" 2>&1); clean_st=$?
git apply $D/patch.diff || { echo "{\"ok\":false,\"why\":\"patch does not apply\"}" > $D/verified.json; git checkout -q -- .; rm -f $path; exit 1; }
go build ./... >/dev/null 2>&1; build_st=$?
mut_out=$(eval "$cmd" 2>&1); mut_st=$?
rm -f $path
suite_st=-1; suite_fail=""
if [ "$3" != nosuite ]; then
  suite_out=$(go test -vet=off -count=1 ./x/... ./app/... 2>&1); suite_st=$?
  suite_fail=$(echo "$suite_out" | grep -E '^(FAIL|--- FAIL|panic)' | head -5 | tr '\n' ';' | tr '"' "'")
fi
git checkout -q -- . ; git clean -fdq -e OUT
ok=false
if [ $clean_st -eq 0 ] && [ $mut_st -ne 0 ] && [ $build_st -eq 0 ] && { [ $suite_st -eq 0 ] || [ "$3" = nosuite ]; }; then ok=true; fi
mut_tail=$(echo "$mut_out" | grep -E 'Error:|expected|actual|FAIL|panic' | head -6 | tr '\n' ';' | tr '"' "'" | cut -c1-600)
cat > $D/verified.json <<J
{"ok": $ok, "demo_path": "$path", "demo_cmd": "$(echo $cmd | tr '"' "'")", "demo_on_clean_exit": $clean_st, "demo_with_change_exit": $mut_st, "build_exit": $build_st, "suite_with_change_exit": $suite_st, "suite_failures": "$suite_fail", "demo_failure_excerpt": "$mut_tail"}
J
cat $D/verified.json
