#!/usr/bin/env python3
"""Applies every /verif/seeded/*/patch.diff to /repo in turn, runs all checkers once
(bin/elyslint matrix), records which properties' checks report a violation, reverts.
Writes /verif/seeded/MATRIX.json and updates each meta.json (caught_by)."""
import json,os,subprocess,glob,sys
env=dict(os.environ,GOFLAGS='-mod=mod',GOPROXY='off',GOSUMDB='off',GOTOOLCHAIN='local')
env.pop('GOWORK',None)
def run():
    out=subprocess.run(['/verif/bin/elyslint','matrix'],capture_output=True,text=True,env=env).stdout
    res={}
    for l in out.splitlines():
        p=l.split(' ',2)
        if len(p)>=2 and p[0].startswith('C') and p[1].isdigit():
            res[p[0]]={"violations":int(p[1]),"rules":p[2].split(',') if len(p)>2 and p[2] else []}
        elif l.startswith('LOAD-ERROR'):
            res['LOAD-ERROR']=l[:300]
    return res
assert subprocess.run(['git','-C','/repo','diff','--quiet']).returncode==0,"/repo dirty"
base=run()
M={"baseline":base,"seeded":{}}
only=sys.argv[1:]
for d in sorted(glob.glob('/verif/seeded/C*-m*')):
    name=os.path.basename(d)
    if only and name not in only: continue
    r=subprocess.run(['git','-C','/repo','apply',os.path.join(d,'patch.diff')],capture_output=True,text=True)
    if r.returncode!=0:
        M["seeded"][name]={"error":"patch does not apply: "+r.stderr[:200]}; print(name,'APPLY-FAIL'); continue
    res=run()
    subprocess.run(['git','-C','/repo','checkout','--','.']); subprocess.run(['git','-C','/repo','clean','-fdq'])
    caught={p:v["rules"] for p,v in res.items() if p!='LOAD-ERROR' and v["violations"]>base.get(p,{"violations":0})["violations"] or (p!='LOAD-ERROR' and set(v["rules"])-set(base.get(p,{"rules":[]})["rules"]))}
    M["seeded"][name]={"caught_by":caught}
    if 'LOAD-ERROR' in res: M["seeded"][name]["load_error"]=res['LOAD-ERROR']
    mp=os.path.join(d,'meta.json'); meta=json.load(open(mp))
    meta["caught_by"]=caught
    meta["own_property_check_catches"]= meta["property"] in caught
    json.dump(meta,open(mp,'w'),indent=1)
    print(name,'->',', '.join(f"{p}[{'/'.join(r)}]" for p,r in sorted(caught.items())) or 'MISSED')
if not only:
    json.dump(M,open('/verif/seeded/MATRIX.json','w'),indent=1,sort_keys=True)
