#!/usr/bin/env python3
"""Builds /verif/witnesses/index.json: the sensitivity witnesses the thorough tier replays as
in-memory overlays (never touching /repo).  Sources:
  * seeded/<id>/patch.diff and holdout/<id>/patch.diff (independently written property-breaking changes), forward
  * the repair commits in /repo (known_findings.json status=fixed), applied in reverse
Each witness names the property checks expected to fire and the rules expected."""
import json, os, subprocess, glob
V = os.path.dirname(os.path.dirname(os.path.abspath(__file__)))
idx = []
for corpus, kind in (('seeded', 'seeded change (independent author)'), ('holdout', 'hold-out change (independent author, written after the rules)')):
    for d in sorted(glob.glob(V + '/' + corpus + '/C*-m*')):
        m = json.load(open(d + '/meta.json'))
        wid = os.path.basename(d)
        for prop, rules in sorted((m.get('caught_by') or {}).items()):
            idx.append({'id': wid, 'property': prop, 'patch': '%s/%s/patch.diff' % (corpus, wid), 'reverse': False,
                        'expect_rules': sorted(rules), 'kind': kind})
kf = json.load(open(V + '/known_findings.json'))
seen = set()
for k in kf:
    if k['status'] != 'fixed' or not k.get('commit') or not k.get('rule'):
        continue
    fn = 'witnesses/fix-%s.diff' % k['id']
    if k['id'] not in seen:
        seen.add(k['id'])
        diff = subprocess.check_output(['git', '-C', '/repo', 'show', '--format=', k['commit'], '--', '.', ':(exclude)*_test.go'])
        open(V + '/' + fn, 'wb').write(diff)
    idx.append({'id': 'revert-' + k['id'], 'property': k['property'], 'patch': fn, 'reverse': True,
                'expect_rules': [k['rule']], 'kind': 'reverse of repair commit %s' % k['commit']})
hand = json.load(open(V + '/witnesses/hand/index.json'))
for name, h in sorted(hand.items()):
    idx.append({'id': 'hand-' + name, 'property': h['property'], 'patch': 'witnesses/hand/%s.diff' % name, 'reverse': False,
                'expect_rules': h['rules'], 'kind': 'hand-made variant: ' + h['what']})
json.dump(idx, open(V + '/witnesses/index.json', 'w'), indent=1)
print(len(idx), 'witnesses')
